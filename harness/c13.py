"""C13 -- known answers and duplicate-question suppression: correspondence + oracle.

Streams
  svc    `generate_service_query` on a real DNSCache/QuestionHistory (0..400 PTRs, ages around half TTL, noise records,
         forced QU/QM, multicast/unicast, an earlier asker at gaps {0, 998, 999, 1000, ...} with a larger/smaller cache);
         the DNSOutgoing objects, the packets they encode to, the bucket grouping and the history afterwards are compared
  req    `ServiceInfo._generate_request_query` on real cache/history states (SRV/TXT/A/AAAA at ages around half TTL)
  hear   a real Zeroconf host (virtual time) with a registered service hears a QM/QU question with known answers from
         the link, then a browser-style query for the same question is generated `gap` ms later
  loop   `AsyncServiceInfo.async_request` under virtual time: every loop iteration (request generated?, its question type,
         the timeout it then sleeps) is replayed in the model; the datagrams are checked against the property
"""
from __future__ import annotations

import functools

from . import common as C
from . import vsim

TRACE = True
TRUSTED = [
    "C13: the cache is seen through get_all_by_details only (a list of records filtered by lower-cased name, type, class); its internals are C05",
    "C13: packet encoding (TC bit, splitting) is C14's model; here the real packets are decoded with the library's own parser and checked by the oracle",
    "C13: the request loop is replayed iteration by iteration from the calls the real coroutine makes (_generate_request_query, async_wait); "
    "asyncio's future/timeout machinery is replaced by harness/vsim.py",
]
ASSUMPTIONS = ["record and question equality/hash are congruent (C20)"]

T = "_x._tcp.local."
T2 = "_y._tcp.local."
D13_SIG = "C13:lookup-third-query-early"
D13B_SIG = "C13:suppression-last-sighting-only"
R3A_SIG = "C13:heard-tc-deferral-window"


class Stub:
    """the two attributes generate_service_query / _generate_request_query use"""

    def __init__(self):
        from zeroconf._cache import DNSCache
        from zeroconf._history import QuestionHistory

        self.cache = DNSCache()
        self.question_history = QuestionHistory()


def hist_tokens(history):
    items = []
    for q, (t, known) in history._history.items():
        ks = sorted(C.rec_line(r) for r in known)
        items.append("%s %d %d %s" % (C.question_line(q), int(t), len(ks), " ".join(ks)))
    return "%d %s" % (len(items), " ".join(items))


def cache_tokens(cache):
    recs = [r for bucket in cache.cache.values() for r in bucket]
    return "%d %s" % (len(recs), " ".join(C.rec_line(r) for r in recs))


def hist_str(history):
    items = sorted("%s,%d,%d@%d:[%s]" % (C.hs(q.name.lower()), q.type, q.class_, int(t), ";".join(sorted(C.rec_line(r).replace(" ", ",") for r in known)))
                   for q, (t, known) in history._history.items())
    return " ".join(items) if items else "-"


def outs_str(outs, now):
    """canonical form of a list of DNSOutgoing, as the model prints it"""
    qs = []
    for o in outs:
        ans = [(r, t) for (r, t) in o.answers]
        # every question of this outgoing shares the answer list; attribute answers to the question they answer
        for q in o.questions:
            # the TTL field `_write_record` writes: from the time stored with the answer (0 = the record's own TTL)
            mine = sorted("%s:%d" % (C.rec_line(r).replace(" ", ","), int(r.ttl) if t == 0 else int(r.get_remaining_ttl(t))) for (r, t) in ans
                          if r.name.lower() == q.name.lower() and r.type == q.type and r.class_ == q.class_)
            qs.append("q=%s k=%s" % (C.question_line(q).replace(" ", ","), ";".join(mine) if mine else "-"))
    qs.sort()
    return " | ".join(qs) if qs else "-"


def wire_ttl_check(outs, cached, now, sig):
    """decode every packet the implementation would send and compare the TTL field of each known answer with the remaining
    TTL of the cached record it stands for: floor((created + 1000*ttl - now) / 1000)"""
    from zeroconf import DNSIncoming, const

    bad = []
    for o in outs:
        pk = o.packets()
        msgs = [DNSIncoming(p) for p in pk]
        tcs = [m.truncated for m in msgs]
        if tcs != [True] * (len(msgs) - 1) + [False]:
            bad.append(("C13:tc-bits", "TC bits of one query's packets are %s" % tcs))
        for p_ in pk:
            if len(p_) > const._MAX_MSG_TYPICAL:
                bad.append(("C13:packet-size", "query packet of %d bytes" % len(p_)))
        # split over several packets: every question once, every known answer handed to the builder in exactly one packet
        wire_q = sorted(C.question_line(q) for m in msgs for q in m.questions)
        if wire_q != sorted(C.question_line(q) for q in o.questions):
            bad.append(("C13:split-questions", "the %d packets of one query carry questions %s, the query has %s" % (len(pk), wire_q, sorted(C.question_line(q) for q in o.questions))))
        def ident(r):  # identity + rdata, without TTL and creation time
            t = C.rec_line(r, created=0).split(" ")
            return " ".join(t[:5] + t[7:])

        wire_a = sorted(ident(a) for m in msgs for a in m.answers())
        want_a = sorted(ident(r) for (r, t) in o.answers if not r.is_expired(now))
        if wire_a != want_a:
            bad.append(("C13:split-answers", "the %d packets of one query carry %d known answers, the query lists %d" % (len(pk), len(wire_a), len(want_a))))
        for m in msgs:
            for a in m.answers():
                src = [r for r in cached if r == a]
                if not src:
                    bad.append((sig, "a known answer on the wire (%s type %d) is not in the cache" % (a.name, a.type)))
                    continue
                want = int((src[0].created + 1000 * src[0].ttl - now) // 1000)
                if a.ttl != want:
                    bad.append((sig, "known answer %s type %d goes out with TTL %d; the cached record (TTL %d, age %d ms) has %d s left"
                                % (a.name, a.type, a.ttl, src[0].ttl, now - src[0].created, want)))
    return bad


# ------------------------------------------------------------------------------------------
# stream svc


def ptr(ty, alias, ttl, created):
    from zeroconf import DNSPointer, const

    return DNSPointer(ty, const._TYPE_PTR, const._CLASS_IN, ttl, alias, created=float(created))


def gen_svc_case(rng, big=False):
    now = 1_000_000 + rng.randint(0, 10**6)
    n = rng.choice([0, 1, 2, 3, 8, 40]) if not big else rng.choice([150, 300, 400])
    recs = []
    for i in range(n):
        ttl = rng.choice([1125, 4500, 120, 10, 1])
        age = rng.choice([0, 1, ttl * 500 - 1, ttl * 500, ttl * 500 + 1, ttl * 999, ttl * 1000 - 1, ttl * 1000, ttl * 1000 + 1, rng.randint(0, ttl * 1000)])
        ty = rng.choice([T, T, T, T2, T.upper() if rng.random() < 0.5 else T])
        recs.append(["p", ty, "Inst%d.%s" % (i, T if ty != T2 else T2), ttl, now - age])
    # noise: same name other type/class
    noise = rng.random() < 0.5
    types = rng.choice([[T], [T], [T, T2], [T2, T], [T], [T], [T, T2], [T2, T], [T, T.upper()], [T.upper(), T, T2]])   # two spellings = one question
    qtype = rng.choice([None, None, "QU", "QM"])
    multicast = rng.random() < 0.8
    # earlier askers, oldest first: `gap` = ms before `now`.  Two or more of them with gaps around 999/1000 ms and identical
    # known sets exercise "every QM ask (re)stamps the history"
    prevs = []
    k = rng.choice([0, 1, 1, 2, 2, 3])
    if k:
        gap = rng.choice([0, 1, 500, 998, 999, 1000, 1001, 5000])
        for j in range(k):
            mode = rng.choice(["same", "same", "same", "fewer", "more", "responder", "responder-more"])
            prevs.append({"gap": gap, "mode": mode, "qtype": rng.choice([qtype, "QM", "QM", "QM", "QU"]),
                          # the 10 s cache clean-up tick (QuestionHistory.async_expire) may fall between two askers
                          "expire_after": rng.choice([None, None, 0, 1, 500, 999, 1000]), "recase": rng.random() < 0.25})
            gap += rng.choice([0, 1, 500, 998, 999, 1000, 1000, 1001, 1500])
        prevs.reverse()
    return {"stream": "svc", "now": now, "recs": recs, "noise": noise, "types": types, "qtype": qtype, "multicast": multicast, "prevs": prevs}


def run_svc(case, res):
    from zeroconf import DNSIncoming, DNSQuestion, DNSQuestionType, DNSService, DNSText, const
    import zeroconf._services.browser as B

    z = Stub()
    now = case["now"]
    recs = [ptr(ty, alias, ttl, cr) for (_, ty, alias, ttl, cr) in case["recs"]]
    if case["noise"]:
        recs.append(DNSText(T, const._TYPE_TXT, const._CLASS_IN, 4500, b"\x00", created=float(now)))
        recs.append(DNSService("Inst0." + T, const._TYPE_SRV, const._CLASS_IN | const._CLASS_UNIQUE, 120, 0, 0, 80, "h.local.", created=float(now)))
    qmap = {None: None, "QU": DNSQuestionType.QU, "QM": DNSQuestionType.QM}
    from zeroconf._cache import DNSCache

    prevs = case.get("prevs") or ([case["prev"]] if case.get("prev") else [])
    extra = ptr(T, "Extra." + T, 4500, now - 10)
    tset = set(case["types"])
    types = list(tset)        # the order in which `for type_ in types_` walks this very set object
    keys = list(dict.fromkeys(t.lower() for t in case["types"]))     # the distinct questions
    pairs = []

    def base_of(mode):
        if mode == "fewer":
            return recs[: len(recs) // 2]
        if mode in ("more", "responder-more"):
            return recs + [extra]
        return recs

    def known_ids(base, ty, t):
        return frozenset((r.name.lower(), r.alias.lower()) for r in base if isinstance(r, type(extra)) and r.name.lower() == ty.lower()
                         and r.type == const._TYPE_PTR and r.class_ == const._CLASS_IN and not r.is_stale(t))

    # the property's own bookkeeping, independent of the library's dict: question -> every QM sighting so far (time, known answers), in order.
    # A sighting is a QM question this instance actually transmitted (read off the DNSOutgoing objects) or heard as a responder.
    spec = {}
    early = []   # suppression verdicts of the asks before the final one

    def ask(t, base, qtype, final):
        z.cache = DNSCache()
        z.cache.async_add_records(base)
        pre_hist, pre_cache = hist_tokens(z.question_history), cache_tokens(z.cache)
        qu_ = (not case["multicast"]) if qtype is None else qtype == "QU"
        outs_ = B.generate_service_query(z, float(t), tset, case["multicast"], qmap[qtype])
        pairs.append(("c13svc %d %s %s %s %d %s" % (t, C.b01(qu_), pre_cache, pre_hist, len(types), " ".join(C.hs(x) for x in types)),
                      "%s || %s" % (outs_str(outs_, float(t)), hist_str(z.question_history))))
        sent = {q.name.lower() for o_ in outs_ for q in o_.questions}
        expect = {}
        for ty in keys:
            known = known_ids(base, ty, t)
            sights = list(spec.get(ty.lower(), []))
            # the sentence: SOME sighting within the previous 999 ms had a list we fully know
            some_cov = (not qu_) and any(t - ts <= 999 and ks <= known for ts, ks in sights)
            # what a history that keeps one entry per question can decide: the LAST sighting
            last_cov = (not qu_) and bool(sights) and t - sights[-1][0] <= 999 and sights[-1][1] <= known
            expect[ty] = {"some": some_cov, "last": last_cov, "sights": sights, "known": known}
            if not final and not qu_:
                v = suppression_verdict(ty, ty.lower() in sent, expect[ty], t)
                if v:
                    early.append(v)
            if not qu_ and ty.lower() in sent:
                spec.setdefault(ty.lower(), []).append((t, known))
        return outs_, qu_, expect

    def suppression_verdict(ty, was_sent, e, t):
        if e["some"] and was_sent:
            if not e["last"]:
                # finding D13b, exactly its class (`C13.LastSightingWorse`): a sighting within the window covers, a later sighting of the
                # same question -- the one the dict kept -- does not
                return (D13B_SIG, "QM question %s was sent at %d although it was asked/heard %s ms earlier with a known-answer list we fully know: a later "
                        "sighting (%d ms earlier) with a list we do not cover has replaced it in the history (sightings: %s)"
                        % (ty, t, [t - ts for ts, ks in e["sights"] if t - ts <= 999 and ks <= e["known"]], t - e["sights"][-1][0], [(t - ts, len(ks)) for ts, ks in e["sights"]]))
            return ("C13:not-suppressed", "QM question %s asked %d ms after the same question was last asked/heard with a known-answer list we cover (earlier askers: %s)"
                    % (ty, t - e["sights"][-1][0], prevs))
        if not e["some"] and not was_sent:
            return ("C13:wrongly-suppressed", "QM question %s was not asked at %d although no sighting of it within the previous 999 ms had a list we cover; earlier askers: %s" % (ty, t, prevs))
        return None

    for idx, pv in enumerate(prevs):
        then = now - pv["gap"]
        if pv["mode"].startswith("responder"):
            # heard on the link as an authoritative responder: recorded with the querier's known answers
            for ty in keys:
                known = {r for r in recs if isinstance(r, type(extra)) and r.name.lower() == ty.lower() and r.type == const._TYPE_PTR
                         and r.class_ == const._CLASS_IN and not r.is_stale(then)}
                ids_ = known_ids(recs, ty, then)
                if pv["mode"] == "responder-more" and ty == T.lower():
                    known.add(extra)
                    ids_ = ids_ | {(T, extra.alias.lower())}
                if pv["qtype"] != "QU":
                    z.question_history.add_question_at_time(DNSQuestion(ty.upper() if pv.get("recase") else ty, const._TYPE_PTR, const._CLASS_IN),
                                                            float(then), known)
                    spec.setdefault(ty.lower(), []).append((then, ids_))
        else:
            ask(then, base_of(pv["mode"]), pv["qtype"], False)
        if pv.get("expire_after") is not None:
            nxt = min([now - x["gap"] for x in prevs[idx + 1:]] + [now])
            te = min(then + pv["expire_after"], nxt)
            pre = hist_tokens(z.question_history)
            z.question_history.async_expire(float(te))
            pairs.append(("c13expire %d %s" % (te, pre), hist_str(z.question_history), "expire"))
    outs, qu, expect = ask(now, recs, case["qtype"], True)
    prev = prevs[-1] if prevs else None
    # ---- oracle on the implementation's output (packets)
    bad = []
    cached = [r for bucket in z.cache.cache.values() for r in bucket]
    asked = {}
    for o in outs:
        pk = o.packets()
        msgs = [DNSIncoming(p) for p in pk]
        tcs = [m.truncated for m in msgs]
        if tcs != [True] * (len(msgs) - 1) + [False]:
            bad.append(("C13:tc-bits", "TC bits of one query's packets are %s" % tcs))
        for p in pk:
            if len(p) > const._MAX_MSG_TYPICAL:
                bad.append(("C13:packet-size", "query packet of %d bytes" % len(p)))
        for m in msgs:
            for q in m.questions:
                if q.name.lower() in asked:
                    bad.append(("C13:question-twice", "question %s appears twice" % q.name))
                asked.setdefault(q.name.lower(), {"qu": q.unique, "ka": []})
            for a in m.answers():
                for name in list(asked):
                    if a.name.lower() == name:
                        asked[name]["ka"].append((a.alias, a.ttl))
    bad += early
    for ty in keys:
        want = sorted((r.alias, int((r.created + 1000 * r.ttl - now) // 1000)) for r in cached
                      if r.name.lower() == ty.lower() and r.type == const._TYPE_PTR and r.class_ == const._CLASS_IN and now < r.created + 500 * r.ttl)
        got = asked.get(ty)
        if not qu:
            v = suppression_verdict(ty, got is not None, expect[ty], now)
            if v:
                bad.append(v)
        if got is None:
            if qu:
                bad.append(("C13:qu-suppressed", "question %s (qu=%s) was not asked; earlier askers: %s" % (ty, qu, prevs)))
            continue
        if got["qu"] != (qu and case["multicast"]):
            bad.append(("C13:qu-bit", "question %s has QU bit %s, expected %s" % (ty, got["qu"], qu and case["multicast"])))
        if sorted(got["ka"]) != want:
            bad.append(("C13:known-answers", "question %s lists %d known answers, %d cached records have more than half their TTL left (first diff: %s)"
                        % (ty, len(got["ka"]), len(want), sorted(set(got["ka"]) ^ set(want))[:2])))
    # ---- grouping: sizes as the implementation computes them, assignment compared with the model
    qk = {}
    for o in outs:
        for q in o.questions:
            known = [r for (r, t) in o.answers if r.name.lower() == q.name.lower()]
            qk[q.name] = q.max_size + sum(a.max_size_compressed for a in known)
    order = sorted(qk, key=qk.get, reverse=True)
    ids = {name: i for i, name in enumerate(order)}
    gline = "c13grp %d %s" % (len(order), " ".join("%d %d" % (qk[n], ids[n]) for n in order))
    gimpl = "|".join(sorted(",".join(str(i) for i in sorted(ids[q.name] for q in o.questions)) for o in outs))
    sig = (case["qtype"], case["multicast"], tuple((pv["mode"], min(pv["gap"], 2500) // 250, pv["qtype"]) for pv in prevs), min(len(case["recs"]), 50),
           len(outs), sum(len(o.packets()) for o in outs) > len(outs))
    return pairs + [(gline, gimpl, "grp")], bad, sig


# ------------------------------------------------------------------------------------------
# stream req


def gen_req_case(rng, many=0):
    now = 1_000_000 + rng.randint(0, 10**6)
    name = "Dev." + T
    server = rng.choice(["host.local.", "Host.Local.", name])
    recs = []
    for kind in ("s", "t", "a", "aaaa", "a2"):
        if rng.random() < 0.6:
            ttl = rng.choice([120, 4500, 10])
            age = rng.choice([0, ttl * 500 - 1, ttl * 500, ttl * 500 + 1, ttl * 1000, rng.randint(0, ttl * 1000)])
            recs.append([kind, ttl, now - age])
    if many:
        # more address records than one packet holds (about 88 A records of a compressed name): the query is split, TC on all but the last
        ttl = rng.choice([120, 4500])
        for i in range(many):
            age = rng.choice([0, 0, 0, 0, 1000, 1000, ttl * 500 - 1, ttl * 500 - 1, ttl * 500, rng.randint(0, ttl * 1000)])
            recs.append(["am", ttl, now - age, i])
    prevgap = rng.choice([None, 0, 500, 998, 999, 1000, 1001])
    return {"stream": "req", "now": now, "name": name, "server": server, "recs": recs, "qu": rng.random() < 0.4, "prevgap": prevgap,
            "prevqu": rng.random() < 0.3}


def run_req(case, res):
    from zeroconf import DNSAddress, DNSQuestionType, DNSService, DNSText, const
    from zeroconf.asyncio import AsyncServiceInfo

    z = Stub()
    now = case["now"]
    name, server = case["name"], case["server"]
    recs = []
    for kind, ttl, cr, *idx in case["recs"]:
        if kind == "am":
            recs.append(DNSAddress(server, const._TYPE_A, const._CLASS_IN | const._CLASS_UNIQUE, ttl, bytes([10, 1, idx[0] // 250, idx[0] % 250]), created=float(cr)))
        elif kind == "s":
            recs.append(DNSService(name, const._TYPE_SRV, const._CLASS_IN | const._CLASS_UNIQUE, ttl, 0, 0, 80, server, created=float(cr)))
        elif kind == "t":
            recs.append(DNSText(name, const._TYPE_TXT, const._CLASS_IN | const._CLASS_UNIQUE, ttl, b"\x03a=1", created=float(cr)))
        elif kind == "a":
            recs.append(DNSAddress(server, const._TYPE_A, const._CLASS_IN | const._CLASS_UNIQUE, ttl, b"\x0a\x00\x00\x01", created=float(cr)))
        elif kind == "a2":
            recs.append(DNSAddress(server, const._TYPE_A, const._CLASS_IN | const._CLASS_UNIQUE, ttl, b"\x0a\x00\x00\x02", created=float(cr)))
        else:
            recs.append(DNSAddress(server, const._TYPE_AAAA, const._CLASS_IN | const._CLASS_UNIQUE, ttl, b"\xfe\x80" + b"\x00" * 13 + b"\x01", created=float(cr)))
    z.cache.async_add_records(recs)
    info = AsyncServiceInfo(T, name)
    info.server = server if server != name else None
    if info.server is not None:
        info.server_key = server.lower()
    QU, QM = DNSQuestionType.QU, DNSQuestionType.QM
    if case["prevgap"] is not None:
        info._generate_request_query(z, float(now - case["prevgap"]), QU if case["prevqu"] else QM)
    pre_hist = hist_tokens(z.question_history)
    out = info._generate_request_query(z, float(now), QU if case["qu"] else QM)
    line = "c13req %d %s %s %s %s %s" % (now, C.b01(case["qu"]), cache_tokens(z.cache), pre_hist, C.hs(name), C.hs(info.server or name))
    impl = "%s || %s" % (outs_str([out], float(now)), hist_str(z.question_history))
    bad = []
    # oracle: known answers of every asked question = unstale matching records; SRV/TXT asked only when no unstale answer; QU never suppressed
    cached = [r for bucket in z.cache.cache.values() for r in bucket]
    for q in out.questions:
        want = sorted(C.rec_line(r) for r in cached if r.name.lower() == q.name.lower() and r.type == q.type and r.class_ == q.class_
                      and now < r.created + 500 * r.ttl)
        got = sorted(C.rec_line(r) for (r, t) in out.answers if r.name.lower() == q.name.lower() and r.type == q.type)
        if got != want:
            bad.append(("C13:lookup-known-answers", "lookup question %s/%d lists %d known answers, expected %d" % (q.name, q.type, len(got), len(want))))
        if q.unique != case["qu"]:
            bad.append(("C13:lookup-qu-bit", "lookup question has QU=%s in a %s request" % (q.unique, "QU" if case["qu"] else "QM")))
    if case["qu"]:
        for ty in (const._TYPE_A, const._TYPE_AAAA):
            if not any(q.type == ty for q in out.questions):
                bad.append(("C13:qu-suppressed", "QU lookup did not ask type %d" % ty))
    # the packets themselves: each known answer with its remaining TTL
    bad += wire_ttl_check([out], cached, now, "C13:lookup-known-answer-ttl")
    # which questions must be there: SRV/TXT only without a fresh answer; QM suppressed iff the same lookup asked it QM at most
    # 999 ms ago with a known-answer list we still cover (the property's own bookkeeping, independent of the library)
    srv_name = info.server or name
    for (qn, qt, skip) in ((name, const._TYPE_SRV, True), (name, const._TYPE_TXT, True), (srv_name, const._TYPE_A, False), (srv_name, const._TYPE_AAAA, False)):
        def fresh(t):
            return {C.rec_line(r) for r in cached if r.name.lower() == qn.lower() and r.type == qt and t < r.created + 500 * r.ttl}
        k_now = fresh(now)
        asked = any(q.name.lower() == qn.lower() and q.type == qt for q in out.questions)
        if skip and k_now:
            expect = False
        elif case["qu"]:
            expect = True
        else:
            then = None if case["prevgap"] is None else now - case["prevgap"]
            recorded = then is not None and not case["prevqu"] and not (skip and fresh(then))
            expect = not (recorded and case["prevgap"] <= 999 and fresh(then) <= k_now)
        if asked != expect:
            bad.append(("C13:lookup-question-presence", "lookup question %s/%d is %s; expected %s (QU=%s, earlier QM ask %s ms ago, fresh answers %d)"
                        % (qn, qt, "asked" if asked else "absent", "asked" if expect else "absent", case["qu"],
                           None if case["prevqu"] else case["prevgap"], len(k_now))))
    sig = (case["qu"], case["prevgap"], case["prevqu"], tuple(sorted({r[0] for r in case["recs"]})), len(out.questions), len(out.packets()))
    return [(line, impl)], bad, sig


def loop_errors(sim):
    """exceptions the event loop's handler saw during a simulated run (a timer callback or `datagram_received` raised)"""
    return [("C13:exception", "exception in the event loop: %s" % str(e.get("exception") or e.get("message"))[:200]) for e in sim.errors[:1]]


# ------------------------------------------------------------------------------------------
# stream hear (virtual time, real host)


def gen_hear_case(rng):
    return {"stream": "hear", "simseed": rng.randint(0, 10**6), "gap": rng.choice([0, 1, 500, 998, 999, 1000, 1001, 3000]),
            "qu": rng.random() < 0.3, "nknown": rng.choice([0, 1, 3]), "extra": rng.random() < 0.4, "registered": rng.choice([True, True, True, True, True, "other", False]),
            "ours": rng.choice([0, 1, 3]), "cover": rng.random() < 0.45, "tc": rng.random() < 0.35,
            # the heard question may spell the type in another case (same question: C20); the engine's 10 s clean-up tick may fall
            # between hearing and asking
            "recase": rng.random() < 0.3, "tick": rng.choice([None, None, 0.0, 0.5, 1.0])}
    # "registered": True = authoritative for the type asked; "other" = has services, but of another type; False = no services



def run_hear(case, res):
    from zeroconf import DNSOutgoing, DNSQuestion, ServiceInfo, const
    import zeroconf._services.browser as B

    sim = vsim.Sim(case["simseed"], maxdelay=0)
    out = {}

    async def main(sim):
        host = sim.make_host("B", "10.0.0.2")
        zc = host.zc
        await zc.async_wait_for_start()
        if case["registered"] is True:
            info = ServiceInfo(T, "Mine." + T, port=80, addresses=[b"\x0a\x00\x00\x02"], server="mine.local.")
            zc.registry.async_add(info)
        elif case["registered"] == "other":
            info = ServiceInfo(T2, "Mine." + T2, port=80, addresses=[b"\x0a\x00\x00\x02"], server="mine.local.")
            zc.registry.async_add(info)
        await sim.sleep_ms(5000)
        now0 = sim.loop.ms
        mine = [ptr(T, "Inst%d.%s" % (i, T), 4500, now0 - 1000) for i in range(case["ours"])]
        if case.get("cover"):
            # our own service's pointer is in our cache (as after hearing our own announcement) ...
            mine.append(ptr(T, "Mine." + T, 4500, now0 - 1000))
        zc.cache.async_add_records(mine)
        q = DNSOutgoing(const._FLAGS_QR_QUERY)
        qq = DNSQuestion(T.upper() if case.get("recase") else T, const._TYPE_PTR, const._CLASS_IN)
        qq.unicast = case["qu"]
        q.add_question(qq)
        theirs = [ptr(T, "Inst%d.%s" % (i, T), 4500, now0) for i in range(case["nknown"])]
        if case["extra"]:
            theirs.append(ptr(T, "Other." + T, 4500, now0))
        if case.get("cover"):
            # ... and the peer already knows it: every answer we could give is suppressed, the question is heard all the same
            theirs.append(ptr(T, "Mine." + T, 4500, now0))
        pre = hist_tokens(zc.question_history)
        if case.get("tc") and len(theirs) >= 2:
            # a truncated query: the known answers continue in a second packet from the same source; the responder must
            # remember the question with the answers of *all* packets
            half = len(theirs) // 2
            q.flags |= const._FLAGS_TC
            for r in theirs[:half]:
                q.add_answer_at_time(r, 0)
            q2 = DNSOutgoing(const._FLAGS_QR_QUERY)
            for r in theirs[half:]:
                q2.add_answer_at_time(r, 0)
            host.inject(q.packets()[0], "10.0.0.9", 5353)
            host.inject(q2.packets()[0], "10.0.0.9", 5353)
        else:
            for r in theirs:
                q.add_answer_at_time(r, 0)
            host.inject(q.packets()[0], "10.0.0.9", 5353)
        can = case["registered"] is True
        out["hear"] = ("c13hear %s %d %s %s %d %s" % (C.b01(can), now0, pre, C.question_line(qq), len(theirs),
                                                     " ".join(C.rec_line(r, created=now0) for r in theirs)),
                       hist_str(zc.question_history))
        out["heard"] = hist_str(zc.question_history)
        if case.get("tick") is not None:
            g1 = int(case["gap"] * case["tick"])
            await sim.sleep_ms(g1)
            pre_t = hist_tokens(zc.question_history)
            zc.engine._async_cache_cleanup()  # the reaper tick (it re-arms itself; an extra timer chain is harmless here)
            out["tick"] = ("c13expire %d %s" % (sim.loop.ms, pre_t), hist_str(zc.question_history), "expire")
            await sim.sleep_ms(case["gap"] - g1)
        else:
            await sim.sleep_ms(case["gap"])
        now = sim.loop.ms
        pre_hist, pre_cache = hist_tokens(zc.question_history), cache_tokens(zc.cache)
        outs = B.generate_service_query(zc, float(now), {T}, True, None)
        out["svc"] = ("c13svc %d 0 %s %s 1 %s" % (now, pre_cache, pre_hist, C.hs(T)), "%s || %s" % (outs_str(outs, float(now)), hist_str(zc.question_history)))
        out["asked"] = bool(outs)
        await vsim.close_host(host)

    sim.run(main)
    bad = loop_errors(sim)
    theirs_set = set(range(case["nknown"])) | ({"x"} if case["extra"] else set())
    ours_set = set(range(case["ours"]))
    expect_sup = case["registered"] is True and not case["qu"] and case["gap"] <= 999 and theirs_set <= ours_set
    if out["asked"] == expect_sup:
        bad.append(("C13:heard-question-suppression", "after hearing the question %d ms earlier (QU=%s, responder=%s, their known answers %s ours) the browser query was %s"
                    % (case["gap"], case["qu"], case["registered"], "within" if theirs_set <= ours_set else "beyond", "sent" if out["asked"] else "suppressed")))
    # the records of the incoming message carry created = arrival time
    pairs = [out["svc"], out["hear"]] + ([out["tick"]] if "tick" in out else [])
    sig = ("hear", case["gap"], case["qu"], case["registered"], theirs_set <= ours_set, bool(case.get("cover")), bool(case.get("tc")), bool(case.get("recase")), case.get("tick"))
    return pairs, bad, sig


# ------------------------------------------------------------------------------------------
# stream hearm: a real host hears a whole query message -- several questions (QU/QM mixes, re-cased, other record types), probes with
# authority records, truncated multi-packet queries, legacy source ports -- then asks its own browser questions `gap` ms later

MINE_HOST = "mine.local."
QPOOL = [("T", 12), ("TU", 12), ("T2", 12), ("T", 255), ("HOST", 1), ("INST", 33), ("INST", 255)]


def _qname(tag):
    return {"T": T, "TU": T.upper(), "T2": T2, "HOST": MINE_HOST, "INST": "Mine." + T}[tag]


def _their(tag, t):
    """a record of the peer's known-answer / authority section"""
    if tag == "other":
        return ptr(T, "Other." + T, 4500, t)
    if tag == "mine":
        return ptr(T, "Mine." + T, 4500, t)
    if tag == "new":
        return ptr(T, "New." + T, 4500, t)
    if tag.startswith("y"):
        return ptr(T2, "InstY%s.%s" % (tag[1:], T2), 4500, t)
    return ptr(T, "Inst%s.%s" % (tag, T), 4500, t)


def gen_hearm_case(rng):
    form = rng.choice(["multi", "multi", "multi", "probe", "probe", "tc", "single", "tc-lone", "tc-lone"])
    nq = {"multi": rng.choice([2, 2, 3, 4]), "probe": rng.choice([1, 1, 2]), "tc": rng.choice([1, 2]), "single": 1, "tc-lone": rng.choice([1, 1, 2])}[form]
    qs = [[tag, ty, rng.random() < (0.6 if form == "probe" else 0.3)] for (tag, ty) in
          (rng.choice(QPOOL[:3] + QPOOL[:3] + QPOOL) for _ in range(nq))]
    if rng.random() < 0.7 and not any(q[0] in ("T", "TU") and q[1] == 12 for q in qs):
        qs.insert(rng.randrange(len(qs) + 1), [rng.choice(["T", "T", "TU"]), 12, rng.random() < 0.25])
    cover = rng.random() < 0.4
    known = [str(i) for i in range(rng.choice([0, 0, 1, 3]))] + (["other"] if rng.random() < 0.3 else []) + (["mine"] if cover else []) \
        + (["y0"] if rng.random() < 0.2 else [])
    rng.shuffle(known)
    pkts = []
    if form == "probe":
        # a probe: the questions plus the records the prober proposes in the authority section; no known answers
        pkts.append({"qs": qs, "ans": [], "auth": rng.choice([["new"], ["new", "other"], ["0"], ["mine"]]), "tc": False})
    elif form == "tc":
        k = rng.choice([2, 2, 3])
        cut = sorted(rng.randrange(len(known) + 1) for _ in range(k - 1))
        parts = [known[a:b] for a, b in zip([0] + cut, cut + [len(known)])]
        split_q = len(qs) > 1 and rng.random() < 0.4
        for i, part in enumerate(parts):
            pq = qs if (i == 0 and not split_q) else ([qs[0]] if i == 0 else (qs[1:] if (i == 1 and split_q) else []))
            pkts.append({"qs": pq, "ans": part, "auth": [], "tc": i < k - 1})
    elif form == "tc-lone":
        # an INCOMPLETE train: every packet carries the TC bit, the continuation never arrives.  The listener holds the packets back and
        # processes them when its 400-500 ms timer fires -- with the arrival time of the last packet as the time of the sighting
        k = rng.choice([1, 1, 2])
        cut = sorted(rng.randrange(len(known) + 1) for _ in range(k - 1))
        parts = [known[a:b] for a, b in zip([0] + cut, cut + [len(known)])]
        for i, part in enumerate(parts):
            pkts.append({"qs": qs if i == 0 else [], "ans": part, "auth": [], "tc": True})
    else:
        pkts.append({"qs": qs, "ans": known, "auth": [], "tc": False})
    if form == "tc-lone":
        # own ask inside the deferral window (0..399 ms after the last packet), after it, and around 999 ms after the ARRIVAL
        return {"stream": "hearm", "simseed": rng.randint(0, 10**6), "form": form, "registered": rng.choice([[T], [T], [T], [T, T2]]),
                "packets": pkts, "port": rng.choice([5353, 5353, 5353, 40000]), "pgap": rng.choice([0, 30]) if len(pkts) > 1 else 0,
                "gap": rng.choice([0, 1, 100, 300, 399, 501, 600, 998, 999, 1000, 1001, 1200, 1400]), "ours": rng.choice([0, 1, 3]), "oursy": rng.random() < 0.3,
                "cover": cover, "tick": None, "updated": rng.random() < 0.2}
    return {"stream": "hearm", "simseed": rng.randint(0, 10**6), "form": form, "registered": rng.choice([[T], [T], [T], [T], [T, T2], [T2], []]),
            "packets": pkts, "port": rng.choice([5353, 5353, 5353, 5353, 40000]), "pgap": rng.choice([0, 0, 0, 30]) if len(pkts) > 1 else 0,
            "gap": rng.choice([0, 1, 500, 500, 998, 999, 1000, 1001, 3000]), "ours": rng.choice([0, 1, 3]), "oursy": rng.random() < 0.3, "cover": cover,
            "tick": rng.choice([None, None, None, 0.5]),
            # the (only) service was updated before the query is heard: it is still registered, the host is still authoritative
            "updated": rng.random() < 0.35}


def run_hearm(case, res):
    from zeroconf import DNSOutgoing, DNSQuestion, ServiceInfo, const
    import zeroconf._services.browser as B

    sim = vsim.Sim(case["simseed"], maxdelay=0)
    out = {}
    reg = [t.lower() for t in case["registered"]]

    def can(name, ty):
        """does the host have an answer strategy for this question?  (from the scenario alone: it registered one instance `Mine.<type>`
        per type in `registered`, all on the host `mine.local.`)"""
        n = name.lower()
        if ty in (12, 255) and n in reg:
            return True
        if ty in (1, 28, 255) and n == MINE_HOST and reg:
            return True
        if ty in (33, 16, 255) and any(n == "mine." + t for t in reg):
            return True
        return False

    async def main(sim):
        host = sim.make_host("B", "10.0.0.2")
        zc = host.zc
        await zc.async_wait_for_start()
        for t in case["registered"]:
            zc.registry.async_add(ServiceInfo(t, "Mine." + t, port=80, addresses=[b"\x0a\x00\x00\x02"], server=MINE_HOST))
        if case.get("updated"):
            for t in case["registered"]:
                # what `async_update_service` does to the registry (new TXT data for the same instance)
                zc.registry.async_update(ServiceInfo(t, "Mine." + t, port=80, addresses=[b"\x0a\x00\x00\x02"], server=MINE_HOST, properties={"v": "2"}))
        await sim.sleep_ms(5000)
        now0 = sim.loop.ms
        mine = [ptr(T, "Inst%d.%s" % (i, T), 4500, now0 - 1000) for i in range(case["ours"])]
        if case["oursy"]:
            mine.append(ptr(T2, "InstY0." + T2, 4500, now0 - 1000))
        if case["cover"]:
            mine.append(ptr(T, "Mine." + T, 4500, now0 - 1000))
        zc.cache.async_add_records(mine)
        pre = hist_tokens(zc.question_history)
        n_draws = len(sim.draws)
        toks = []
        times = []
        for i, pk in enumerate(case["packets"]):
            if i and case["pgap"]:
                await sim.sleep_ms(case["pgap"])
            t = sim.loop.ms
            times.append(t)
            q = DNSOutgoing(const._FLAGS_QR_QUERY | (const._FLAGS_TC if pk["tc"] else 0))
            qtok = []
            for (tag, ty, qu) in pk["qs"]:
                qq = DNSQuestion(_qname(tag), ty, const._CLASS_IN)
                qq.unicast = qu
                q.add_question(qq)
                qtok.append("%s %s" % (C.question_line(qq), C.b01(can(qq.name, ty))))
            recs = []
            for tag in pk["ans"]:
                r = _their(tag, t)
                q.add_answer_at_time(r, 0)
                recs.append(r)
            for tag in pk["auth"]:
                r = _their(tag, t)
                q.add_authorative_answer(r)
                recs.append(r)
            data = q.packets()
            assert len(data) == 1
            host.inject(data[0], "10.0.0.9", case["port"])
            toks.append("%s %d %s %d %s" % (C.b01(bool(pk["auth"])), len(qtok), " ".join(qtok), len(recs), " ".join(C.rec_line(r, created=t) for r in recs)))
        out["times"] = times
        incomplete = case["packets"][-1]["tc"]
        if incomplete:
            # the train is held back: nothing is recorded on arrival; the assembled query is processed when the deferral timer fires
            # (the draw of the last packet), stamped with the arrival time of the last packet
            tcd = [d for d in sim.draws[n_draws:] if (d[1], d[2]) == (400, 500)]      # none when the listener dropped the query (no services)
            out["exec"] = times[-1] + tcd[-1][3] if tcd else None
            out["hear"] = ("c13hearm %d %s 0" % (times[-1], pre), hist_str(zc.question_history), "hearm")
        else:
            out["exec"] = times[-1]
            out["hear"] = (" ".join(("c13hearm %d %s %d %s" % (times[-1], pre, len(toks), " ".join(toks))).split()), hist_str(zc.question_history), "hearm")
        if case.get("tick") is not None:
            g1 = int(case["gap"] * case["tick"])
            await sim.sleep_ms(g1)
            pre_t = hist_tokens(zc.question_history)
            zc.engine._async_cache_cleanup()
            out["tick"] = ("c13expire %d %s" % (sim.loop.ms, pre_t), hist_str(zc.question_history), "expire")
            await sim.sleep_ms(case["gap"] - g1)
        else:
            await sim.sleep_ms(case["gap"])
        now = sim.loop.ms
        out["now"] = now
        hear_line = " ".join(("c13hearm %d %s %d %s" % (times[-1], "%s", len(toks), " ".join(toks))).split())
        if incomplete and out["exec"] is not None and now > out["exec"]:
            # the timer has fired: the held-back query was processed as a whole, with the time of its last packet's arrival
            out["hear2"] = (hear_line % pre, hist_str(zc.question_history), "hearm")
        pre_hist, pre_cache = hist_tokens(zc.question_history), cache_tokens(zc.cache)
        ts = {T, T2}
        outs = B.generate_service_query(zc, float(now), ts, True, None)
        tl = list(ts)
        out["svc"] = ("c13svc %d 0 %s %s %d %s" % (now, pre_cache, pre_hist, len(tl), " ".join(C.hs(x) for x in tl)),
                      "%s || %s" % (outs_str(outs, float(now)), hist_str(zc.question_history)), "svc")
        out["asked"] = {q.name.lower() for o_ in outs for q in o_.questions}
        # a lookup's questions for our own instance (SRV/TXT of the instance, A/AAAA of its host) at the same instant: a heard SRV/TXT/A
        # question is remembered like a heard PTR question (whatever answer strategy serves it)
        from zeroconf import DNSQuestionType
        from zeroconf.asyncio import AsyncServiceInfo
        info = AsyncServiceInfo(T, "Mine." + T)
        info.server, info.server_key = MINE_HOST, MINE_HOST
        pre_hist2 = hist_tokens(zc.question_history)
        rq = info._generate_request_query(zc, float(now), DNSQuestionType.QM)
        out["req"] = ("c13req %d 0 %s %s %s %s" % (now, pre_cache, pre_hist2, C.hs("Mine." + T), C.hs(MINE_HOST)),
                      "%s || %s" % (outs_str([rq], float(now)), hist_str(zc.question_history)), "req")
        out["asked_lookup"] = {(q.name.lower(), q.type) for q in rq.questions}
        # the host's own multicast answer loops back into its cache: an SRV/TXT held fresh is not asked at all (C18's clause)
        out["held"] = {(r.name.lower(), r.type) for b_ in zc.cache.cache.values() for r in b_ if not r.is_stale(float(now))}
        if incomplete and out["exec"] is not None and now <= out["exec"]:
            # ... and the held-back query is processed after our ask: executed at T + 400..500 with time T
            pre_def = hist_tokens(zc.question_history)
            await sim.sleep_ms(out["exec"] - now + 1)
            out["hear2"] = (hear_line % pre_def, hist_str(zc.question_history), "hearm")
        await vsim.close_host(host)

    sim.run(main)
    bad = loop_errors(sim)
    # ---- the property's sentence, from the scenario alone
    t_first, t_last, now = out["times"][0], out["times"][-1], out["now"]
    theirs = [tag for pk in case["packets"] if not pk["auth"] for tag in pk["ans"]]     # a probe's records are not known answers
    for ty in (T, T2):
        heard_qm = any(_qname(tag).lower() == ty.lower() and qt == 12 and not qu and can(_qname(tag), qt) for pk in case["packets"] for (tag, qt, qu) in pk["qs"])
        if ty == T:
            ours = {str(i) for i in range(case["ours"])} | ({"mine"} if case["cover"] else set())
            foreign = [x for x in theirs if x.startswith("y")]
        else:
            ours = {"y0"} if case["oursy"] else set()
            foreign = [x for x in theirs if not x.startswith("y")]
        same = [x for x in theirs if x not in foreign]
        # reading (named in notes/agents/C13.md): "nothing it does not know itself" = nothing it would not list itself as a known answer
        # to this question; a record of another question in the peer's list (`foreign`) that we hold in the cache leaves both
        # directions open
        covered = not foreign and set(same) <= ours
        uncovered = not set(same) <= ours     # a record of this very question that we do not hold: the peer knows more, we have to ask
        asked = ty.lower() in out["asked"]
        # a query multicast from another source port (a one-shot / legacy resolver, a peer with unicast=True) is heard and answered by this
        # instance as an authoritative responder just the same: the sentence has no source-port qualifier, so it counts as "heard"
        demand_sup = heard_qm and covered and now - t_first <= 999
        demand_sent = (not heard_qm) or now - t_last > 999 or uncovered
        pending = case["packets"][-1]["tc"] and out.get("exec") is not None and now <= out["exec"]
        if demand_sup and asked and pending:
            # finding R3-C13-a, exactly its input class: the query was HEARD (its packets arrived <= 999 ms ago, the list it came with is
            # covered) but it is a truncated query whose train is incomplete, and our ask falls inside the listener's deferral window:
            # nothing has been written to the question history yet
            bad.append((R3A_SIG, "a truncated (TC) query whose continuation never arrived was heard %d ms earlier by a host authoritative for %s; its QM question %s came "
                        "with known answers %s, all of which we list ourselves, yet our own QM question was sent: the listener holds the packet back for %d ms "
                        "(deferral timer) and the question history is written only then" % (now - t_first, case["registered"], ty, theirs, out["exec"] - t_last)))
        elif demand_sup and asked:
            bad.append(("C13:heard-question-suppression", "a %s-question query (%s) from port %d was heard %d ms earlier by a host authoritative for %s; its QM question %s "
                        "came with known answers %s, all of which we list ourselves, yet our own QM question was sent"
                        % (sum(len(pk["qs"]) for pk in case["packets"]), case["form"], case["port"], now - t_first, case["registered"], ty, theirs)))
        elif demand_sent and not asked:
            bad.append(("C13:heard-question-suppression", "our QM question %s was suppressed %d ms after a %s query although %s"
                        % (ty, now - t_last, case["form"], "no QM question for it was heard by us as its responder" if not heard_qm else
                           ("the window had passed" if now - t_last > 999 else "the peer listed a record we do not hold"))))
    # ---- the same for a lookup's questions about our own instance: a heard QM question for SRV/TXT of the instance or A/AAAA of its host (whatever
    #      answer strategy serves it) with an empty known-answer list suppresses the lookup's question for 999 ms
    pending = case["packets"][-1]["tc"] and (out.get("exec") is None or now <= out["exec"])
    for (qn, qt) in (("mine." + T, 33), ("mine." + T, 16), (MINE_HOST, 1), (MINE_HOST, 28)):
        heard_q = any(_qname(tag).lower() == qn and ty_ == qt and not qu and can(_qname(tag), ty_) for pk in case["packets"] for (tag, ty_, qu) in pk["qs"])
        asked_q = (qn, qt) in out["asked_lookup"]
        if heard_q and not theirs and now - t_first <= 999 and asked_q and not pending:
            bad.append(("C13:heard-lookup-question-suppression", "the QM question %s/%d was heard %d ms earlier (%s query, empty known-answer list) by a host that answers it, "
                        "yet the lookup's own QM question was sent" % (qn, qt, now - t_first, case["form"])))
        elif (not heard_q or now - t_last > 999) and not asked_q and not (qt in (33, 16) and (qn, qt) in out["held"]):
            bad.append(("C13:heard-lookup-question-suppression", "the lookup's QM question %s/%d was suppressed although %s" % (qn, qt,
                        "the window had passed" if heard_q else "no QM question for it was heard by us as its responder")))
    pairs = [out["svc"], out["hear"], out["req"]] + ([out["tick"]] if "tick" in out else []) + ([out["hear2"]] if "hear2" in out else [])
    sig = ("hearm", case["form"], tuple(sorted(case["registered"])), case["port"] == 5353, min(case["gap"], 1001), len(case["packets"]),
           tuple(sorted((tag, ty, qu) for pk in case["packets"] for (tag, ty, qu) in pk["qs"]))[:3], bool(theirs))
    return pairs, bad, sig


# ------------------------------------------------------------------------------------------
# stream ingest: the cache is built by the real receive path -- response datagrams delivered to a real host, a pointer possibly twice in one
# datagram (answer + additional section), refreshed by later datagrams -- and the browser query's known answers are compared with what the
# datagram history says: a record's life starts at its LAST sighting


def gen_ingest_case(rng):
    ttl = rng.choice([1125, 1200, 1200, 4500])     # not below the 1125 s floor the record manager applies to received pointers (C06's business)
    n = rng.choice([1, 2, 3])
    events = [{"at": 0, "recs": [[i, rng.random() < 0.6] for i in range(n)]}]      # [alias index, sent twice in this datagram]
    t = 0
    for _ in range(rng.choice([1, 1, 2, 3])):
        t += rng.choice([ttl * 300, ttl * 499, ttl * 500, ttl * 501, ttl * 700, ttl * 900])
        events.append({"at": t, "recs": [[i, rng.random() < 0.3] for i in range(n) if rng.random() < 0.75] or [[0, False]]})
    asks = sorted({e["at"] + d for e in events for d in rng.sample([0, 1, 1000, ttl * 100, ttl * 499, ttl * 500, ttl * 501, ttl * 800], 3)})
    return {"stream": "ingest", "simseed": rng.randint(0, 10**6), "ttl": ttl, "n": n, "events": events, "asks": asks}


def run_ingest(case, res):
    from zeroconf import DNSIncoming, DNSOutgoing, DNSQuestionType, const
    import zeroconf._services.browser as B

    sim = vsim.Sim(case["simseed"], maxdelay=0)
    obs = []
    ttl = case["ttl"]

    async def main(sim):
        host = sim.make_host("B", "10.0.0.2")
        zc = host.zc
        await zc.async_wait_for_start()
        await sim.sleep_ms(2000)
        t0 = sim.loop.ms
        last = {}     # alias index -> arrival time of its last sighting (the property's own bookkeeping)
        todo = sorted([(e["at"], 0, e) for e in case["events"]] + [(a, 1, None) for a in case["asks"]], key=lambda x: (x[0], x[1]))
        for (at, kind, e) in todo:
            if t0 + at > sim.loop.ms:
                await sim.sleep_ms(t0 + at - sim.loop.ms)
            now = sim.loop.ms
            if kind == 0:
                out = DNSOutgoing(const._FLAGS_QR_RESPONSE | const._FLAGS_AA)
                for (i, twice) in e["recs"]:
                    r = ptr(T, "Inst%d.%s" % (i, T), ttl, 0)
                    out.add_answer_at_time(r, 0)
                    if twice:
                        out.add_additional_answer(ptr(T, "Inst%d.%s" % (i, T), ttl, 0))
                    last[i] = now
                for pkt in out.packets():
                    host.inject(pkt, "10.0.0.9", 5353)
            else:
                pre_hist, pre_cache = hist_tokens(zc.question_history), cache_tokens(zc.cache)
                outs = B.generate_service_query(zc, float(now), {T}, True, DNSQuestionType.QU)
                pair = ("c13svc %d 1 %s %s 1 %s" % (now, pre_cache, pre_hist, C.hs(T)), "%s || %s" % (outs_str(outs, float(now)), hist_str(zc.question_history)), "svc")
                got = sorted((a.alias, a.ttl) for o_ in outs for p_ in o_.packets() for a in DNSIncoming(p_).answers())
                want = sorted(("Inst%d.%s" % (i, T), int((ts + 1000 * ttl - now) // 1000)) for i, ts in last.items() if now < ts + 500 * ttl)
                obs.append((at, pair, got, want, bool(outs)))
        await vsim.close_host(host)

    sim.run(main)
    bad = loop_errors(sim)
    pairs = []
    for (at, pair, got, want, asked) in obs:
        pairs.append(pair)
        if not asked:
            bad.append(("C13:qu-suppressed", "the QU question was not asked at +%d ms" % at))
        elif got != want:
            bad.append(("C13:known-answers-after-refresh", "at +%d ms the query lists known answers %s; by the datagrams received (TTL %d s, a record's life starts at its last "
                        "sighting) the records with more than half their TTL left, and their remaining TTLs, are %s" % (at, got, ttl, want)))
    sig = ("ingest", ttl, len(case["events"]), any(tw for e in case["events"] for (_, tw) in e["recs"]), len(obs))
    return pairs, bad, sig


# ------------------------------------------------------------------------------------------
# stream loop (virtual time)


def gen_loop_case(rng):
    timeout = rng.choice([200, 250, 500, 1000, 1500, 3000, 3000, 5000, 10000])
    arrive = None
    r = rng.random()
    if r < 0.35:
        arrive = {"at": rng.choice([100, 230, 300, 400, 600, 1300, rng.randint(0, timeout)]), "what": rng.choice(["srv", "srv", "srv+txt", "txt", "all"])}
    tick = rng.choice([None, None, 250, 300, 350, 400, 600]) if arrive is None else None
    case = {"stream": "loop", "simseed": rng.randint(0, 10**6), "timeout": timeout, "forced": rng.choice([None, None, None, "QU", "QM"]), "arrive": arrive,
            "tick_at": tick}
    if arrive is None and rng.random() < 0.12:
        # address records named like the instance (asked while no SRV is known), more than one packet holds: every query of the
        # real lookup goes out as a TC train
        case["many"] = {"n": rng.choice([100, 150, 250]), "ttl": rng.choice([4, 120, 4500]), "age": rng.choice([0, 1000, 1500])}
    return case


def run_loop(case, res):
    from zeroconf import DNSAddress, DNSIncoming, DNSOutgoing, DNSQuestionType, DNSService, DNSText, const
    from zeroconf.asyncio import AsyncServiceInfo
    import zeroconf._services.info as I

    sim = vsim.Sim(case["simseed"], maxdelay=0)
    log = []  # ("gen", now, qu, nquestions) / ("wait", now, timeout)
    name = "Dev." + T
    forced = {None: None, "QU": DNSQuestionType.QU, "QM": DNSQuestionType.QM}[case["forced"]]
    o = {}

    async def main(sim):
        host = sim.make_host("B", "10.0.0.2")
        zc = host.zc
        await zc.async_wait_for_start()
        await sim.sleep_ms(3000)
        if case.get("many"):
            mn = case["many"]
            o["pre"] = [DNSAddress(name, const._TYPE_A, const._CLASS_IN | const._CLASS_UNIQUE, mn["ttl"], bytes([10, 1, i // 250, i % 250]),
                                   created=float(sim.loop.ms - mn["age"])) for i in range(mn["n"])]
            zc.cache.async_add_records(o["pre"])
        info = AsyncServiceInfo(T, name)
        cls = I.ServiceInfo
        og, ow = cls._generate_request_query, cls.async_wait

        @functools.wraps(og)
        def gen(self_, zc_, now, qt):
            out = og(self_, zc_, now, qt)
            if self_ is info:
                log.append(("gen", int(now), qt is DNSQuestionType.QU, len(out.questions)))
            return out

        @functools.wraps(ow)
        async def wait(self_, timeout, loop=None):
            if self_ is info:
                log.append(("wait", sim.loop.ms, timeout))
            return await ow(self_, timeout, loop)

        cls._generate_request_query, cls.async_wait = gen, wait
        try:
            o["start"] = sim.loop.ms
            n0 = len(sim.draws)

            async def feeder():
                a = case["arrive"]
                if not a:
                    return
                await sim.sleep_ms(a["at"])
                recs = []
                if a["what"] in ("srv", "srv+txt", "all"):
                    recs.append(DNSService(name, const._TYPE_SRV, const._CLASS_IN | const._CLASS_UNIQUE, 120, 0, 0, 80, "host.local."))
                if a["what"] in ("txt", "srv+txt", "all"):
                    recs.append(DNSText(name, const._TYPE_TXT, const._CLASS_IN | const._CLASS_UNIQUE, 4500, b"\x03a=1"))
                if a["what"] == "all":
                    recs.append(DNSAddress("host.local.", const._TYPE_A, const._CLASS_IN | const._CLASS_UNIQUE, 120, b"\x0a\x00\x00\x07"))
                out = DNSOutgoing(const._FLAGS_QR_RESPONSE | const._FLAGS_AA)
                for r in recs:
                    out.add_answer_at_time(r, 0)
                zc.record_manager.async_updates_from_response(DNSIncoming(out.packets()[0], now=float(sim.loop.ms)))

            import asyncio

            async def reaper():
                if case.get("tick_at") is not None:
                    await sim.sleep_ms(case["tick_at"])
                    zc.engine._async_cache_cleanup()

            rt = asyncio.ensure_future(reaper())
            ft = asyncio.ensure_future(feeder())
            o["result"] = await info.async_request(zc, case["timeout"], question_type=forced)
            o["end"] = sim.loop.ms
            await ft
            await rt
            o["draws"] = [d[3] for d in sim.draws[n0:]]
        finally:
            cls._generate_request_query, cls.async_wait = og, ow
        await vsim.close_host(host)

    sim.run(main)
    # ---- replay the loop in the model, iteration by iteration
    fz = {None: "-", "QU": "1", "QM": "0"}[case["forced"]]
    pairs = []
    bad = loop_errors(sim)
    start = o["start"]
    draws = list(o["draws"])
    # group the log into iterations: [gen] wait
    iters = []
    cur = None
    for ev in log:
        if ev[0] == "gen":
            cur = ev
        else:
            iters.append((ev[1], cur, ev[2]))
            cur = None
    state = None  # (first, delay, next, last) as the model tracks them, computed by the driver chain below
    # the chain needs the model's own state: run it in python mirror? no -- one driver line per iteration carries the state forward
    # via a small fixed-point: we ask the driver for iteration k with the state printed by iteration k-1 (two passes)
    case["_iters"] = iters
    case["_draws"] = draws
    case["_start"] = start
    # ---- oracle on the datagrams
    queries = []
    trains = []      # one transmitted query = a TC train: the datagram with the questions and its continuations
    open_ = None
    for (t, src, ip, port, data) in sim.net.log:
        m = DNSIncoming(data)
        if not m.is_query():
            continue
        if open_ is not None and not m.questions:
            open_["msgs"].append(m)
            open_["sizes"].append(len(data))
            if not m.truncated:
                open_ = None
            continue
        if any(q.name.lower() in (name.lower(), "host.local.") for q in m.questions):
            queries.append((t + vsim.T0, [q.unique for q in m.questions], sorted((q.name, q.type) for q in m.questions)))
            trains.append({"t": t + vsim.T0, "msgs": [m], "sizes": [len(data)]})
            open_ = trains[-1] if m.truncated else None
    for tr in trains:
        tcs = [m.truncated for m in tr["msgs"]]
        if tcs != [True] * (len(tcs) - 1) + [False]:
            bad.append(("C13:tc-bits", "TC bits of the packets of the lookup query at +%d ms are %s" % (tr["t"] - o["start"], tcs)))
        if any(sz > const._MAX_MSG_TYPICAL for sz in tr["sizes"]):
            bad.append(("C13:packet-size", "lookup query packet sizes %s" % tr["sizes"]))
        if case.get("many") and any(q.name.lower() == name.lower() and q.type == const._TYPE_A for q in tr["msgs"][0].questions):
            # known answers of the A question: exactly the cached records with more than half their TTL left, each with its remaining TTL
            want = sorted((r.address, int((r.created + 1000 * r.ttl - tr["t"]) // 1000)) for r in o["pre"] if tr["t"] < r.created + 500 * r.ttl)
            got = sorted((a.address, a.ttl) for m in tr["msgs"] for a in m.answers() if a.type == const._TYPE_A and a.name.lower() == name.lower())
            if got != want:
                bad.append(("C13:lookup-known-answers", "the lookup query at +%d ms (%d packets) lists %d known A records, %d cached ones have more than half "
                            "their TTL left (first difference: %s)" % (tr["t"] - o["start"], len(tr["msgs"]), len(got), len(want), sorted(set(got) ^ set(want))[:2])))
    if queries:
        first_qu = case["forced"] != "QM"
        if any(b != first_qu for b in queries[0][1]):
            bad.append(("C13:lookup-first-query-type", "first lookup query has QU bits %s (forced %s)" % (queries[0][1], case["forced"])))
        for (t, qus, qs) in queries[1:]:
            if any(qus):
                bad.append(("C13:lookup-later-query-qu", "a later lookup query at +%d ms is QU" % (t - start)))
        def known_of(tr):
            """question -> identities of the known answers listed for it in this (possibly multi-packet) query"""
            ans = [a for m in tr["msgs"] for a in m.answers()]
            return {(q.name.lower(), q.type): frozenset(C.rec_line(a, created=0).split(" ", 7)[-1] for a in ans if a.name.lower() == q.name.lower() and a.type == q.type)
                    for q in tr["msgs"][0].questions}

        gens = [ev for ev in log if ev[0] == "gen"]
        for i in range(2, len(queries)):
            gap = queries[i][0] - queries[i - 1][0]
            if gap < 1000:
                # D13's input class, exactly (DESIGN 5 D13; `C13_lookup_spacing_partial` starts after the first QM request):
                #  * the lookup is not forced to QM (then the first request is QU and the second is the first QM one: `delay` is still
                #    200 ms when the third request is scheduled);
                #  * the early query is the third request generated, the one before it the second, and it comes 200 ms + jitter
                #    (220..320 ms) after it;
                #  * it is transmitted because it is not a duplicate: every question in it is new, or lists fewer known answers than
                #    the second query did (records arrived / went stale in between), so the history rightly does not suppress it.
                # Anything else -- another gap, a later pair, a forced-QM lookup, a mere repeat of the second query -- is a different defect.
                k_prev, k_now = known_of(trains[i - 1]), known_of(trains[i])
                not_dup = all(q not in k_prev or not (k_prev[q] <= k_now[q]) for q in k_now)
                third = (i == 2 and len(gens) > 2 and gens[1][1] == queries[1][0] and gens[2][1] == queries[2][0])
                sig = D13_SIG if (third and case["forced"] != "QM" and 220 <= gap <= 320 and not_dup) else "C13:lookup-spacing"
                bad.append((sig, "lookup queries at +%d and +%d ms: query %d is %d ms after query %d (questions %s; %s)"
                            % (queries[i - 1][0] - start, queries[i][0] - start, i + 1, gap, i, queries[i][2],
                               "none of them a duplicate of the previous query's" if not_dup else "repeating the previous query")))
    sig = ("loop", case["timeout"], case["forced"], bool(case["arrive"]) and case["arrive"]["what"], len(queries), len(iters), max([len(tr["msgs"]) for tr in trains] + [0]))
    return pairs, bad, sig


def loop_model_check(res, case, run_driver):
    """second pass for loop cases: chain c13iter lines, each using the state the model printed before"""
    iters, draws, start = case["_iters"], case["_draws"], case["_start"]
    fz = {None: "-", "QU": "1", "QM": "0"}[case["forced"]]
    st = run_driver(["c13init %d %d" % (start, case["timeout"])])[0].split()
    di = 0
    for k, (now, gen, timeout) in enumerate(iters):
        d = draws[di] if di < len(draws) else 0
        line = "c13iter %s %s %s %s %s %d %d" % (st[0], st[1], st[2], st[3], fz, now, d)
        m = run_driver([line])[0].split()
        kind = m[0]
        want = "wait" if gen is None else "ask%s" % C.b01(gen[2])
        wake = int(m[5]) if len(m) > 5 else None
        if kind != want or (kind != "timeout" and wake - now != int(round(timeout))):
            res.disagree("c13iter", {"case": {k2: v for k2, v in case.items() if not k2.startswith("_")}, "iteration": k, "line": line},
                         {"kind": want, "sleep": timeout}, " ".join(m))
            return
        if kind.startswith("ask"):
            di += 1
        st = m[1:5]


# ------------------------------------------------------------------------------------------


RUNNERS = {"svc": run_svc, "req": run_req, "hear": run_hear, "hearm": run_hearm, "ingest": run_ingest, "loop": run_loop}


def guarded(case, res):
    """run one case; fail closed: every generated case is a valid input of the library, so an exception that escapes one of the
    anchored functions is a violation with the input as replay (a defect of the harness itself looks the same and must be
    repaired -- it is never filed as a note).  -> (pairs, bad, sig), pairs = None when the case crashed"""
    try:
        return RUNNERS[case["stream"]](case, res)
    except Exception as ex:
        import traceback

        tb = traceback.extract_tb(ex.__traceback__)
        where = next(("%s:%d %s" % (f.filename.split("/")[-1], f.lineno, f.name) for f in reversed(tb) if "/zeroconf/" in f.filename), None)
        what = "%s stream: %s: %s escaped %s under a valid input" % (case.get("stream"), type(ex).__name__, str(ex)[:160],
                                                                    where or "the harness (%s:%d)" % (tb[-1].filename.split("/")[-1], tb[-1].lineno))
        return None, [("C13:exception", what)], None

D13_CASE = {"stream": "loop", "simseed": 1, "timeout": 3000, "forced": None, "arrive": {"at": 300, "what": "srv"}}


def run(ctx):
    res = C.Result("C13")
    rng = C.rng_for(ctx["seed"], "c13")
    scale = 4 if ctx["widened"] else 1
    n_svc = C.Budget(ctx["tier"], 700, 12000).n * scale
    n_big = C.Budget(ctx["tier"], 12, 150).n
    n_req = C.Budget(ctx["tier"], 500, 8000).n * scale
    n_hear = C.Budget(ctx["tier"], 80, 1000).n * scale
    n_hearm = C.Budget(ctx["tier"], 160, 2500).n * scale
    n_loop = C.Budget(ctx["tier"], 150, 2500).n * scale
    cases = [body.get("case", body) for _, body in C.load_corpus("C13")]
    cases += [gen_svc_case(rng) for _ in range(n_svc)] + [gen_svc_case(rng, big=True) for _ in range(n_big)]
    cases += [gen_req_case(rng) for _ in range(n_req)] + [gen_req_case(rng, many=rng.choice([60, 120, 150, 150, 300])) for _ in range(C.Budget(ctx["tier"], 10, 150).n)] + [gen_hear_case(rng) for _ in range(n_hear)] + [gen_hearm_case(rng) for _ in range(n_hearm)] + [gen_ingest_case(rng) for _ in range(C.Budget(ctx["tier"], 60, 1000).n * scale)] + [gen_loop_case(rng) for _ in range(n_loop)]
    res.rule = ("svc: cache of 0-400 PTRs (ages 0, half TTL -1/0/+1, expiry -1/0/+1, random; 2 types, re-cased owner names, noise records) x forced QU/QM/none "
                "x multicast/unicast x an earlier asker (same instance with the same/smaller/larger cache, or a question heard as responder) at gaps "
                "{0,1,500,998,999,1000,1001,5000}; req: lookup request queries over SRV/TXT/A/AAAA ages; hear: real host hears a question from the link; "
                "loop: async_request with timeouts 200 ms-10 s, forced types, records arriving mid-lookup. non-trivial = distinct signature "
                "(stream, question type, earlier-asker mode and gap class, cache size class, packets, arrival kind, number of queries)")
    lines, checks = [], []
    seen = set()
    loops = []
    for case in cases:
        pairs, bad, sig = guarded(case, res)
        if pairs is None:
            res.count("crashed")
            if "C13:exception" not in seen or res.dist["crashed"] <= 5:
                seen.add("C13:exception")
                res.violate("C13:exception", bad[0][1], {k: v for k, v in case.items() if not k.startswith("_")})
            continue
        res.evaluations += 1
        res.count(case["stream"])
        res.nontriv(str(sig))
        if len(res.samples) < 4 and case["stream"] not in [s.get("stream") for s in res.samples]:
            res.sample({k: v for k, v in case.items() if not k.startswith("_") and k != "recs"} | ({"nrecs": len(case["recs"])} if "recs" in case else {}))
        for p in pairs:
            lines.append(p[0])
            checks.append((case, p))
        if case["stream"] == "loop":
            loops.append(case)
        for s, what in bad:
            if s in seen:
                res.count("violations")
                continue
            seen.add(s)
            res.violate(s, what, {k: v for k, v in case.items() if not k.startswith("_")})
    if ctx["driver_ok"]:
        try:
            model = C.run_driver(lines)
            for (case, p), m in zip(checks, model):
                if m != p[1]:
                    res.disagree("c13" + (p[2] if len(p) > 2 else case["stream"]), {k: v for k, v in case.items() if not k.startswith("_")}, p[1][:600], m[:600])
            for case in loops:
                loop_model_check(res, case, C.run_driver)
        except C.DriverUnavailable as ex:
            res.notes.append("driver unavailable: %s" % ex)
    return res


def replay(body):
    case = dict(body.get("case", body))
    res = C.Result("C13")
    pairs, bad, sig = guarded(case, res)
    out = {"oracle": bad, "violates": bool(bad)}
    if pairs is None:
        return out
    try:
        model = C.run_driver([p[0] for p in pairs])
        out["model_agrees"] = all(m == p[1] for m, p in zip(model, pairs))
        if case["stream"] == "loop":
            loop_model_check(res, case, C.run_driver)
            out["model_agrees"] = out["model_agrees"] and not res.disagreements
    except C.DriverUnavailable as ex:
        out["model"] = "unavailable: %s" % ex
    return out
