"""Deterministic virtual-time simulator for real zeroconf instances (DESIGN §3.2).

No source hooks: everything is monkey-patching from here.  Integer-millisecond clock,
fake sockets/transports, a `Net` that delivers datagrams (multicast loops back to the
sender, as IP multicast does), seeded `randint`, optional atomic-block log.

    sim = Sim(seed)
    result = sim.run(main)          # async def main(sim): ...
    sim.errors                      # loop exception-handler contexts
    sim.net.log                     # (t_ms, src_name, dst_ip, dst_port, bytes)
    sim.events                      # block log when log_blocks=True

Times are milliseconds since the start of the simulation (`sim.now()`); the virtual
clock itself starts at 1 000 000 ms so that 0 never occurs (python truthiness traps).
"""
from __future__ import annotations

import asyncio
import functools
import heapq
import random
import socket
import sys
from asyncio import tasks as _tasks
from unittest import mock

from . import common  # noqa: F401  (sets sys.path for zeroconf)

T0 = 1_000_000
MDNS_ADDR = "224.0.0.251"


class VLoop(asyncio.SelectorEventLoop):
    def __init__(self):
        super().__init__()
        self.ms = T0
        # optional timer lateness (the default, 0, is the exact loop the models assume: a timer callback runs at its due millisecond).
        # With max_late = n > 0 the clock, when it jumps to the next due timer, overshoots by a seeded 0..n ms -- as a loaded
        # asyncio loop does; everything due by then runs in that iteration, in due order.  Timers never run early.
        self.max_late = 0
        self.late_rng = None

    def time(self):
        return self.ms / 1000.0

    def now_ms(self):
        return float(self.ms)

    def call_at(self, when, callback, *args, context=None):
        q = round(when * 1000)
        if q < self.ms:
            q = self.ms
        return super().call_at(q / 1000.0, callback, *args, context=context)

    def _run_once(self):
        sched = self._scheduled
        while sched and sched[0]._cancelled:
            h = heapq.heappop(sched)
            h._scheduled = False
            self._timer_cancelled_count = max(0, self._timer_cancelled_count - 1)
        if not self._ready and sched:
            w = round(sched[0]._when * 1000)
            if w > self.ms:
                self.ms = w + (self.late_rng.randint(0, self.max_late) if self.max_late and self.late_rng is not None else 0)
        super()._run_once()


class FakeSock:
    def __init__(self, fileno, addr):
        self.family = socket.AF_INET
        self._f = fileno
        self._a = addr

    def fileno(self):
        return self._f

    def getsockname(self):
        return self._a

    def close(self):
        pass


class FakeTransport(asyncio.DatagramTransport):
    def __init__(self, host, sock, protocol):
        super().__init__()
        self.host = host
        self.sock = sock
        self.protocol = protocol
        self.closed = False
        self.aborted = False

    def get_extra_info(self, name, default=None):
        return self.sock if name == "socket" else default

    def sendto(self, data, addr=None):
        if not self.closed:
            self.host.sim.net.send(self.host, bytes(data), addr)
        else:
            self.host.sim.sends_after_close.append((self.host.sim.now(), self.host.name, bytes(data), addr))

    def close(self):
        # as asyncio's datagram transport does: the first close() schedules protocol.connection_lost(None)
        if not self.closed:
            self.closed = True
            loop = self.host.sim.loop
            if loop is not None and not loop.is_closed():
                loop.call_soon(self.protocol.connection_lost, None)

    def abort(self):
        # asyncio: close at once, discarding whatever is still buffered
        self.aborted = True
        self.close()

    def is_closing(self):
        return self.closed


class Net:
    """The link.  `delay(src, dst, n)` -> ms or None (drop); default: seeded 0..maxdelay."""

    def __init__(self, sim, maxdelay=20, loopback=True):
        self.sim = sim
        self.hosts = []
        self.log = []
        self.maxdelay = maxdelay
        self.loopback = loopback
        self.drop_index = None
        self.dup_indices = set()
        self.n = 0
        self.on_send = None

    def send(self, src, data, addr):
        t = self.sim.now()
        self.log.append((t, src.name, addr[0], addr[1], data))
        self.sim.out_event({"send": src.name, "to": [addr[0], addr[1]], "data": data.hex()})
        if self.on_send is not None:
            self.on_send(t, src, data, addr)
        for h in self.hosts:
            if addr[0] == MDNS_ADDR or h.ip == addr[0]:
                if h is src and not self.loopback:
                    continue
                i = self.n
                self.n += 1
                if i == self.drop_index:
                    continue
                d = self.sim.net_rng.randint(0, self.maxdelay)
                self.sim.loop.call_later(d / 1000.0, h.deliver, data, (src.ip, src.port))
                if i in self.dup_indices:
                    d2 = self.sim.net_rng.randint(0, self.maxdelay)
                    self.sim.loop.call_later(d2 / 1000.0, h.deliver, data, (src.ip, src.port))


class Host:
    def __init__(self, sim, name, ip):
        self.sim = sim
        self.name = name
        self.ip = ip
        self.port = 5353
        self.zc = None
        self.transport = None     # the respond (sending) socket's transport
        self.ltransport = None    # the dedicated listen socket's transport, when the host has one
        self.transports = []
        self.sock = None
        self.lsock = None
        sim.net.hosts.append(self)

    def deliver(self, data, src):
        """hand a datagram to the instance's listener, as the selector would: on the dedicated listen
        socket when the host has one (the default, non-unicast configuration), else on the respond socket"""
        t = self.ltransport if self.ltransport is not None else self.transport
        if t is None or t.closed:
            return
        t.protocol.datagram_received(data, src)

    def inject(self, data, src_ip="10.9.9.9", src_port=5353):
        self.deliver(bytes(data), (src_ip, src_port))


_sock_host = {}


async def _cde(self, protocol_factory, sock=None, **kw):
    host = _sock_host[id(sock)]
    proto = protocol_factory()
    tr = FakeTransport(host, sock, proto)
    if sock is host.lsock:
        host.ltransport = tr
    else:
        host.transport = tr
    if tr not in host.transports:  # (subclasses may collect transports in the `transport` setter)
        host.transports.append(tr)
    proto.connection_made(tr)
    return tr, proto


VLoop.create_datagram_endpoint = _cde


def _time_modules():
    mods = []
    for m in list(sys.modules.values()):
        if m and getattr(m, "__name__", "").startswith("zeroconf") and hasattr(m, "current_time_millis"):
            mods.append(m)
    return mods


BLOCK_METHODS = [
    ("zeroconf._handlers.multicast_outgoing_queue", "MulticastOutgoingQueue", "async_ready", "outq.ready"),
    ("zeroconf._services.browser", "QueryScheduler", "_process_startup_queries", "sched.startup"),
    ("zeroconf._services.browser", "QueryScheduler", "_process_ready_types", "sched.ready"),
    ("zeroconf._engine", "AsyncEngine", "_async_cache_cleanup", "cleanup"),
    ("zeroconf._listener", "AsyncListener", "_respond_query", "tc.respond"),
]
INTERESTING = ("async_check_service", "_async_broadcast_service", "_async_send_repeatedly", "async_request", "async_unregister_all_services",
               "async_close", "async_register_service", "async_unregister_service", "async_update_service",
               "_async_start_query_sender", "_async_setup", "_async_close")


class Sim:
    def __init__(self, seed=0, maxdelay=20, loopback=True, log_blocks=False, max_late=0):
        self.seed = seed
        self.max_late = max_late
        self.rng = random.Random("lib/%s" % seed)  # the library's own jitter
        self.net_rng = random.Random("net/%s" % seed)
        self.sc_rng = random.Random("scenario/%s" % seed)
        self.loop = None
        self.net = Net(self, maxdelay=maxdelay, loopback=loopback)
        self.errors = []
        self.events = []
        self.draws = []
        self.sends_after_close = []
        self.log_blocks = log_blocks
        self._cur = None
        self._obj = {}
        self.forced_draws = None  # optional iterator overriding randint results (clamped)

    # ---- time
    def now(self):
        return self.loop.ms - T0

    async def sleep_ms(self, ms):
        await asyncio.sleep(ms / 1000.0)

    async def sleep_until(self, t_ms):
        d = t_ms - self.now()
        if d > 0:
            await asyncio.sleep(d / 1000.0)

    # ---- block log
    def oid(self, o):
        return self._obj.setdefault(id(o), len(self._obj))

    def out_event(self, ev):
        if not self.log_blocks:
            return
        if self._cur is None:
            self.events.append({"t": self.now(), "kind": "ORPHAN", "out": [ev]})
        else:
            self._cur["out"].append(ev)

    def block(self, kind, obj=None, **kw):
        sim = self

        class _B:
            def __enter__(s):
                s.prev = sim._cur
                if s.prev is None:
                    sim._cur = dict(t=sim.now(), kind=kind, obj=obj, out=[], draws=[], **kw)
                    sim.events.append(sim._cur)
                return s

            def __exit__(s, *a):
                if s.prev is None:
                    sim._cur = None

        return _B()

    def randint(self, lo, hi):
        if self.forced_draws is not None:
            try:
                v = next(self.forced_draws)
                v = min(hi, max(lo, v))
            except StopIteration:
                v = self.rng.randint(lo, hi)
        else:
            v = self.rng.randint(lo, hi)
        self.draws.append((self.now() if self.loop else None, lo, hi, v))
        if self.log_blocks and self._cur is not None:
            self._cur["draws"].append([lo, hi, v])
        return v

    # ---- hosts
    def make_host(self, name, ip, listen_socket=False, **zc_kwargs):
        """listen_socket=True gives the host a dedicated listen socket besides its respond socket, as
        `create_sockets` does unless unicast=True (readers = [listen, respond], senders = [respond])"""
        from zeroconf import Zeroconf
        import zeroconf._core as core

        host = Host(self, name, ip)
        sock = FakeSock(10 + 2 * len(self.net.hosts), (ip, 5353))
        _sock_host[id(sock)] = host
        host.sock = sock
        lsock = None
        if listen_socket:
            lsock = FakeSock(11 + 2 * len(self.net.hosts), ("0.0.0.0", 5353))
            _sock_host[id(lsock)] = host
            host.lsock = lsock
        with mock.patch.object(core, "create_sockets", lambda *a, **k: (lsock, [sock])):
            zc = Zeroconf(interfaces=[ip], **zc_kwargs)
        host.zc = zc
        return host

    # ---- run
    def run(self, main):
        import importlib

        import zeroconf.asyncio  # noqa: F401  ensure all modules are loaded
        import zeroconf._handlers.multicast_outgoing_queue as mq
        import zeroconf._services.info as inf

        loop = VLoop()
        loop.max_late = self.max_late
        loop.late_rng = random.Random("late/%s" % self.seed)
        self.loop = loop
        asyncio.set_event_loop(loop)
        patches = [mock.patch("time.monotonic", loop.time), mock.patch("random.randint", self.randint),
                   mock.patch.object(mq, "RAND_INT", self.randint), mock.patch.object(inf, "randint", self.randint)]
        for m in _time_modules():
            patches.append(mock.patch.object(m, "current_time_millis", loop.now_ms))
        for p in patches:
            p.start()
        loop.set_exception_handler(lambda l, ctx: self.errors.append(ctx))
        saved = []
        if self.log_blocks:
            sim = self
            for modname, clsname, meth, kind in BLOCK_METHODS:
                cls = getattr(importlib.import_module(modname), clsname)
                orig = getattr(cls, meth)

                def mk(orig, kind):
                    @functools.wraps(orig)
                    def w(self_, *a, **k):
                        with sim.block(kind, sim.oid(self_)):
                            return orig(self_, *a, **k)
                    return w

                setattr(cls, meth, mk(orig, kind))
                saved.append((cls, meth, orig))
            import zeroconf._listener as lst

            o = lst.AsyncListener.datagram_received

            def dr(self_, data, addrs):
                with sim.block("recv", sim.oid(self_.zc), src=list(addrs[:2]), data=bytes(data).hex()):
                    return o(self_, data, addrs)

            lst.AsyncListener.datagram_received = dr
            saved.append((lst.AsyncListener, "datagram_received", o))

            class LTask(_tasks._PyTask):
                def _Task__step(self_, exc=None):
                    q = self_.get_coro().__qualname__
                    name = q.split(".")[-1]
                    if name in INTERESTING or "scenario" in q or "main" in q:
                        with sim.block("step:" + name, sim.oid(self_)):
                            return super()._Task__step(exc)
                    return super()._Task__step(exc)

            loop.set_task_factory(lambda loop, coro, **kw: LTask(coro, loop=loop, **kw))
        try:
            return loop.run_until_complete(main(self))
        finally:
            for cls, meth, orig in saved:
                setattr(cls, meth, orig)
            for p in patches:
                p.stop()
            try:
                loop.close()
            except Exception:
                pass
            asyncio.set_event_loop(None)
            _sock_host.clear()


async def close_host(host):
    """AsyncZeroconf.async_close on a host created by make_host"""
    from zeroconf.asyncio import AsyncZeroconf

    await AsyncZeroconf(zc=host.zc).async_close()
