"""C11 -- routing and format of replies (RFC 6762 §5.4, §6, §6.7).

Streams against the Lean model (lean/Zc/Model/Reply.lean):
  fmt   header id / flags / class field written by the real `DNSOutgoing` for every record kind,
        multicast and unicast, several ids                                              (`c11fmt`)
  send  `can_send_to` on socket family x address spelling                                (`c11send`)
  tr    trace acceptance of a real `Zeroconf` responder (socket layouts 4, 46, 64, 44, 446; any of them receiving) under the virtual-time simulator: every datagram of every block predicted by
        `Host.step` (destination, id, question echo, answer and additional sets)         (`c12run`)
and the property's sentences evaluated on every datagram the implementation emitted (stage O)."""
from __future__ import annotations

import socket
from unittest import mock

from . import common as C
from . import reply_common as R
from . import vsim
from . import wiregen as W

TRACE = True
TRUSTED = [
    "C12/C11: what the registry answers to a question (`_get_answer_strategies`, `_answer_question`) is an input of the model "
    "(taken from the real functions with an empty known-answer set; C03's subject), as is the cache entry of each record at assembly time",
    "wire encoding of names and rdata is C01's subject: C11 decodes the emitted datagrams with the library's own `DNSIncoming` and, for the "
    "header id/flags and the class field, reads the raw bytes",
    "sockets are simulated (one to three transports of either family per host); OS-level routing of the datagram is not exercised: that a query "
    "arrives on a socket of its source address's family is the hypothesis `World.SameFamily` of the socket-level theorems",
]
ASSUMPTIONS = ["integer-millisecond clock",
               "a querier is a source sockaddr (address AND port): the two behaviours of the unchanged tree that contradict this reading are reported as known findings "
               "(D35: identical bytes from another source within 1 s are dropped; D36: a held truncated packet and a plain query from two ports of one address are merged)",
               "the registry is never empty while queries arrive (`registry.has_entries`, tested before the deferral of a truncated packet, is outside the Reply model)",
               "1..12 questions per query; the receiving socket is one of `engine.senders` (no separate listen socket); queries arrive at least 1.2 s after registration",
               "replies of any size: the datagrams of one `async_send` call are taken together at the logical level, judged one by one by the oracle and compared byte for "
               "byte with the model's encoder output (10..40 services: replies of 2..8 datagrams)",
               "one flowinfo/scope id per link-local peer address within a scenario (two peers with the same address text on different scopes are not generated)",
               "UDP source port 0 is not generated: `async_send_with_transport` sends to `port or 5353`, so a legacy query from port 0 would be "
               "answered to port 5353; port 0 is not a usable source port (RFC 768: 'no reply expected'), the model answers to `port`", "queries are delivered on one socket of the host per scenario (each socket has its own listener object)"]

T0 = vsim.T0
MDNS6 = "ff02::fb"


class _Result(C.Result):
    def violate(self, sig, what, case):
        n = self.dist.get("sig:" + sig, 0)
        self.dist["sig:" + sig] = n + 1
        if n < 3:
            super().violate(sig, what, case)


# ------------------------------------------------------------------------------------------
# fmt / send


def raw_classes(data):
    """(id, flags, qd, [class field of every record]) read from the raw bytes"""
    from zeroconf._protocol.incoming import DNSIncoming

    m = DNSIncoming(data)
    ident = (data[0] << 8) | data[1]
    flags = (data[2] << 8) | data[3]
    qd = (data[4] << 8) | data[5]
    return ident, flags, qd, [(r.class_ | (0x8000 if r.unique else 0)) for r in m.answers()], m


def run_fmt_stream(ctx, res):
    from zeroconf import DNSOutgoing, const as k
    from zeroconf import _dns as d

    recs = []
    for cls in (k._CLASS_IN, k._CLASS_IN | k._CLASS_UNIQUE, k._CLASS_ANY | k._CLASS_UNIQUE, k._CLASS_CS):
        recs += [d.DNSPointer("_a._tcp.local.", k._TYPE_PTR, cls, 4500, "s._a._tcp.local."),
                 d.DNSService("s._a._tcp.local.", k._TYPE_SRV, cls, 120, 0, 0, 80, "h.local."),
                 d.DNSText("s._a._tcp.local.", k._TYPE_TXT, cls, 4500, b"\x03a=1"),
                 d.DNSAddress("h.local.", k._TYPE_A, cls, 120, b"\x0a\x00\x00\x01"),
                 d.DNSAddress("h.local.", k._TYPE_AAAA, cls, 120, b"\xfe\x80" + b"\x00" * 13 + b"\x01"),
                 d.DNSNsec("h.local.", k._TYPE_NSEC, cls, 120, "h.local.", [k._TYPE_AAAA])]
    lines, exp, cases = [], [], []
    for multicast in (True, False):
        for ident in (0, 1, 0xABCD, 65535):
            for r in recs:
                out = DNSOutgoing(k._FLAGS_QR_RESPONSE | k._FLAGS_AA, multicast, ident)
                out.add_answer_at_time(r, 0)
                data = out.packets()[0]
                wid, flags, qd, classes, _m = raw_classes(data)
                lines.append("c11fmt %s %d %d %s" % (C.b01(multicast), ident, r.class_, C.b01(r.unique)))
                exp.append("%d %d %d" % (wid, flags, classes[0]))
                cases.append(dict(stream="fmt", multicast=multicast, id=ident, rec=C.rec_line(r)))
                # O: the property's sentence on this datagram
                if multicast and (wid != 0 or flags != 0x8400 or qd != 0 or (classes[0] >= 0x8000) != r.unique):
                    res.violate("C11:multicast-format", "multicast reply with id %d flags %#x qd %d class %#x" % (wid, flags, qd, classes[0]), cases[-1])
                if not multicast and (wid != ident or classes[0] >= 0x8000):
                    res.violate("C11:unicast-format", "unicast reply with id %d (query %d) class %#x" % (wid, ident, classes[0]), cases[-1])
    # the two reply constructors themselves (ids on the boundary: a legacy resolver may well use id 0)
    from zeroconf import DNSQuestion
    from zeroconf._handlers.answers import construct_outgoing_multicast_answers, construct_outgoing_unicast_answers

    q = DNSQuestion("s._a._tcp.local.", k._TYPE_ANY, k._CLASS_IN)
    for unicast in (True, False):
        for us in (True, False):
            for ident in (0, 1, 2, 0x8000, 0xFFFE, 0xFFFF, 0x1234):
                for r in recs:
                    out = construct_outgoing_unicast_answers({r: set()}, us, [q], ident) if unicast else construct_outgoing_multicast_answers({r: set()})
                    data = out.packets()[0]
                    wid, flags, qd, classes, _m = raw_classes(data)
                    lines.append("c11reply %s %s %d %d %s" % (C.b01(unicast), C.b01(us), ident, r.class_, C.b01(r.unique)))
                    exp.append("%d %d %d" % (wid, flags, classes[0]))
                    cases.append(dict(stream="fmt", constructor="unicast" if unicast else "multicast", multicast=not unicast, ucast_source=us, id=ident, rec=C.rec_line(r)))
                    # ... and the constructor's whole datagram, byte for byte, through C01's encoder model (`c11bytes`)
                    lines.append(bytes_line(unicast, us, ident, [(q.name, q.type, q.class_, q.unique)], [r], []))
                    exp.append("ok " + C.hx(data))
                    cases.append(dict(stream="fmt", constructor="unicast" if unicast else "multicast", multicast=not unicast, ucast_source=us, id=ident,
                                      rec=C.rec_line(r), bytes=True))
                    if unicast and (wid != ident or flags != 0x8400 or classes[0] >= 0x8000 or qd != (1 if us else 0)):
                        res.violate("C11:unicast-format", "construct_outgoing_unicast_answers(id %d, ucast_source %s): id %d flags %#x questions %d class %#x" % (
                            ident, us, wid, flags, qd, classes[0]), cases[-1])
                    if not unicast and (wid != 0 or flags != 0x8400 or qd != 0 or (classes[0] >= 0x8000) != r.unique):
                        res.violate("C11:multicast-format", "construct_outgoing_multicast_answers: id %d flags %#x qd %d class %#x" % (wid, flags, qd, classes[0]), cases[-1])
    # a reply too large for one datagram: 40 services' worth of TXT (300 bytes each) + SRV as additionals; every datagram of the split
    # is judged (id, flags, question section only where the echo puts it, flush bits) and compared byte for byte with the model
    big = []
    for i in range(40):
        nm = "svc%02d._a._tcp.local." % i
        big.append((d.DNSText(nm, k._TYPE_TXT, k._CLASS_IN | k._CLASS_UNIQUE, 4500, bytes([255]) + bytes([97 + i % 26]) * 255 + b"\x2b" + b"x" * 43),
                    d.DNSService(nm, k._TYPE_SRV, k._CLASS_IN | k._CLASS_UNIQUE, 120, 0, 0, 8000 + i, "h%02d.local." % i)))
    big.append((d.DNSPointer("_a._tcp.local.", k._TYPE_PTR, k._CLASS_IN, 4500, "svc00._a._tcp.local."), None))
    answers = {a: ({b} if b is not None else set()) for a, b in big}
    for unicast in (True, False):
        ident = 0x4242
        out = construct_outgoing_unicast_answers(answers, True, [q], ident) if unicast else construct_outgoing_multicast_answers(answers)
        pk = out.packets()
        lines.append(bytes_line(unicast, True, ident, [(q.name, q.type, q.class_, q.unique)], [a for a, _n in out.answers], list(out.additionals)))
        exp.append("ok " + " ".join(C.hx(x) for x in pk))
        cases.append(dict(stream="fmt", constructor="unicast" if unicast else "multicast", multicast=not unicast, ucast_source=True, id=ident,
                          rec="%d answers" % len(answers), bytes=True, datagrams=len(pk)))
        res.count("fmt:split-reply-datagrams", len(pk))
        nq = 0
        for x in pk:
            wid, flags, qd, classes, m_ = raw_classes(x)
            nq += qd
            types = [r.type for r in m_.answers()]
            if unicast and (wid != ident or flags != 0x8400 or any(c >= 0x8000 for c in classes)):
                res.violate("C11:unicast-format", "a datagram of a split unicast reply has id %d flags %#x classes %s" % (wid, flags, classes[:4]), cases[-1])
            if not unicast and (wid != 0 or flags != 0x8400 or qd != 0 or any((c >= 0x8000) != (t != k._TYPE_PTR) for c, t in zip(classes, types))):
                res.violate("C11:multicast-format", "a datagram of a split multicast reply has id %d flags %#x qd %d" % (wid, flags, qd), cases[-1])
        if unicast and nq != 1:
            res.violate("C11:question-echo", "a split unicast reply to a legacy source echoes %d questions in total, the query had 1" % nq, cases[-1])
    model = None
    if ctx["driver_ok"]:
        try:
            model = C.run_driver(lines)
        except C.DriverUnavailable as ex:
            res.notes.append("driver unavailable: %s" % ex)
    for i, case in enumerate(cases):
        res.evaluations += 1
        if not case.get("bytes"):
            res.nontriv("fmt/%s/%s" % (case["multicast"], exp[i].split()[2]))
        if model is not None and model[i] != exp[i]:
            res.disagree("c11fmt", case, exp[i], model[i])


def run_send_stream(ctx, res):
    from zeroconf._utils.net import can_send_to

    lines, exp, cases = [], [], []
    for v6 in (False, True):
        for addr in ("10.0.0.9", "224.0.0.251", "fe80::1", "::1", "ff02::fb", "::ffff:10.0.0.1"):
            lines.append("c11send %s %s" % (C.b01(v6), C.b01(":" in addr)))
            exp.append(C.b01(can_send_to(v6, addr)))
            cases.append(dict(stream="send", ipv6_socket=v6, address=addr))
            if can_send_to(v6, addr) != (v6 == (":" in addr)):
                res.violate("C11:family", "can_send_to(%s, %s) mixes address families" % (v6, addr), cases[-1])
    model = None
    if ctx["driver_ok"]:
        try:
            model = C.run_driver(lines)
        except C.DriverUnavailable as ex:
            res.notes.append("driver unavailable: %s" % ex)
    for i, case in enumerate(cases):
        res.evaluations += 1
        if model is not None and model[i] != exp[i]:
            res.disagree("c11send", case, exp[i], model[i])


# ------------------------------------------------------------------------------------------
# tr


class Sock6(vsim.FakeSock):
    def __init__(self, fileno, addr):
        super().__init__(fileno, addr)
        self.family = socket.AF_INET6


class Host2(vsim.Host):
    """a host with several sockets: `vsim` keeps every transport in `self.transports` (creation order = socket order)"""

    @property
    def transport(self):
        # what `vsim.Net` loops the IPv4 group back to: an IPv4 socket of the host if it has one (an IPv6 socket does not hear
        # 224.0.0.251; its own loop-back is `V6Loopback`), else the first socket
        ts = getattr(self, "transports", None)
        if not ts:
            return None
        return next((t for t in ts if not isinstance(t.sock, Sock6)), ts[0])

    @transport.setter
    def transport(self, tr):
        pass


def make_host(sim, layout):
    """layout: one character per socket, '4' = IPv4, '6' = IPv6 (e.g. "44" = two IPv4 interfaces)"""
    from zeroconf import Zeroconf
    import zeroconf._core as core

    host = Host2(sim, "A", "10.0.0.1")
    socks = []
    for i, fam in enumerate(layout):
        if fam == "4":
            socks.append(vsim.FakeSock(10 + i, ("10.0.%d.1" % i, 5353)))
        else:
            socks.append(Sock6(10 + i, ("fe80::%d" % (i + 1), 5353, 2 * i, 3 + i)))  # flowinfo 0/2/4, scope id 3/4/5
    for s in socks:
        vsim._sock_host[id(s)] = host
    with mock.patch.object(core, "create_sockets", lambda *a, **k: (None, socks)):
        zc = Zeroconf(interfaces=["10.0.0.1"])
    host.zc = zc
    host.socks = socks
    return host


def plant(zc, e):
    """a scenario sets "when the host last saw this record multicast": the cache entry, and with it every copy of the same record that
    was heard on an IPv6 socket (same record on the wire, stored with that socket's scope id) -- a real multicast refreshes them together"""
    from zeroconf import _dns as d

    recs = [e]
    store = zc.cache.cache.get(e.key)
    if store is not None and isinstance(e, d.DNSAddress):
        for x in list(store):
            if isinstance(x, d.DNSAddress) and x.type == e.type and x.class_ == e.class_ and x.address == e.address and x.scope_id != e.scope_id:
                recs.append(d.DNSAddress(e.name, e.type, e.class_ | (0x8000 if e.unique else 0), e.ttl, e.address, scope_id=x.scope_id, created=e.created))
    zc.cache.async_add_records(recs)
    return recs


class V6Loopback:
    """IP_MULTICAST_LOOP for the IPv6 sockets of the simulated host (`vsim.Net` loops back the IPv4 group only): a datagram the host
    sends to ff02::fb on an IPv6 socket is heard on that socket, from the socket's own link-local address -- the 4-tuple sockaddr with
    the interface's scope id, which the listener stamps on every AAAA record it parses (finding D29: the host then holds its own AAAA
    records with a scope id and looks them up without one)."""

    def __init__(self, sim, host):
        self.sim, self.host = sim, host
        self.orig = vsim.FakeTransport.sendto
        me = self

        def sendto(self_, data, addr=None):
            r = me.orig(self_, data, addr)
            if self_.host is host and addr is not None and addr[0] == MDNS6 and not self_.closed and isinstance(self_.sock, Sock6):
                name = self_.sock.getsockname()
                sim.loop.call_later(0, self_.protocol.datagram_received, bytes(data), (name[0], 5353, name[2], name[3]))
            return r

        vsim.FakeTransport.sendto = sendto

    def remove(self):
        vsim.FakeTransport.sendto = self.orig


MODES = ["classic"] * 10 + ["big"] * 3 + ["twin"] * 2 + ["ports"] * 2 + ["update"] * 2 + ["unregister"] * 2 + ["v6own"] * 1 + ["retrans"] * 2 + ["many"] * 2


def make_big_infos(xr):
    """10..40 services of one type: the answer to a PTR / ANY / enumeration question does not fit one datagram"""
    from zeroconf import ServiceInfo

    n = xr.choice([10, 16, 24, 40])
    t = "_a._tcp.local."
    infos = []
    for i in range(n):
        addrs = [socket.inet_aton("10.0.%d.%d" % (i // 200, i % 200 + 1))]
        if i % 3 == 0:
            addrs.append(socket.inet_pton(socket.AF_INET6, "fe80::%x" % (i + 1)))
        infos.append(ServiceInfo(t, "Printer-%02d-%s.%s" % (i, "x" * (i % 7), t), 8000 + i, addresses=addrs, server="host%02d.local." % (i // 2),
                                 properties={"path": "/%d" % i, "note": "n" * (10 + i % 30)},
                                 host_ttl=xr.choice([120, 120, 8]), other_ttl=xr.choice([4500, 4500, 5])))
    return infos


def make_registry_infos(xr, mode):
    """update: exactly one service; unregister: two or three services of one type (own hosts, or one shared host)"""
    from zeroconf import ServiceInfo

    n = 1 if mode in ("update", "v6own") else xr.choice([2, 2, 3])
    share = xr.random() < 0.4
    infos = []
    for i in range(n):
        addrs = [socket.inet_aton("10.0.0.%d" % (i + 1))]
        if mode == "v6own" or xr.random() < 0.5:
            addrs.append(socket.inet_pton(socket.AF_INET6, "fe80::%d" % (i + 1)))
        infos.append(ServiceInfo("_a._tcp.local.", "Inst%d._a._tcp.local." % i, 8000 + i, addresses=addrs,
                                 server="hostS.local." if share else "host%d.local." % i, properties={"k": "v%d" % i},
                                 host_ttl=xr.choice([120, 120, 8]), other_ttl=xr.choice([4500, 4500, 5])))
    return infos


async def registry_family(sim, xr, box, zc, tr, uni, infos, deliver, peer):
    """wave-4 seeds: queries around registry changes.  `update`: the only service was updated before the trace -- legacy, QU, QM and
    probe queries must all be answered.  `unregister`: a query for the type is answered (unicast at once, pointer records queued for
    multicast); a sibling is unregistered while they wait -- the remaining instance's answer must still go out."""
    from zeroconf import DNSOutgoing, DNSQuestion, const as _k

    def query(questions, port, ident, probe=False):
        out = DNSOutgoing(_k._FLAGS_QR_QUERY)
        for (name, typ, qu) in questions:
            q = DNSQuestion(name, typ, _k._CLASS_IN)
            q.unicast = qu
            out.add_question(q)
        if probe:
            out.add_authorative_answer(infos[0].dns_pointer())
        d = bytearray(out.packets()[0])
        d[0], d[1] = ident >> 8, ident & 255
        return bytes(d)

    inf = infos[0]
    if box["mode"] == "update":
        shapes = [([(inf.type, _k._TYPE_PTR, False)], 40000), ([(inf.name, _k._TYPE_SRV, True)], 5353), ([(inf.name, _k._TYPE_TXT, False)], 5353),
                  ([(inf.server, _k._TYPE_A, False)], 65535), ([(inf.name, _k._TYPE_ANY, True), (inf.type, _k._TYPE_PTR, False)], 5353)]
        for k_ in range(xr.choice([2, 3, 4])):
            qs, port = xr.choice(shapes)
            deliver(query(qs, port, xr.choice([0, 1, 0x1234]) + k_, probe=xr.random() < 0.2), peer(xr.choice(["10.0.0.9", "10.0.0.8"]), "fe80::9", port), family="update")
            await sim.sleep_ms(xr.choice([0, 1, 130, 1001, 2500]))
        return
    # unregister
    port = xr.choice([5353, 5353, 40000, 5354])
    if xr.random() < 0.4:
        # seen less than a second ago: the pointer records go to the protected queue (1 .. 1.2 s)
        for i_ in infos:
            e = R.with_ttl(i_.dns_pointer(), int(i_.other_ttl))
            e.created = float(sim.loop.ms - xr.choice([0, 500, 999]))
            plant(zc, e)
            tr.pokes.append((sim.loop.ms, uni.id(i_.dns_pointer())))
    deliver(query([(inf.type, _k._TYPE_PTR, False)], port, 0 if port == 5353 else 0x4242), peer("10.0.0.9", "fe80::9", port), family="unregister")
    await sim.sleep_ms(xr.choice([1, 5, 15]))
    gone = infos[-1]
    withdrawn = [gone.dns_pointer(), gone.dns_service(), gone.dns_text()]
    if not [i_ for i_ in infos[:-1] if i_.server_key == gone.server_key]:
        withdrawn += list(gone._get_address_and_nsec_records(None))
    box["withdrawn"] = {uni.id(r) for r in withdrawn}
    box["withdrawn_at"] = sim.loop.ms
    t = await zc.async_unregister_service(gone)
    await sim.sleep_ms(xr.choice([1500, 2500]))
    # afterwards the remaining instances still answer
    deliver(query([(inf.type, _k._TYPE_PTR, False), (inf.name, _k._TYPE_SRV, xr.random() < 0.5)], port, 7), peer("10.0.0.8", "fe80::8", port), family="unregister")
    await t


def run_scenario(seed, sc_no, mode=None):
    sim = vsim.Sim(seed="c11/%s/%s" % (seed, sc_no), maxdelay=0)
    rng = C.rng_for(seed, "c11", "tr", sc_no)
    jrng = C.rng_for(seed, "c11", "jitter", sc_no)
    xr = C.rng_for(seed, "c11", "mode", sc_no)     # the scenario families added after the second review draw from their own stream
    mode = mode or xr.choice(MODES)

    def biased(lo, hi):
        x = jrng.random()
        v = lo if x < 0.2 else hi if x < 0.4 else jrng.randint(lo, hi)
        sim.draws.append((sim.now() if sim.loop else None, lo, hi, v))
        return v

    sim.randint = biased
    box = {"mode": mode}

    async def main(sim):
        layout = rng.choice(["4", "4", "46", "44", "446", "64"])
        if mode != "classic" and xr.random() < 0.3:
            layout = xr.choice(["6", "66", "664"])      # IPv6-only hosts (second review: never generated before)
        if mode == "retrans":
            layout = xr.choice(["44", "44", "446"])     # several sockets: a per-interface socket does not hear the host's own loop-back
        if mode == "v6own":
            layout = xr.choice(["6", "66"])             # no IPv4 socket: the host hears its own records only with a scope id
        host = make_host(sim, layout)
        box["v6loop"] = V6Loopback(sim, host)
        zc = host.zc
        await zc.async_wait_for_start()
        if mode == "big":
            infos = make_big_infos(xr)
        elif mode in ("update", "unregister", "v6own"):
            infos = make_registry_infos(xr, mode)
        else:
            infos = R.make_infos(rng, ttl_bias=[1, 2, 4, 5, 8, 120, 120, 4500])
        uni = R.Universe()
        if mode == "update":
            # exactly one service, registered, then updated (new TXT and port) before the trace starts: the registry must still answer
            from zeroconf import ServiceInfo
            old = infos[0]
            t = await zc.async_register_service(old)
            await t
            await sim.sleep_ms(xr.choice([1200, 5000]))
            new = ServiceInfo(old.type, old.name, old.port + 1, addresses=old.addresses, server=old.server, properties={"k": "updated"},
                              host_ttl=old.host_ttl, other_ttl=old.other_ttl)
            t = await zc.async_update_service(new)
            await t
            infos = [new]
        R.seed_universe(uni, infos)
        if mode == "update":
            await sim.sleep_ms(xr.choice([1200, 2000, 30000]))
        elif mode == "big":
            for inf in infos:
                zc.registry.async_add(inf)      # no probing / announcing: 40 registrations would only cost time
            await sim.sleep_ms(1200)
        else:
            for inf in infos:
                t = await zc.async_register_service(inf)
                await t
            await sim.sleep_ms(rng.choice([1200, 2000, 30000, 1200000]))
        rx_i = rng.randrange(len(layout))
        if mode == "retrans":
            rx_i = 1    # the second IPv4 socket: the host's own multicasts loop back to the first one, this one hears the querier only
        rx_v6 = layout[rx_i] == "6"
        rx_tr = host.transports[rx_i]
        tr = R.Trace(sim, host, uni)
        tr.install()
        box.update(tr=tr, uni=uni, infos=infos, zc=zc, layout=layout, rx_i=rx_i, rx_v6=rx_v6, lis=rx_tr.protocol, nsocks=len(host.socks), socks=list(host.socks), queries=[])
        qid = rng.randrange(1, 60000)
        # flowinfo / scope id of the link-local peers: fixed per peer for the scenario (the listener keys deferred packets by the
        # address string alone, the model by the whole address part of the sockaddr), and in general not the receiving socket's
        v6peer = {ip: (rng.choice([0, 0, 7]), rng.choice([3, 3, 4, 9, 0])) for ip in ("fe80::9", "fe80::8")}
        v6peer["2001:db8::9"] = (0, 0)                     # a global address: no scope
        v6peer["::ffff:10.0.0.9"] = (0, 0)                 # an IPv4-mapped source on an IPv6 socket

        def deliver(data, src, **kw):
            box["queries"].append(dict(t=sim.loop.ms, src=src, data=data, **kw))
            rx_tr.protocol.datagram_received(data, src)

        def peer(ip4, ip6, port):
            if xr.random() < 0.12:
                # a resolver on the responder's own machine: the source is the receiving socket's own address (third review, X40)
                own_ = host.socks[rx_i].getsockname()
                return (own_[0], port) + tuple(own_[2:])
            if rx_v6 and ip6 == "fe80::9" and xr.random() < 0.25:
                ip6 = xr.choice(["2001:db8::9", "::ffff:10.0.0.9"])
            return ((ip6, port) + v6peer[ip6]) if rx_v6 else (ip4, port)

        if mode == "v6own":
            # finding D29: an IPv6-only host has heard its own announcement (the AAAA record with the socket's scope id); QU and QM questions
            # for the addresses well inside a quarter of the TTL / inside the last second
            from zeroconf import DNSOutgoing, DNSQuestion, const as _k
            inf = infos[0]
            for k_ in range(xr.choice([1, 2, 3])):
                out = DNSOutgoing(_k._FLAGS_QR_QUERY)
                for typ in xr.choice([[_k._TYPE_AAAA], [_k._TYPE_A, _k._TYPE_AAAA], [_k._TYPE_ANY]]):
                    q = DNSQuestion(inf.server, typ, _k._CLASS_IN)
                    q.unicast = xr.random() < 0.7
                    out.add_question(q)
                d = bytearray(out.packets()[0]); d[1] = k_
                deliver(bytes(d), peer("10.0.0.9", "fe80::9", 5353), family="v6own")
                await sim.sleep_ms(xr.choice([1, 300, 1001, 2500]))
            await sim.sleep_ms(3000)
            box["end_t"] = sim.loop.ms
            tr.uninstall()
            await vsim.close_host(host)
            return

        if mode in ("update", "unregister"):
            await registry_family(sim, xr, box, zc, tr, uni, infos, deliver, peer)
            await sim.sleep_ms(3000)
            box["end_t"] = sim.loop.ms
            tr.uninstall()
            await vsim.close_host(host)
            return

        if mode == "big":
            from zeroconf import DNSOutgoing, DNSQuestion, const as _k
            for _ in range(xr.choice([1, 2, 3])):
                await sim.sleep_ms(xr.choice([0, 1, 130, 1001, 2500]))
                if xr.random() < 0.4:
                    r = xr.choice(uni.recs)
                    e = R.with_ttl(r, int(r.ttl))
                    e.created = float(sim.loop.ms - xr.choice([0, 999, 1000, 250 * int(r.ttl) - 1, 250 * int(r.ttl)]))
                    for x_ in plant(zc, e):
                        tr.pokes.append((sim.loop.ms, uni.id(x_)))
                port = xr.choice([5353, 5353, 40000, 65535, 5354])
                qs = xr.choice([[("_a._tcp.local.", _k._TYPE_PTR)], [("_a._tcp.local.", _k._TYPE_PTR)], [("_a._tcp.local.", _k._TYPE_ANY)],
                                [(_k._SERVICE_TYPE_ENUMERATION_NAME, _k._TYPE_PTR), ("_a._tcp.local.", _k._TYPE_PTR)],
                                [(infos[0].server, _k._TYPE_A), ("_a._tcp.local.", _k._TYPE_PTR)]])
                out = DNSOutgoing(_k._FLAGS_QR_QUERY)
                for (name, typ) in qs:
                    q = DNSQuestion(name, typ, _k._CLASS_IN)
                    q.unicast = port == 5353 and xr.random() < 0.5
                    out.add_question(q)
                if xr.random() < 0.2:
                    out.add_authorative_answer(infos[0].dns_pointer())
                d = bytearray(out.packets()[0])
                ident = xr.choice([0, 1, 0xFFFF, 0x1234]) if port != 5353 else xr.choice([0, 0, 7])
                d[0], d[1] = ident >> 8, ident & 255
                deliver(bytes(d), peer(xr.choice(["10.0.0.9", "10.0.0.8"]), "fe80::9", port), id=ident)
            await sim.sleep_ms(3000)
            box["end_t"] = sim.loop.ms
            tr.uninstall()
            await vsim.close_host(host)
            return

        for _ in range(rng.choice([1, 2, 3, 4, 6])):
            await sim.sleep_ms(rng.choice([0, 1, 20, 130, 501, 1001, 1300, 2500, rng.randint(0, 4000)]))
            now = sim.loop.ms
            if rng.random() < 0.5:
                r = rng.choice(uni.recs)
                ttl = int(r.ttl)
                age = rng.choice([250 * ttl - 1, 250 * ttl, 250 * ttl + 1, 0, 999, 1000, 1001, 250 * ttl - 1, 250 * ttl])
                e = R.with_ttl(r, ttl)
                e.created = float(now - age)
                for x_ in plant(zc, e):
                    tr.pokes.append((now, uni.id(x_)))
            port = rng.choice([5353, 5353, 5353, 40000, 1, 65535, 5354])
            # message ids: boundary-biased, above all for legacy sources (one-shot resolvers do send id 0)
            qid = (qid + rng.randrange(1, 5000)) % 65536 or 1
            if port != 5353:
                qid = rng.choice([0, 0, 1, 0xFFFF, qid, qid])
            elif rng.random() < 0.25:
                qid = rng.choice([0, 0, 1, 0xFFFF])
            probe = rng.random() < 0.25

            def source(alt=False):
                if rx_v6:
                    # link-local peers: flowinfo and scope id are part of the address and need not be the receiving socket's
                    ip = "fe80::8" if alt else "fe80::9"
                    return (ip, port) + v6peer[ip]
                return (("10.0.0.7" if alt else rng.choice(["10.0.0.9", "10.0.0.8"])), port)

            if rng.random() < 0.15:
                # a truncated query: 2..3 datagrams with their own ids and questions (the continuation may carry none), the last one
                # without TC or lost; the reply echoes id and questions of the FIRST datagram of the train
                src = source()
                npk = rng.choice([2, 2, 3])
                lost_last = rng.random() < 0.3
                off = 0
                for j in range(npk):
                    last = j == npk - 1
                    if last and lost_last:
                        break
                    qid_j = (qid + 257 * j) % 65536
                    nqj = rng.choice([1, 2]) if j == 0 else rng.choice([0, 0, 1])
                    if nqj == 0:
                        from zeroconf import DNSOutgoing, const as _k
                        o = DNSOutgoing(_k._FLAGS_QR_QUERY | (0 if last else _k._FLAGS_TC))
                        o.add_answer_at_time(R.with_ttl(uni.recs[0], int(uni.recs[0].ttl)), 0)
                        d = bytearray(o.packets()[0]); d[0], d[1] = qid_j >> 8, qid_j & 255
                        data = bytes(d)
                    else:
                        data, _qs, _qus = R.build_query(rng, infos, uni, qid_j, nq=nqj, qu_p=0.4, tc=not last, probe=False, known_p=0.3)
                    box["queries"].append(dict(t=sim.loop.ms + off, src=src, data=data, id=qid_j, probe=False, train=j))
                    if j == 0:
                        rx_tr.protocol.datagram_received(data, src)
                    else:
                        off += rng.choice([0, 1, 30, 100])
                        sim.loop.call_later(off / 1000.0, rx_tr.protocol.datagram_received, data, src)
                await sim.sleep_ms(off + rng.choice([0, 600]))
                continue
            if rng.random() < 0.35:
                # the same multi-question datagram twice within (or just outside) a second, from two sources, with the QU
                # question in every position: each querier's QU question is owed its reply
                nq = rng.choice([2, 2, 3, 4])
                if rng.random() < 0.7:
                    k = rng.randrange(nq)
                    qus = [j == k for j in range(nq)]
                else:
                    qus = [rng.random() < 0.5 for _ in range(nq)]
                pool = R.question_pool(infos)
                questions = [rng.choice(pool[:len(pool) - 4]) for _ in range(nq)]
                data, qs, qus = R.build_query(rng, infos, uni, qid, questions=questions, qus=qus, probe=probe and rng.random() < 0.3, known_p=0.05)
                src = source()
                box["queries"].append(dict(t=now, src=src, data=data, id=qid, probe=probe))
                rx_tr.protocol.datagram_received(data, src)
                await sim.sleep_ms(rng.choice([0, 1, 300, 300, 999, 999, 1000, 1001]))
                src2 = source(alt=rng.random() < 0.8)
                box["queries"].append(dict(t=sim.loop.ms, src=src2, data=data, id=qid, probe=probe, twin=True))
                rx_tr.protocol.datagram_received(data, src2)
                continue
            data, qs, qus = R.build_query(rng, infos, uni, qid, nq=rng.choice([1, 1, 2, 3, 4]), qu_p=0.5, probe=probe, known_p=0.15)
            src = source()
            box["queries"].append(dict(t=now, src=src, data=data, id=qid, probe=probe))
            rx_tr.protocol.datagram_received(data, src)

        if mode == "retrans":
            # wave-5 seed C11-w5-seed2: a legacy resolver retransmits the same (non-QU) query every 600..950 ms, 3..6 copies, and nothing
            # else arrives on that socket in between: every copy that comes a second or more after the last PROCESSED copy is owed its reply
            await sim.sleep_ms(xr.choice([1100, 1500, 3000]))
            port = xr.choice([40000, 40000, 1, 65535, 5354])
            pool = R.question_pool(infos)
            questions = [xr.choice(pool[:len(pool) - 4]) for _ in range(xr.choice([1, 1, 2]))]
            data, _q, _u = R.build_query(xr, infos, uni, xr.choice([0, 1, 0x1234]), questions=questions, qus=[False] * len(questions), probe=False, known_p=0.0)
            src = ("10.0.0.99", port)
            for k_ in range(xr.choice([3, 4, 5, 6])):
                if k_:
                    await sim.sleep_ms(xr.choice([600, 900, 900, 950, xr.randint(600, 950)]))
                deliver(data, src, family="retransmission", copy=k_)
            await sim.sleep_ms(1500)
        if mode == "many":
            # third review: X50 -- queries of 5..12 questions (any mix of QU / QM, repeats of a question included); X3 -- truncated trains
            # one of whose packets is a probe (authority section), first or last: the train is a probe, answered at once
            pool = R.question_pool(infos)
            for k_ in range(xr.choice([1, 2, 3])):
                await sim.sleep_ms(xr.choice([0, 1, 130, 1001, 1300, 2500]))
                port = xr.choice([5353, 5353, 40000, 65535, 5354])
                if xr.random() < 0.5:
                    nq = xr.choice([5, 5, 6, 8, 12])
                    questions = [xr.choice(pool[:len(pool) - 4]) if xr.random() < 0.9 else xr.choice(pool) for _ in range(nq)]
                    data, _q, _u = R.build_query(xr, infos, uni, xr.choice([0, 1, 0x1234]), questions=questions, qus=[xr.random() < 0.4 for _ in range(nq)],
                                                 probe=xr.random() < 0.2, known_p=0.1)
                    deliver(data, peer(xr.choice(["10.0.0.9", "10.0.0.8"]), "fe80::9", port), family="many-questions")
                else:
                    src = peer("10.0.0.9", "fe80::9", port)
                    probe_first = xr.random() < 0.5
                    d1, _q, _u = R.build_query(xr, infos, uni, 21, nq=xr.choice([1, 2]), qu_p=0.4, tc=True, probe=probe_first, known_p=0.3)
                    d2, _q, _u = R.build_query(xr, infos, uni, 22, nq=xr.choice([1, 1, 2]), qu_p=0.4, tc=False, probe=not probe_first, known_p=0.3)
                    deliver(d1, src, family="probe-train", train=0)
                    if xr.random() < 0.75:
                        await sim.sleep_ms(xr.choice([0, 1, 30, 100]))
                        deliver(d2, src, family="probe-train", train=1)
                    await sim.sleep_ms(600)
        if mode == "twin":
            # second review, 1(a): the same bytes from two different resolvers (legacy source ports, no QU question) within a second --
            # each of them is owed its own unicast reply; and the control: a true repeat (same sockaddr), which C16 wants dropped
            await sim.sleep_ms(xr.choice([1100, 1500, 3000]))
            port = xr.choice([40000, 1, 65535, 5354])
            pool = R.question_pool(infos)
            questions = [xr.choice(pool[:len(pool) - 4]) for _ in range(xr.choice([1, 1, 2]))]
            data, _q, _u = R.build_query(xr, infos, uni, xr.choice([0, 0, 1, 0xBEEF]), questions=questions, qus=[False] * len(questions), probe=False, known_p=0.0)
            a = peer("10.0.0.9", "fe80::9", port)
            other = xr.choice(["ip", "port", "same"])
            b2 = peer("10.0.0.8", "fe80::8", port) if other == "ip" else peer("10.0.0.9", "fe80::9", port + 1 if port < 65535 else 40001) if other == "port" else a
            deliver(data, a, id=None, family="twin-legacy")
            await sim.sleep_ms(xr.choice([0, 1, 10, 10, 300, 998, 999]))
            deliver(data, b2, id=None, family="twin-legacy", twin=other)
        if mode == "ports":
            # second review, 1(b): two resolvers on one host (same address, different source ports): one sends a truncated packet that is
            # being held, the other a plain query -- two queries, two replies
            await sim.sleep_ms(xr.choice([1100, 1500, 3000]))
            p1 = xr.choice([40000, 5353, 5354])
            p2 = xr.choice([40001, 1, 65535])
            pool = R.question_pool(infos)
            d1, _q, _u = R.build_query(xr, infos, uni, 7, questions=[xr.choice(pool[:len(pool) - 4])], qus=[False], tc=True, probe=False, known_p=0.0)
            d2, _q, _u = R.build_query(xr, infos, uni, 9, questions=[xr.choice(pool[:len(pool) - 4])], qus=[False], probe=False, known_p=0.0)
            deliver(d1, peer("10.0.0.9", "fe80::9", p1), id=7, family="two-ports")
            await sim.sleep_ms(xr.choice([0, 1, 100, 399]))
            deliver(d2, peer("10.0.0.9", "fe80::9", p2), id=9, family="two-ports")
            await sim.sleep_ms(700)
        await sim.sleep_ms(3000)
        box["end_t"] = sim.loop.ms
        tr.uninstall()
        await vsim.close_host(host)

    try:
        sim.run(main)
    finally:
        if "tr" in box:
            box["tr"].uninstall()
        if "v6loop" in box:
            box.pop("v6loop").remove()
    box["errors"] = [str(e.get("exception") or e.get("message")) for e in sim.errors]
    return box


def spec_routes(asm, pkts, view="seen_blind"):
    """the property's routing of every answer of a query (one datagram, or a truncated train taken as one query: probe if any
    packet carries an authority section, known answers of the non-probe packets together, question count and first question
    of the first packet, clock of the last packet): -> (exp_ucast, exp_mcast_now, exp_mcast_later, dontcare), from the English sentence"""
    # "seen multicast": the cached copy of the record, found as it is on the wire (`seen_blind`: ignoring the scope id of the receiving
    # interface) -- `seen` is what the code's own look-up finds
    seen = {i: (c, ttl) for (i, c, ttl) in asm.get(view, asm["seen"])}
    t = asm["last_now"]
    legacy = asm["port"] != 5353
    probe = any(p["num_auth"] > 0 for p in pkts)
    known = {}
    for p in pkts:
        if p["num_auth"] == 0:
            for rid, ttl in p["known"]:
                known.setdefault(rid, set()).add(ttl)
    first = pkts[0]
    eu, em, el, dontcare = set(), set(), set(), set()
    for p in pkts:
        for qu, cands in p["items"]:
            for rid, ttl, _adds, suppressible in cands:
                ks = known.get(rid, set()) if suppressible else set()
                sup = {kt * 2 > ttl for kt in ks}
                if sup == {True}:
                    continue
                if len(sup) == 2:
                    dontcare.add(rid)
                s = seen.get(rid)
                recent = s is not None and s[0] + 250 * s[1] > t
                in1s = s is not None and t - s[0] < 1000
                if qu and not legacy:
                    if probe:
                        eu.add(rid)
                        if not recent:
                            em.add(rid)
                    elif recent:
                        eu.add(rid)
                    else:
                        em.add(rid)
                else:
                    if legacy:
                        eu.add(rid)
                    if probe:
                        em.add(rid)
                    elif in1s:
                        el.add(rid)
                    elif first["nq"] == 1 and first["q0type"] in (33, 1, 28, 47):
                        em.add(rid)
                    else:
                        el.add(rid)
    return eu, em, el, dontcare


def reply_groups(b):
    """the datagrams of a block grouped into replies: one `async_send` call = one `DNSOutgoing` (which `packets()` may split into
    several datagrams); per reply and socket the datagrams in the order they were written"""
    calls = {}
    for o in b["outs"]:
        calls.setdefault(o.get("call"), []).append(o)
    out = []
    for call, os_ in calls.items():
        per_sock = {}
        for o in os_:
            per_sock.setdefault(id(o["sock"]), []).append(o)
        out.append(dict(call=call, mcast=os_[0]["mcast"], per_sock=list(per_sock.values()), outs=os_))
    return out


def raw_q(q):
    return q.class_ | (0x8000 if q.unique else 0)


def check_trace_O(res, box, case):
    """the property's sentences on every datagram of every block -- receive blocks, truncated-query timer blocks and queue
    flushes alike (second review: nothing is special to one-datagram receive blocks any more)"""
    from zeroconf import const as k

    tr = box["tr"]
    uni = tr.uni
    socks = box["socks"]
    rx_sock = box["lis"].transport.transport.sock
    later_mcast = []
    routed_later = []     # (time of an answering block, the records its routing puts into a queue -- None: unknown, anything may follow)
    # which datagrams each reply must be based on (delivered trains, judged from the input: `c12.tc_pass`; its own verdicts are C12's)
    from . import c12 as _c12
    lis_blocks = [b for b in tr.blocks if b["kind"] == "qf" or b.get("lis") is box["lis"]]
    _c12.tc_pass(C.Result("C12"), tr, lis_blocks, case, box.get("end_t", 0))
    parsed_by_data = {b["data"]: b["parsed"] for b in tr.blocks if b["kind"] == "rx" and b.get("parsed")}
    # ---- nothing leaves the host outside a receive / timer / flush block ("by unicast alone", and nothing unsolicited)
    def goodbye(o):
        # the goodbyes of a service the scenario unregistered (sent by the API's own task, outside the blocks): every record has TTL 0
        from zeroconf._protocol.incoming import DNSIncoming
        recs = DNSIncoming(o["data"]).answers()
        return "withdrawn_at" in box and o["t"] >= box["withdrawn_at"] and recs and all(r.ttl == 0 for r in recs)

    for o in [o for o in tr.orphans if not goodbye(o)][:3]:
        res.violate("C11:unsolicited-datagram", "a datagram to %s leaves the host outside every receive, truncated-query and queue block "
                    "(%d bytes at %d ms): it answers no query" % (o["to_full"], len(o["data"]), o["t"] - T0), dict(case, at_ms=o["t"] - T0))
    src_of = {}      # datagram bytes -> full source sockaddr of its latest delivery on this listener
    # the duplicate guard as C16's sentence has it, computed from the input alone: a datagram is a repeat iff its bytes equal those of the
    # last datagram that was NOT a repeat (the last one processed), that one arrived less than a second ago and was not a query with
    # a QU question.  (A repeat does not restart the second: wave-5 seed C11-w5-seed2 made the window slide.)
    guard = None     # (bytes, source sockaddr, arrival time, "query with a QU question") of the last processed datagram
    held = {}        # (address, port) -> the distinct truncated datagrams of that querier still waiting for their reply
    for bi, b in enumerate(tr.blocks):
        at = dict(case, at_ms=b["t"] - T0)
        mine = b["kind"] == "qf" or b.get("lis") is box["lis"]
        if b["kind"] == "rx" and mine:
            src_of[b["data"]] = b["src_full"]
        # a querier is a source sockaddr -- address AND port (second review 1(b)): the datagrams a reply must be based on are the
        # truncated ones this querier sent before (distinct, not yet answered) and the one at hand
        own = None
        is_dup = False
        if b["kind"] == "rx" and mine and len(b["data"]) <= 8966:
            is_dup = guard is not None and guard[0] == b["data"] and b["t"] - guard[2] < 1000 and not guard[3]
        if b["kind"] == "rx" and mine and b.get("parsed"):
            key = (b["src"][0], b["src"][1])
            if b["parsed"]["flags"] & 0x200:
                if b["data"] not in held.get(key, []) and (b.get("draws_tc") or not is_dup):
                    held.setdefault(key, []).append(b["data"])
            elif b["asm"]:
                own = held.pop(key, []) + [b["data"]]
        elif b["kind"] == "tc" and mine and b["asm"]:
            own = held.pop((b["addr"], b["asm"]["port"]), None)
        # ---- format, socket and destination of every datagram, reply by reply
        groups = reply_groups(b)
        for g in groups:
            if g["mcast"]:
                later_mcast.append((bi, b["t"], set().union(*[set(o["ans"]) for o in g["outs"]])))
                counts = sorted(len(x) for x in g["per_sock"])
                if len(g["per_sock"]) != len(socks) or counts[0] != counts[-1]:
                    res.violate("C11:multicast-sockets", "a multicast reply of %d datagram(s) went out on %d of the host's %d sockets (datagrams per socket %s)" % (
                        counts[-1], len(g["per_sock"]), len(socks), counts), at)
            for o in g["outs"]:
                wid, flags, qd, classes, m = raw_classes(o["data"])
                recs = m.answers()
                v6sock = isinstance(o["sock"], Sock6)
                if g["mcast"]:
                    if wid != 0 or flags != 0x8400 or qd != 0:
                        res.violate("C11:multicast-format", "multicast reply datagram with id %d flags %#x and %d questions" % (wid, flags, qd), at)
                    for r in recs:
                        if r.unique != (r.type != k._TYPE_PTR):
                            res.violate("C11:flush-bit", "multicast %s type %d carries cache-flush bit = %s" % (r.name, r.type, r.unique), at)
                    name = o["sock"].getsockname()
                    want_to = (MDNS6, 5353, name[2], name[3]) if v6sock else (R.MDNS, 5353)
                    if o["to_full"] != want_to:
                        res.violate("C11:multicast-destination", "multicast reply sent to %s from the %s socket %s (expected %s)" % (
                            o["to_full"], "IPv6" if v6sock else "IPv4", name, want_to), at)
                else:
                    if any(r.unique for r in recs):
                        res.violate("C11:unicast-flush-bit", "unicast reply carries a cache-flush bit", at)
                    if any(raw_q(q) >= 0x8000 for q in m._questions):
                        res.violate("C11:unicast-qu-bit", "a question echoed in a unicast reply carries the top bit of the class field (%s)" % (
                            [hex(raw_q(q)) for q in m._questions]), at)
                    if flags != 0x8400:
                        res.violate("C11:unicast-format", "unicast reply datagram with flags %#x (response + authoritative = 0x8400 expected)" % flags, at)
                    if o["sock"] is not rx_sock and mine:
                        res.violate("C11:unicast-socket", "unicast reply (block %s) not sent on the receiving socket" % b["kind"], at)
        # ---- a queue flush sends only what some query's routing put into a queue (third review, X4: "by unicast alone" also holds 20 ms later):
        #      every ANSWER of the batch was routed "multicast later" by an answering block at most 1.2 s ago (additionals are not judged)
        if b["kind"] == "qf":
            for g in groups:
                for rid in sorted(set().union(*[set(o["ans"]) for o in g["outs"]]) if g["outs"] else set()):
                    owed_by = [t_ for (t_, el_) in routed_later if t_ <= b["t"] <= t_ + 1200 and (el_ is None or rid in el_)]
                    if not owed_by:
                        res.violate("C11:unowed-multicast", "a queue flush multicasts %s, which no query of the last 1.2 s was routed to a queue for "
                                    "(unicast alone / multicast at once / not asked)" % uni.describe(rid), at)
        # ---- a query that is not answered at all
        if b["kind"] == "rx" and mine and b.get("parsed") and not b["asm"] and not (b["parsed"]["flags"] & 0x200):
            pkt = b["parsed"]
            known = {}
            if pkt["num_auth"] == 0:
                for rid, ttl in pkt["known"]:
                    known.setdefault(rid, set()).add(ttl)
            unsup = lambda rid, ttl, sup: not (sup and known.get(rid) and all(kt * 2 > ttl for kt in known[rid]))
            owed = sorted({rid for qu, cands in pkt["items"] if qu for (rid, ttl, _a, sup) in cands if unsup(rid, ttl, sup)})
            ago = next((b["t"] - x["t"] for x in reversed(tr.blocks[:bi]) if x["kind"] == "rx" and x["data"] == b["data"]), "?")
            if owed and not b["outs"]:
                res.violate("C11:qu-question-unanswered",
                            "a query from %s:%d with a QU question (QU/QM pattern %s) was not handled at all: %s get neither a unicast nor a multicast reply "
                            "(an identical datagram had arrived %s ms earlier; RFC 6762 5.4 owes every QU question its reply)" % (
                                b["src"][0], b["src"][1], "".join("U" if q[3] else "M" for q in pkt["questions"]),
                                [uni.describe(i) for i in owed], ago), at)
            legacy_owed = sorted({rid for qu, cands in pkt["items"] for (rid, ttl, _a, sup) in cands if unsup(rid, ttl, sup)}) if b["src"][1] != 5353 else []
            if legacy_owed and not owed and not b["outs"] and is_dup and guard[1] != b["src_full"]:
                # second review 1(a): the duplicate guard compares the bytes only -- a finding (known_findings.json); a repeat from the
                # *same* sockaddr is C16's business and not judged here
                res.violate("C11:identical-bytes-other-source-unanswered",
                            "a query from %s (source port %d, not 5353) gets no unicast reply because the last processed datagram, %s ms earlier from %s, "
                            "had the same bytes: %s are owed to this querier" % (b["src_full"], b["src"][1], b["t"] - guard[2], guard[1],
                                                                               [uni.describe(i) for i in legacy_owed]), at)
            any_owed = sorted({rid for qu, cands in pkt["items"] for (rid, ttl, _a, sup) in cands if unsup(rid, ttl, sup)})
            if any_owed and not owed and not b["outs"] and not is_dup:
                # nothing excuses the silence: not a repeat (C16) of the last processed datagram, not truncated, the registry has the answers
                res.violate("C11:query-unanswered", "a query from %s (port %d) is not handled at all: %s are owed a reply (%s) and the datagram is not a "
                            "repeat inside one second: %s" % (
                                b["src_full"], b["src"][1], [uni.describe(i) for i in any_owed][:6],
                                "unicast, and the normal multicast" if b["src"][1] != 5353 else "multicast",
                                "the last processed datagram with these bytes arrived %d ms earlier" % (b["t"] - guard[2]) if guard and guard[0] == b["data"]
                                else "the last processed datagram had other bytes"), at)
        if b["kind"] == "rx" and mine and len(b["data"]) <= 8966 and not is_dup:
            hq = (b.get("pq") or (0, 0, "0 -"))[2].split()
            guard = (b["data"], b["src_full"], b["t"], hq[0] == "1" and hq[1] != "-")
        # ---- a query that is answered: routing, destination, id, question echo -- one datagram or a truncated train, receive or timer block
        if b["asm"] and mine and b["kind"] in ("rx", "tc"):
            asm = b["asm"]
            if asm.get("last_now") is None:      # an assembly of no packets at all (only a defective tree does that): judged like any other
                asm = dict(asm, last_now=b["t"], first_now=b["t"])
            port = asm["port"]
            ucast = [g for g in groups if not g["mcast"]]
            mnow = [g for g in groups if g["mcast"]]
            # this block's querier (address and port) and, third review, the INPUT class of finding D36: truncated datagrams from another
            # source port of the SAME address are being held right now
            q_ip = b["src"][0] if b["kind"] == "rx" else b["addr"]
            sibling_held = [d for (k_, ds_) in held.items() if k_[0] == q_ip and k_[1] != port for d in ds_]
            for key_ in list(held):     # whatever this reply was based on is not waiting any more, whoever sent it
                held[key_] = [d for d in held[key_] if d not in asm["datas"]]
                if not held[key_]:
                    del held[key_]
            datas = own or b.get("want") or asm["datas"]
            if own is not None:
                datas = own
            merged = [d for d in asm["datas"] if d in sibling_held]
            if merged and set(asm["datas"]) <= set(own or []) | set(sibling_held):
                # finding D36, decided from the input: the held datagrams of the same address' other port(s) were answered together with
                # this querier's.  The finding is that merge and nothing else: the rest of the block is judged for the merged query
                f_ = parsed_by_data.get(asm["datas"][0])
                res.violate("C11:held-tc-merged-with-other-port",
                            "datagrams from different source ports of one address %s were answered as one query: the reply goes to %s with id %s; the "
                            "other querier gets nothing" % (sorted({(src_of[d][0], src_of[d][1]) for d in asm["datas"] if d in src_of}),
                                                           [o["to_full"] for g in ucast for o in g["outs"]][:1], f_["id"] if f_ else "?"), at)
                datas = asm["datas"]
            pkts = [parsed_by_data.get(d) for d in datas]
            if not pkts or any(p is None for p in pkts):
                routed_later.append((b["t"], None))
                continue
            first = pkts[0]
            # the reply goes to the querier of this block: the source of the datagram at hand, or of the held train the timer fires for
            src_full = b["src_full"] if b["kind"] == "rx" else (src_of.get(own[-1]) if own else None)
            eu, em, el, dontcare = spec_routes(asm, pkts)
            got_u = set().union(*[set(o["ans"]) for g in ucast for o in g["outs"]]) if ucast else set()
            got_m = set().union(*[set(o["ans"]) for g in mnow for o in g["outs"]]) if mnow else set()
            probe = any(p["num_auth"] > 0 for p in pkts)
            if (got_u - dontcare) != (eu - dontcare):
                res.violate("C11:unicast-set", "unicast answers %s, the property routes %s there (port %d, probe %s, %d datagram(s))" % (
                    sorted(uni.describe(i) for i in got_u)[:8], sorted(uni.describe(i) for i in eu)[:8], port, probe, len(pkts)), at)
            if (got_m - dontcare) != (em - dontcare):
                res.violate("C11:multicast-now-set", "multicast at once %s, the property routes %s there (port %d, probe %s, %d datagram(s))" % (
                    sorted(uni.describe(i) for i in got_m)[:8], sorted(uni.describe(i) for i in em)[:8], port, probe, len(pkts)), at)
            b["expect_later"] = el - dontcare
            routed_later.append((b["t"], el | dontcare))
            if len(ucast) > 1:
                res.violate("C11:unicast-destination", "%d unicast replies for one query" % len(ucast), at)
            for g in ucast:
                if len(g["per_sock"]) != 1:
                    res.violate("C11:unicast-socket", "the unicast reply was written to %d sockets" % len(g["per_sock"]), at)
                echoed = []
                for o in g["outs"]:
                    m = o["msg"]
                    echoed += [(q.name, q.type, q.class_) for q in m._questions]
                    if src_full is not None and o["to_full"] != src_full:
                        res.violate("C11:unicast-destination", "unicast reply (%s block, query of %d datagram(s)) sent to %s, query came from %s (for IPv6 the "
                                    "destination includes flowinfo and scope id of the source)" % (b["kind"], len(pkts), o["to_full"], src_full), at)
                    if m.id != first["id"]:
                        res.violate("C11:unicast-id", "a datagram of the reply to a query of %d datagram(s) has id %d; the query's (first datagram's) id is %d" % (
                            len(pkts), m.id, first["id"]), at)
                want_q = [(n, t, c) for (n, t, c, _u) in first["questions"]] if port != 5353 else []
                if echoed != want_q:
                    res.violate("C11:question-echo", "reply to a query of %d datagram(s) from port %d echoes %s over its %d datagram(s); the query asks %s" % (
                        len(pkts), port, echoed, len(g["outs"]), want_q), at)
    # ---- "in addition to the normal multicast": what was routed to a queue does get multicast
    for bi, b in enumerate(tr.blocks):
        for rid in b.get("expect_later", ()):
            if rid in box.get("withdrawn", ()) and box["withdrawn_at"] <= b["t"] + 1200:
                continue  # withdrawn while it waited in a queue: the goodbye replaces it (C08)
            if not any(bj >= bi and b["t"] <= s <= b["t"] + 1200 and rid in ans for (bj, s, ans) in later_mcast):
                res.violate("C11:multicast-missing", "%s is owed a multicast reply and none follows within 1.2 s" % uni.describe(rid), dict(case, at_ms=b["t"] - T0))


# ------------------------------------------------------------------------------------------
# the socket level (`lean/Zc/Model/ReplyNet.lean`, driver `c11net` / `c11bytes`)


def kind_of(r):
    """which of the responder's seven constructor sites builds a record of this shape (decided from the Python class, the
    record type and, for pointers, the owner name -- never from the class / cache-flush bits, which are what is compared)"""
    from zeroconf import _dns as d, const as k

    if isinstance(r, d.DNSNsec):
        return "nsec"
    if isinstance(r, d.DNSAddress):
        return "aaaa" if r.type == k._TYPE_AAAA else "a"
    if isinstance(r, d.DNSService):
        return "srv"
    if isinstance(r, d.DNSText):
        return "txt"
    if isinstance(r, d.DNSPointer):
        return "enum" if r.name == k._SERVICE_TYPE_ENUMERATION_NAME else "ptr"
    return "-"


def erec_line(r):
    """a library record the way `Wire.Encode.ERecord.parse` reads it (as handed to the encoder: its own TTL, created 0)"""
    from zeroconf import _dns as d

    head = "%s %d %d %s %d 0" % (W.name_tok(r.name), r.type, r.class_, C.b01(r.unique), int(r.ttl))
    if isinstance(r, d.DNSAddress):
        return "%s a %s" % (head, C.hx(r.address))
    if isinstance(r, d.DNSPointer):
        return "%s p %s" % (head, W.name_tok(r.alias))
    if isinstance(r, d.DNSText):
        return "%s t %s" % (head, C.hx(r.text))
    if isinstance(r, d.DNSService):
        return "%s s %d %d %d %s" % (head, r.priority, r.weight, r.port, W.name_tok(r.server))
    if isinstance(r, d.DNSNsec):
        return "%s n %s %s" % (head, W.name_tok(r.next_name), C.natlist(r.rdtypes))
    raise TypeError(type(r))


def equestion_line(name, typ, cls, unique):
    return "%s %d %d %s" % (W.name_tok(name), typ, cls, C.b01(unique))


def bytes_line(unicast, us, ident, questions, ans, adds):
    """driver line `c11bytes`: the reply constructor applied to these records in this order"""
    return "c11bytes %s %s %d %d%s %d%s %d%s" % (
        C.b01(unicast), C.b01(us), ident, len(questions), "".join(" " + equestion_line(*q) for q in questions),
        len(ans), "".join(" " + erec_line(r) for r in ans), len(adds), "".join(" " + erec_line(r) for r in adds))


def world_str(box, tr, blocks):
    """the host as `Driver.C11.pWorld` reads it: sockets, receiving socket, peers behind the address ids, question sections of the
    received datagrams, constructor site of every record of the universe.  Call after the events were serialised (ids are
    handed out while serialising)."""
    socks = box["socks"]
    parts = [str(len(socks))]
    for i, s in enumerate(socks):
        name = s.getsockname()
        v6 = isinstance(s, Sock6)
        parts.append("%d %s %d %d" % (i, C.b01(v6), name[2] if v6 else 0, name[3] if v6 else 0))
    parts.append(str(box["rx_i"]))
    ip_ids = tr.__dict__.setdefault("ip_ids", {})
    parts.append(str(len(tr.addr_ids)))
    for akey, aid in tr.addr_ids.items():
        ip = akey[0]
        parts.append("%d %d %s %s" % (aid, ip_ids.setdefault(ip, len(ip_ids) + 1), C.b01(":" in ip),
                                      "-" if len(akey) == 1 else "%d %d" % (akey[1], akey[2])))
    qs = {}
    for b in blocks:
        if b["kind"] == "rx" and b.get("parsed"):
            qs.setdefault(tr.data_id(b["data"]), b["parsed"]["questions"])
    parts.append(str(len(qs)))
    for did, questions in qs.items():
        parts.append("%d %d%s" % (did, len(questions), "".join(" " + equestion_line(*q) for q in questions)))
    parts.append(str(len(tr.uni.recs)))
    parts += [kind_of(r) for r in tr.uni.recs]
    return " ".join(parts)


def block_obs11(tr, b):
    """the logical observation of a block in `c12run`'s format (`reply_common.block_obs`), with the datagrams of one reply
    (`DNSOutgoing.packets()` may split it) taken together: one descriptor per unicast reply / per multicast reply"""
    for o in b["outs"]:
        R.decode_out(tr, o)
    outs = []
    for g in reply_groups(b):
        one = g["per_sock"][0]                      # the same message on every socket
        ans = C.natlist(sorted(i for o in one for i in o["ans"]))
        add = C.natlist(sorted(i for o in one for i in o["add"]))
        if g["mcast"]:
            outs.append("m:%s:%s" % (ans, add))
        else:
            o0 = one[0]
            outs.append("u:%d:%d:%d:%d:%s:%s" % (tr.addr_id(o0["akey"]), o0["to"][1], o0["msg"].id, sum(len(o["msg"]._questions) for o in one), ans, add))
    outs = sorted(outs)
    draws = ",".join("%d/%d/%d" % d for d in b["draws"])
    return "%s %s" % (",".join(outs) if outs else "-", draws or "-")


def block_phys(tr, box, b):
    """every reply of the block as it is on the sockets (same format as the driver's `physStr`), per socket: socket index, complete
    destination sockaddr, raw id / flags, questions with the raw class field, records with the raw class field.  The datagrams of
    a split reply are taken together (id, flags and destination of the first; every datagram is judged by the oracle and compared
    byte for byte through `c11bytes`)."""
    ip_ids = tr.__dict__.setdefault("ip_ids", {})
    out = []
    raw = lambda e: e.class_ | (0x8000 if e.unique else 0)
    for g in reply_groups(b):
        for one in g["per_sock"]:
            o0 = one[0]
            to = o0["to_full"]
            ip = "g4" if to[0] == R.MDNS else "g6" if to[0] == MDNS6 else "p%d" % ip_ids.setdefault(to[0], len(ip_ids) + 1)
            fs = "-" if len(to) == 2 else "%d.%d" % (to[2], to[3])
            try:
                si = next(i for i, s in enumerate(box["socks"]) if s is o0["sock"])
            except StopIteration:
                si = -1
            wid, flags, _qd, _cl, _m = raw_classes(o0["data"])
            qs, ans, add = [], [], []
            for o in one:
                m = o["msg"]
                a, x = R.split_sections(m)
                qs += ["%s:%d:%d" % (W.name_tok_labels(q.name), q.type, raw(q)) for q in m._questions]
                ans += [(tr.uni.id(r), r.type, raw(r)) for r in a]
                add += [(tr.uni.id(r), r.type, raw(r)) for r in x]
            rs = lambda l: ",".join("%d.%d.%d" % x for x in sorted(l)) or "-"
            out.append("%d>%s/%d/%s|%d|%d|%s|%s|%s" % (si, ip, to[1], fs, wid, flags, "+".join(qs) or "-", rs(ans), rs(add)))
    return " ".join(sorted(out)) or "-"


def trace_byte_lines(tr, box, kept):
    """for every reply the host sent in a kept block, per socket: the `c11bytes` line that rebuilds it from the *query* (id and
    questions of the first packet the reply must be based on, legacy-ness of the source port) and the registry's own record objects
    in the order they are on the wire; expected: exactly the datagrams sent, byte for byte, however the reply splits"""
    parsed_by_data = {b["data"]: b["parsed"] for b in tr.blocks if b["kind"] == "rx" and b.get("parsed")}
    lines, exp, cases = [], [], []
    own = lambda l: [tr.uni.recs[tr.uni.id(r)] for r in l]
    for b in kept:
        for g in reply_groups(b):
            for one in g["per_sock"]:
                ans, add = [], []
                for o in one:
                    a, x = R.split_sections(o["msg"])
                    ans += a
                    add += x
                if g["mcast"]:
                    lines.append(bytes_line(False, False, 0, [], own(ans), own(add)))
                else:
                    asm = b.get("asm")
                    # the first packet of the query as delivered (`tc_pass`), not as the implementation assembled it
                    datas = b.get("want") or (asm["datas"] if asm else None)
                    first = parsed_by_data.get(datas[0]) if asm and datas else None
                    if first is None:
                        continue
                    lines.append(bytes_line(True, asm["port"] != 5353, first["id"], first["questions"], own(ans), own(add)))
                exp.append("ok " + " ".join(C.hx(o["data"]) for o in one))
                cases.append(dict(at_ms=b["t"] - T0, to=one[0]["to_full"], datagrams=len(one)))
    return lines, exp, cases


def run_trace_stream(ctx, res, n, only=None):
    lines, boxes = [], []
    blines, bexp, bcases = [], [], []
    todo = only if only is not None else [(ctx["seed"], k) for k in range(n)]
    for item in todo:
        seed, sc_no = item[0], item[1]
        box = run_scenario(seed, sc_no, item[2] if len(item) > 2 else None)
        tr = box["tr"]
        evs, kept = [], []
        for b in tr.blocks:
            b["draws_tc"] = any(lo == 400 for (lo, hi, v) in b["draws"])
            if b["kind"] in ("rx", "tc") and b["lis"] is not box["lis"]:
                continue  # another socket's listener: its own duplicate guard, outside this model instance
            line = R.block_line(tr, box["zc"], b)
            b["obs"] = block_obs11(tr, b)
            evs.append(line)
            kept.append(b)
        for b in tr.blocks:
            if "obs" not in b:
                R.block_line(tr, box["zc"], b)
                b["obs"] = R.block_obs(tr, b)
        # the socket level: every datagram of every kept block with its socket, complete destination, questions, class fields
        world = world_str(box, tr, kept)
        for b in kept:
            b["phys"] = block_phys(tr, box, b)
        # the two flags say how the harness numbered known answers / took the "seen" snapshot: as the repaired responder does (D25, D29
        # are in /repo); the driver refuses the trace if the translated leaves of the tree say otherwise
        lines.append("c11net 1 1 %s %d %s" % (world, len(evs), " ".join(evs)))
        case0 = {"stream": "tr", "seed": seed, "scenario": sc_no, "mode": box["mode"]}
        # which datagrams each reply must be based on, judged from what was delivered (sets b["want"]; verdicts are C12's)
        from . import c12 as _c12
        _c12.tc_pass(C.Result("C12"), tr, [b for b in tr.blocks if b["kind"] == "qf" or b.get("lis") is box["lis"]], case0, box.get("end_t", 0))
        bl, be, bc = trace_byte_lines(tr, box, kept)
        blines += bl
        bexp += be
        bcases += [dict(case0, **c) for c in bc]
        boxes.append((seed, sc_no, box, kept))
    model = bmodel = None
    if ctx["driver_ok"]:
        try:
            model = C.run_driver(lines)
            bmodel = C.run_driver(blines)
        except C.DriverUnavailable as ex:
            res.notes.append("driver unavailable: %s" % ex)
    if bmodel is not None:
        res.count("tr:datagrams-byte-exact", len(blines))
        bad = 0
        for i, case in enumerate(bcases):
            if bmodel[i] != bexp[i] and bad < 5:
                bad += 1
                res.disagree("c11bytes", dict(case, line=blines[i][:400]), bexp[i][:200], bmodel[i][:200])
    for idx, (seed, sc_no, box, kept) in enumerate(boxes):
        res.count("tr:scenarios")
        res.count("tr:mode:" + box["mode"])
        res.count("tr:split-replies", sum(1 for b in kept for g in reply_groups(b) if len(g["per_sock"][0]) > 1))
        # one evaluation = one received datagram whose handling (routing, format) is compared and judged
        res.evaluations += max(1, sum(1 for b in kept if b["kind"] == "rx"))
        tr = box["tr"]
        case = {"stream": "tr", "seed": seed, "scenario": sc_no, "mode": box["mode"], "sockets": box["layout"], "receiving_socket": box["rx_i"],
                "services": [(i.name, i.server, i.host_ttl, i.other_ttl) for i in box["infos"]],
                "queries": [dict(t=q["t"] - T0, src=q["src"], data=q["data"].hex()) for q in box["queries"]]}
        if box["errors"]:
            res.disagree("c11run", case, "exception in a callback: %s" % box["errors"][:2], "no exception")
        if model is not None:
            parts = model[idx].split(" | ")
            head, mboth = parts[0], parts[1:]
            if mboth == [""]:
                mboth = []
            mobs = [x.split(" ;; ")[0] for x in mboth]
            mphys = [x.split(" ;; ")[1] if " ;; " in x else None for x in mboth]
            iobs = [b["obs"] for b in kept]
            iphys = [b["phys"] for b in kept]
            if not head.startswith("ok") or mobs != iobs:
                kk = next((j for j, (a, b) in enumerate(zip(mobs, iobs)) if a != b), min(len(mobs), len(iobs)))
                res.disagree("c11run", dict(case, at_block=kk, at_ms=(kept[kk]["t"] - T0) if kk < len(kept) else None),
                             iobs[kk] if kk < len(iobs) else None, (head, mobs[kk] if kk < len(mobs) else None))
            elif mphys != iphys:
                # the logical datagrams agree; what is on the sockets (socket, complete sockaddr, id, flags, questions, class fields) does not
                kk = next((j for j, (a, b) in enumerate(zip(mphys, iphys)) if a != b), min(len(mphys), len(iphys)))
                res.disagree("c11net", dict(case, at_block=kk, at_ms=(kept[kk]["t"] - T0) if kk < len(kept) else None),
                             iphys[kk] if kk < len(iphys) else None, mphys[kk] if kk < len(mphys) else None)
        check_trace_O(res, box, case)
        for (rid, s_, c_, e_) in [g_ for g_ in R.sighting_gaps(tr, maxdelay=0) if g_[0] not in box.get("withdrawn", ())][:2]:
            res.disagree("sightings", dict(case, at_ms=c_), "cache entry of %s at %d ms: %s" % (tr.uni.describe(rid), c_, e_),
                         "the host multicast it at %d ms: its own transmission must have re-stamped the cache" % s_)
        for b in kept:
            if b["kind"] == "rx" and b["asm"] and b.get("parsed"):
                p = b["parsed"]
                res.count("tr:queries")
                shape = "%s/%s/%s/%s/%s" % ("legacy" if b["src"][1] != 5353 else "5353", "probe" if p["num_auth"] else "query",
                                            "".join("U" if qu else "M" for qu, _c in p["items"])[:4], box["nsocks"], "v6" if box["rx_v6"] else "v4")
                res.count("tr:" + shape.split("/")[0])
                if b["outs"]:
                    res.nontriv("tr/" + shape + "/" + ",".join(sorted({x[0] for x in b["obs"].split(" ")[0].split(",")})))
        if idx < 2:
            res.sample({"scenario": sc_no, "blocks": [(b["kind"], b["t"] - T0, b["obs"], b["phys"]) for b in kept[:10]]})


def run(ctx):
    res = _Result("C11")
    res.rule = ("fmt: every record kind x class with/without top bit x multicast/unicast x ids {0,1,0xabcd,65535}; send: socket family x 6 address spellings; "
                "tr: responder scenarios in nine families -- classic (1..3 services), big (10..40 services of one type: split replies), twin (identical bytes from another "
                "source sockaddr), ports (two source ports of one address around a held truncated packet), update (the only service updated), unregister (a sibling withdrawn "
                "while answers are queued), v6own (IPv6-only host hearing its own records), retrans (retransmission trains on a socket that hears no loop-back), many "
                "(5..12 questions per query; truncated trains one of whose packets is a probe) -- TTLs 1..4500 s; socket layouts {4, 46, 64, 44, 446, 6, 66, 664}, queries "
                "received on one socket per scenario; 1..6 queries of 1..12 questions, QU/QM per question, +/- authority section, any id, source ports {5353, 40000, 40001, 1, "
                "65535, 5354}, sources incl. the receiving socket's own address, global and IPv4-mapped IPv6 addresses, cache pokes at ttl/4 -1/0/+1 ms and around 1 s); "
                "per datagram compared with the model: socket, complete destination sockaddr (IPv6 flowinfo / scope id), id, flags, question section, raw class field of "
                "every record (c11net), and the bytes (c11bytes: reply constructor + C01's encoder model); "
                "non-trivial = distinct (port class, probe, QU/QM pattern, sockets, receiving family, kinds of datagrams emitted) with at least one reply")
    bt = C.Budget(ctx["tier"], 1500, 30000).n
    if ctx["widened"]:
        bt *= 3
    for name, body in C.load_corpus("C11"):
        if body.get("kind") == "trace":
            run_trace_stream(ctx, res, 0, only=[(body["seed"], body["scenario"], body.get("mode"))])
    run_fmt_stream(ctx, res)
    run_send_stream(ctx, res)
    # in chunks: a chunk's traces are dropped before the next is generated (thorough: 30 000 scenarios)
    for start in range(0, bt, 500):
        run_trace_stream(ctx, res, 0, only=[(ctx["seed"], k_) for k_ in range(start, min(bt, start + 500))])
    return res


def replay(body):
    case = body.get("case", {})
    res = _Result("C11")
    ctx = {"tier": "quick", "seed": case.get("seed", 0), "widened": False, "driver_ok": C.DRIVER.exists(), "stages": {}}
    if case.get("stream") == "tr":
        run_trace_stream(ctx, res, 0, only=[(case["seed"], case["scenario"], case.get("mode"))])
    elif case.get("stream") == "fmt":
        run_fmt_stream(ctx, res)
    else:
        run_send_stream(ctx, res)
    return {"violates": bool(res.violations), "violations": [dict(sig=v["sig"], what=v["what"]) for v in res.violations[:5]],
            "disagreements": res.disagreements[:3]}
