"""C12 -- reply timing: jitter, aggregation, one-second protection, truncated queries.

Three correspondence streams against the Lean model (lean/Zc/Model/Reply.lean):
  q   op sequences on a real `MulticastOutgoingQueue` (fake loop, forced draws, stale stamps as the
      truncated-query path produces them); state after every op and every batch compared      (`c12q`)
  cls the per-record cascade of `_QueryResponse` on a real `DNSCache`, ages around 1 s and ttl/4 (`c12cls`)
  tr  trace acceptance: a real `Zeroconf` responder under the virtual-time simulator; every atomic
      block (datagram, queue timer, truncated-query timer) is replayed through `Host.step`, which
      must find it enabled and predict its datagrams and random draws                           (`c12run`)
and the property's own sentences evaluated on the implementation's observations (stage O)."""
from __future__ import annotations

import json

from . import common as C
from . import reply_common as R
from . import vsim

TRACE = True
TRUSTED = [
    "C12/C11: what the registry answers to a question (`_get_answer_strategies`, `_answer_question`) is an input of the model "
    "(taken from the real functions with an empty known-answer set; C03's subject), as is the cache entry of each record at assembly time",
    "the event loop is modelled by its axioms (a timer fires at its due time, the clock never passes a due timer, draws lie in the requested "
    "interval); the virtual-time simulator provides them and every replayed trace is checked against them",
]
ASSUMPTIONS = ["integer-millisecond clock (sub-millisecond float behaviour is not modelled)",
               "a queued answer whose service is unregistered before its deadline need not (C08: must not) be sent any more: the oracle "
               "takes the withdrawn records from the scenario's own unregister action, not from the queue",
               "the registry does not change while a truncated query is being held (candidate answers are read when a packet arrives); "
               "it does change while answers are queued",
               "timer callbacks run exactly when due (stage C, every theorem); the scenarios numbered from LATE_BASE run the real responder on a loop "
               "whose timers fire a seeded 0..3 ms late and are judged by the oracle alone: lower bounds (20 ms, 400 ms, one second) exactly, upper "
               "bounds (500 ms, 1.2 s, hold 500 ms) plus 3 ms"]
UNREG_BASE = 1_000_000   # trace scenarios numbered from here unregister services while answers are queued
LATE_BASE = 2_000_000    # ... from here run on a loop whose timers fire a seeded 0..LATE ms late (oracle only: the model's loop facts exclude it)
LATE = 3
V6_BASE = 3_000_000      # ... from here every source is a link-local IPv6 peer (4-tuple sockaddr: the listener passes its scope id on, the
                         # responder compares its own scope-less records with scope-less copies of the known answers), mostly truncated
                         # trains whose packets list DIFFERENT known answers

GRID = [0, 0, 1, 20, 20, 60, 119, 120, 121, 200, 380, 499, 500, 501, 880, 999, 1000, 1001, 1120, 1200]
T0 = vsim.T0

# ------------------------------------------------------------------------------------------
# stream q: the real queue


class FakeLoop:
    def __init__(self):
        self.ms = T0
        self.timers = []

    def time(self):
        return self.ms / 1000.0

    def call_at(self, when, cb, *a):
        self.timers.append(round(when * 1000))


class FakeZc:
    def __init__(self, loop):
        self.loop = loop
        self.sent = []

    def async_send(self, out, *a, **k):
        self.sent.append(out)


def q_records():
    from zeroconf import _dns as d, const as k

    recs = []
    for i in range(6):
        recs.append(d.DNSPointer("_a._tcp.local.", k._TYPE_PTR, k._CLASS_IN, 4500, "s%d._a._tcp.local." % i))
        recs.append(d.DNSService("s%d._a._tcp.local." % i, k._TYPE_SRV, k._CLASS_IN | k._CLASS_UNIQUE, 120, 0, 0, 80 + i, "h%d.local." % i))
    return recs


def dict_str(d, ids):
    if not d:
        return "-"
    return ",".join("%d=%s" % (ids[r], "+".join(str(x) for x in sorted(ids[a] for a in adds))) for r, adds in d.items())


def q_state(q, loop, ids):
    gs = ";".join("%d/%d/%s" % (g.send_after, g.send_before, dict_str(g.answers, ids)) for g in q.queue) or "-"
    tm = "-" if not loop.timers else ",".join(str(t) for t in loop.timers)
    return "%s %s" % (gs, tm)


def queue_oracle(res, delayed, sends, adds_log, left, case, removals=()):
    """the property's sentences on what a real queue sent; `removals` = [(time, [record ids])]: `async_remove_answers` calls
    (registry changes): a record withdrawn between its add and its deadline is not owed any more"""
    addl, agg = (1000, 200) if delayed else (0, 500)
    for (s, ans, adds) in sends:
        if len(set(ans + adds)) != len(ans + adds):
            res.violate("C12:duplicate-in-batch", "a multicast batch carries a record twice", case)
        for r in ans:
            if not any(r in rs and c <= s and t + 20 + addl <= s <= c + agg + addl for (c, t, rs) in adds_log):
                res.violate("C12:queue-window", "record %d sent at %d outside the window of every add that queued it" % (r, s - T0), case)
    for (c, t, rs) in adds_log:
        for r in rs:
            if any(c <= u <= c + agg + addl and r in rm for (u, rm) in removals):
                continue
            if not any(r in ans and c <= s <= c + agg + addl for (s, ans, _a) in sends):
                res.violate("C12:queue-late", "record %d queued at %d not on the wire within %d ms" % (r, c - T0, agg + addl), case)
    if left:
        res.violate("C12:queue-stuck", "queue not empty and no timer armed", case)


def replay_queue_ops(res, delayed, ops):
    """re-run a stored op list (`a <clock> <stamp> <draw> <n> (<id> <adds>)*` / `f <due>`) on a real queue: adds are
    replayed as stored, timers fire whenever the real queue has one due before the next add, the rest is drained"""
    import zeroconf._handlers.multicast_outgoing_queue as mq
    from unittest import mock

    recs = q_records()
    ids = {r: i for i, r in enumerate(recs)}
    addl, agg = (1000, 200) if delayed else (0, 500)
    loop = FakeLoop()
    zc = FakeZc(loop)
    q = mq.MulticastOutgoingQueue(zc, addl, agg)
    sends, adds_log, removals = [], [], []
    draw_box = [20]

    def fire():
        loop.ms = max(loop.timers.pop(0), loop.ms)
        n0 = len(zc.sent)
        q.async_ready()
        if len(zc.sent) > n0:
            out = zc.sent[-1]
            sends.append((loop.ms, [ids[r] for r, _ in out.answers], [ids[r] for r in out.additionals]))

    with mock.patch.object(mq, "RAND_INT", lambda lo, hi: draw_box[0]), mock.patch.object(mq, "current_time_millis", lambda: float(loop.ms)):
        steps = 0
        for op in ops:
            tok = op.split()
            if tok[0] not in ("a", "r"):
                continue
            clock = int(tok[1])
            while loop.timers and loop.timers[0] < clock and steps < 1000:
                steps += 1
                fire()
            loop.ms = max(loop.ms, clock)
            if tok[0] == "r":
                rm = [] if tok[2] == "-" else [int(x) for x in tok[2].split(",")]
                q.async_remove_answers([recs[i] for i in rm])
                removals.append((loop.ms, rm))
                continue
            now, draw, n = int(tok[2]), int(tok[3]), int(tok[4])
            ans = {}
            for j in range(n):
                rid, adds = int(tok[5 + 2 * j]), tok[6 + 2 * j]
                ans[recs[rid]] = set() if adds == "-" else {recs[int(x)] for x in adds.split(",")}
            draw_box[0] = draw
            q.async_add(float(now), ans)
            adds_log.append((loop.ms, now, [ids[r] for r in ans]))
        while loop.timers and steps < 1000:
            steps += 1
            fire()
    res.evaluations += 1
    queue_oracle(res, delayed, sends, adds_log, len(q.queue), {"stream": "q", "delayed": delayed, "ops": ops}, removals)


def run_queue_stream(ctx, res, n):
    import zeroconf._handlers.multicast_outgoing_queue as mq
    from unittest import mock

    rng = C.rng_for(ctx["seed"], "c12", "q")
    recs = q_records()
    ids = {r: i for i, r in enumerate(recs)}
    lines, cases = [], []
    for case_no in range(n):
        delayed = rng.random() < 0.4
        addl, agg = (1000, 200) if delayed else (0, 500)
        loop = FakeLoop()
        zc = FakeZc(loop)
        q = mq.MulticastOutgoingQueue(zc, addl, agg)
        ops, obs, sends, adds_log, removals = [], [], [], [], []
        nops = rng.choice([2, 4, 8, 16, 30])
        rm_p = rng.choice([0, 0, 0.15, 0.3])  # registry changes (`async_remove_answers`) between the adds
        draw_box = [20]
        with mock.patch.object(mq, "RAND_INT", lambda lo, hi: draw_box[0]), \
                mock.patch.object(mq, "current_time_millis", lambda: float(loop.ms)):
            def fire():
                due = max(loop.timers.pop(0), loop.ms)  # a timer armed for the past fires now (as `call_at` does)
                loop.ms = due
                n0 = len(zc.sent)
                q.async_ready()
                b = "none"
                if len(zc.sent) > n0:
                    out = zc.sent[-1]
                    ans = {r: None for r, _ in out.answers}
                    b = ",".join("%d=" % ids[r] for r in ans)  # keys only; additionals compared below
                    sends.append((loop.ms, [ids[r] for r, _ in out.answers], [ids[r] for r in out.additionals]))
                ops.append("f %d" % due)
                return b

            for _ in range(nops):
                due = loop.timers[0] if loop.timers else None
                gap = rng.choice(GRID + [rng.randint(0, 1500)])
                if due is not None and (loop.ms + gap > due or rng.random() < 0.25):
                    if rng.random() < 0.3 and due >= loop.ms:
                        # an add at the very instant of the due timer, before it fires
                        loop.ms = due
                    else:
                        b = fire()
                        obs.append(q_state(q, loop, ids) + " " + b)
                        continue
                else:
                    loop.ms += gap
                if rm_p and rng.random() < rm_p:
                    # a service is unregistered while answers are queued: some records (queued or not, answers or additionals) are withdrawn
                    rm = sorted(rng.sample(range(len(recs)), rng.choice([1, 2, 2, 4, 6])))
                    q.async_remove_answers([recs[i] for i in rm])
                    removals.append((loop.ms, rm))
                    ops.append("r %d %s" % (loop.ms, C.natlist(rm)))
                    obs.append(q_state(q, loop, ids))
                    continue
                stale = rng.choice([0, 0, 0, 1, 50, 400, 450, 500, 620]) if rng.random() < 0.35 else 0
                now = loop.ms - stale
                draw_box[0] = rng.choice([20, 20, 21, 60, 119, 120, 120, rng.randint(20, 120)])
                k = rng.choice([1, 1, 2, 3])
                ans = {}
                for r in rng.sample(recs, k):
                    ans[r] = set(rng.sample(recs, rng.choice([0, 1, 2])))
                q.async_add(float(now), dict(ans))
                adds_log.append((loop.ms, now, [ids[r] for r in ans]))
                ops.append("a %d %d %d %d %s" % (loop.ms, now, draw_box[0], len(ans),
                                                " ".join("%d %s" % (ids[r], C.natlist(sorted(ids[a] for a in v))) for r, v in ans.items())))
                obs.append(q_state(q, loop, ids))
            # drain
            guard = 0
            while loop.timers and guard < 100:
                guard += 1
                b = fire()
                obs.append(q_state(q, loop, ids) + " " + b)
        lines.append("c12q %s %d %s" % (C.b01(delayed), len(ops), " ".join(ops)))
        cases.append((delayed, ops, obs, sends, adds_log, len(q.queue), loop.ms, removals))
    model = None
    if ctx["driver_ok"]:
        try:
            model = C.run_driver(lines)
        except C.DriverUnavailable as ex:
            res.notes.append("driver unavailable: %s" % ex)
    for i, (delayed, ops, obs, sends, adds_log, left, end, removals) in enumerate(cases):
        res.evaluations += 1
        res.count("q:delayed" if delayed else "q:aggregate")
        if removals:
            res.count("q:with-removals")
        addl, agg = (1000, 200) if delayed else (0, 500)
        case = {"stream": "q", "delayed": delayed, "ops": ops}
        # ---- C
        if model is not None:
            mo = model[i].split(" | ")
            # the model prints keys with their additionals for batches; compare keys only there
            def canon(s):
                parts = s.split(" ")
                if len(parts) == 3 and parts[2] not in ("none",):
                    # the wire order of a batch is by name (`_add_answers_additionals` sorts): compare as a set
                    parts[2] = ",".join(sorted(x.split("=")[0] + "=" for x in parts[2].split(",")))
                return " ".join(parts)
            if [canon(x) for x in mo] != [canon(x) for x in obs]:
                k = next((j for j, (a, b) in enumerate(zip(mo, obs)) if canon(a) != canon(b)), min(len(mo), len(obs)))
                res.disagree("c12q", dict(case, at=k), obs[k] if k < len(obs) else None, mo[k] if k < len(mo) else None)
        # ---- O: the window, no duplicates, everything sent
        if any(len(s[1]) > 1 or s[2] for s in sends) and len(adds_log) > 2:
            res.nontriv("q/%s/%d/%d" % (delayed, len(adds_log), len(sends)))
        queue_oracle(res, delayed, sends, adds_log, left, case, removals)


# ------------------------------------------------------------------------------------------
# stream cls: the per-record cascade


def run_cls_stream(ctx, res):
    from zeroconf import DNSCache, DNSQuestion, const as k
    from zeroconf import _dns as d
    from zeroconf._handlers.query_handler import _QueryResponse

    now = 5_000_000
    lines, exp, cases = [], [], []
    rec = lambda ttl: d.DNSService("s._a._tcp.local.", k._TYPE_SRV, k._CLASS_IN | k._CLASS_UNIQUE, ttl, 0, 0, 80, "h.local.")
    ages = [None, 0, 1, 249, 250, 251, 499, 500, 501, 749, 750, 751, 999, 1000, 1001, 1249, 1250, 1251, 29999, 30000, 30001, 1124999, 1125000, 1125001]
    for probe in (False, True):
        for us in (False, True):
            for qu in (False, True):
                for nq in (1, 2):
                    for q0 in (k._TYPE_PTR, k._TYPE_SRV, k._TYPE_A, k._TYPE_AAAA, k._TYPE_NSEC, k._TYPE_TXT, k._TYPE_ANY):
                        for ttl in (1, 2, 3, 4, 5, 120, 4500):
                            for age in ages:
                                cache = DNSCache()
                                r = rec(ttl)
                                if age is not None:
                                    e = rec(ttl)
                                    e.created = float(now - age)
                                    cache.async_add_records([e])
                                qs = [DNSQuestion("x.local.", q0, k._CLASS_IN) for _ in range(nq)]
                                qr = _QueryResponse(cache, qs, probe, float(now))
                                ans = {r: set()}
                                if not us and qu:
                                    qr.add_qu_question_response(ans)
                                else:
                                    if us:
                                        qr.add_ucast_question_response(ans)
                                    qr.add_mcast_question_response(ans)
                                qa = qr.answers()
                                got = "%s %s %s %s" % tuple(C.b01(bool(x)) for x in (qa.ucast, qa.mcast_now, qa.mcast_aggregate, qa.mcast_aggregate_last_second))
                                lines.append("c12cls %s %s %s %d %d %d %s" % (C.b01(probe), C.b01(us), C.b01(qu), nq, q0, now,
                                                                            "-" if age is None else "%d %d" % (now - age, ttl)))
                                exp.append(got)
                                cases.append(dict(stream="cls", probe=probe, ucast_source=us, qu=qu, nq=nq, q0type=q0, ttl=ttl, age=age))
    model = None
    if ctx["driver_ok"]:
        try:
            model = C.run_driver(lines)
        except C.DriverUnavailable as ex:
            res.notes.append("driver unavailable: %s" % ex)
    imm = (k._TYPE_SRV, k._TYPE_A, k._TYPE_AAAA, k._TYPE_NSEC)
    for i, case in enumerate(cases):
        res.evaluations += 1
        u, mn, ag, ls = (x == "1" for x in exp[i].split())
        if model is not None and model[i] != exp[i]:
            res.disagree("c12cls", case, exp[i], model[i])
        age, ttl = case["age"], case["ttl"]
        in1s = age is not None and age < 1000
        res.nontriv("cls/%s/%s/%s/%s/%s" % (case["probe"], case["ucast_source"], case["qu"], in1s, exp[i]))
        # the property's sentences on one record
        qm = case["ucast_source"] or not case["qu"]
        if not case["probe"] and in1s and mn:
            sig = "C12:qu-remulticast-within-1s-ttl-le-3" if (not qm and ttl <= 3) else "C12:remulticast-within-1s"
            res.violate(sig, "a record seen multicast %d ms ago (TTL %d s) is multicast again at once in reply to a %s question"
                        % (age, ttl, "QM" if qm else "QU"), case)
        if qm:
            if case["probe"] and not mn:
                res.violate("C12:probe-not-immediate", "probe reply not sent at once", case)
            if not case["probe"] and in1s and not ls:
                res.violate("C12:one-second-not-protected", "record seen %d ms ago not sent through the protected queue" % age, case)
            if not case["probe"] and not in1s:
                want_now = case["nq"] == 1 and case["q0type"] in imm
                if want_now != mn or want_now == ag:
                    res.violate("C12:immediate-vs-aggregate", "single SRV/A/AAAA/NSEC question must be answered at once, anything else aggregated", case)


# ------------------------------------------------------------------------------------------
# stream tr: traces of a real responder


def run_scenario(seed, sc_no):
    """-> dict(tr, uni, zc, errors, infos, actions); fully determined by (seed, sc_no)"""
    late = LATE if isinstance(sc_no, int) and LATE_BASE <= sc_no < V6_BASE else 0
    v6_mode = isinstance(sc_no, int) and sc_no >= V6_BASE
    sim = vsim.Sim(seed="%s/%s" % (seed, sc_no), maxdelay=0, max_late=late)
    rng = C.rng_for(seed, "c12", "tr", sc_no)
    jrng = C.rng_for(seed, "c12", "jitter", sc_no)
    sim.net.maxdelay = rng.choice([0, 0, 0, 1, 3, 20])

    def biased(lo, hi):
        x = jrng.random()
        v = lo if x < 0.2 else hi if x < 0.4 else jrng.randint(lo, hi)
        sim.draws.append((sim.now() if sim.loop else None, lo, hi, v))
        return v

    sim.randint = biased
    box = {}
    unreg_mode = isinstance(sc_no, int) and UNREG_BASE <= sc_no < LATE_BASE
    box["late"] = late
    urng = C.rng_for(seed, "c12", "unreg", sc_no)

    async def main(sim):
        import asyncio

        from zeroconf import const as k

        host = sim.make_host("A", "10.0.0.1")
        zc = host.zc
        await zc.async_wait_for_start()
        infos = R.make_infos(rng)
        while unreg_mode and len(infos) < 2:  # something must stay registered when a service is withdrawn
            infos = R.make_infos(rng)
        uni = R.Universe()
        R.seed_universe(uni, infos)
        for inf in infos:
            t = await zc.async_register_service(inf)
            await t
        await sim.sleep_ms(rng.choice([0, 0, 100, 700, 1000, 2000, 30000, 1200000]))
        tr = R.Trace(sim, host, uni)
        tr.install()
        box.update(tr=tr, uni=uni, infos=infos, zc=zc)
        actions = []
        qid = [rng.randrange(1, 60000)]
        srcs = ["10.0.0.9", "10.0.0.8"] if not v6_mode else [("fe80::9", 0, 3), ("fe80::8", 0, 3)]

        def sa(src_, port_):
            """the sockaddr handed to `datagram_received`: (ip, port), or (ip, port, flowinfo, scope id) for an IPv6 peer"""
            return (src_, port_) if isinstance(src_, str) else (src_[0], port_, src_[1], src_[2])

        def next_id():
            qid[0] = (qid[0] + 1) % 65536 or 1
            return qid[0]

        def last_mcast():
            for b in reversed(tr.blocks):
                for o in reversed(b["outs"]):
                    if o["to"][0] == R.MDNS:
                        return o["t"]
            return None

        registered = list(infos)
        tries = [0]

        def withdrawn_ids(inf):
            """what the unregistration of `inf` withdraws, from the scenario's own knowledge (RFC 6762 10.1 / C08): its PTR, SRV,
            TXT, and the address + NSEC records of its host unless another registered service shares the host"""
            rs = [inf.dns_pointer(), inf.dns_service(), inf.dns_text()]
            if not any(o is not inf and o.server.lower() == inf.server.lower() for o in registered):
                rs += list(inf._get_address_and_nsec_records(None))
            return sorted({uni.id(r) for r in rs})

        async def unreg_task(inf):
            # one task step: the checks and everything `async_unregister_service` does before its first suspension (registry,
            # both `async_remove_answers`) happen in one atomic block
            # (the last service stays: with an empty registry the listener drops every query before the responder sees it --
            #  `registry.has_entries`, outside the model)
            if inf not in registered or len(registered) < 2:
                return
            # the candidate answers of a packet are an input of the model, read when the packet arrives: while a truncated query is
            # being held the registry is left alone (ASSUMPTIONS); the withdrawal happens a few ms after the hold ends
            if host.transport.protocol._deferred:
                tries[0] += 1
                if tries[0] < 1500:
                    sim.loop.call_later(0.003, do_unreg, inf)
                return
            ids_ = withdrawn_ids(inf)
            registered.remove(inf)
            actions.append(("unreg", sim.loop.ms - T0, inf.name, ids_))
            box.setdefault("unregs", []).append((sim.loop.ms, ids_))
            await zc.async_unregister_service(inf)

        def do_unreg(inf):
            asyncio.ensure_future(unreg_task(inf))

        nqueries = rng.choice([1, 2, 3, 4, 6, 8])
        for _ in range(nqueries):
            gap = rng.choice(GRID + [rng.randint(0, 3000)])
            lm = last_mcast()
            if lm is not None and rng.random() < 0.35:
                tgt = lm + rng.choice([999, 1000, 1001, 250, 749, 750, 751, 500, 1250])
                if tgt >= sim.loop.ms:
                    gap = tgt - sim.loop.ms
            await sim.sleep_ms(gap)
            now = sim.loop.ms
            if rng.random() < 0.3:
                # poke the cache: the host "saw" a record multicast some time ago
                r = rng.choice(uni.recs)
                ttl = int(r.ttl)
                age = rng.choice([0, 1, 999, 1000, 1001, 250 * ttl - 1, 250 * ttl, 250 * ttl + 1, 500, 100])
                e = R.with_ttl(r, ttl)
                e.created = float(now - age)
                zc.cache.async_add_records([e])
                tr.pokes.append((now, uni.id(r)))
                actions.append(("poke", now - T0, uni.id(r), age))
            src = rng.choice(srcs)
            port = 5353 if (v6_mode or rng.random() < 0.85) else 40000   # (IPv6 peers: multicast replies only -- the simulated host's socket is IPv4)
            probe = rng.random() < 0.12
            if rng.random() < 0.22:
                # a truncated train exactly as `DNSOutgoing.packets()` emits it: one PTR question and so many known answers
                # that the continuation packets carry answers only (no question section)
                datas = R.build_long_query(rng, infos, uni, next_id())
                lose = rng.choice(["none", "none", "last", "last", "middle"]) if len(datas) > 1 else "none"
                if lose == "last":
                    datas = datas[:-1]
                elif lose == "middle" and len(datas) > 2:
                    del datas[rng.randrange(1, len(datas) - 1)]
                off = 0
                for j, data in enumerate(datas):
                    if j == 0:
                        host.deliver(data, sa(src, port))
                    else:
                        off += rng.choice([0, 0, 1, 5, 30, 100, 100, 399, 400, 401, 450, 499, 500, 501])
                        sim.loop.call_later(off / 1000.0, host.deliver, data, sa(src, port))
                    actions.append(("tcq-lib", now - T0 + off, src, port, "%d bytes, %s" % (len(data), data[:12].hex())))
                box["long_trains"] = box.get("long_trains", 0) + 1
            elif rng.random() < (0.75 if v6_mode else 0.3):
                # a truncated train
                npk = rng.choice([1, 2, 2, 3, 4])
                same = rng.random() < 0.3
                off = 0
                first = None
                for j in range(npk):
                    last_plain = (j == npk - 1) and rng.random() < 0.25
                    if same and first is not None:
                        data = first
                    else:
                        data, _qs, _qus = R.build_query(rng, infos, uni, next_id(), tc=not last_plain, probe=probe and j == 0,
                                                        known_p=0.9 if v6_mode else 0.6, **({"qu_p": 0} if v6_mode else {}))
                        first = first or data
                    s2 = src if rng.random() < 0.85 else rng.choice(srcs)
                    if j == 0:
                        host.deliver(data, sa(s2, port))
                    else:
                        off += rng.choice([0, 1, 100, 399, 400, 401, 450, 499, 500, 501, 30])
                        sim.loop.call_later(off / 1000.0, host.deliver, data, sa(s2, port))
                    actions.append(("tcq", now - T0 + off, s2, port, data.hex()))
            else:
                data, _qs, _qus = R.build_query(rng, infos, uni, next_id(), probe=probe, **({"qu_p": 0} if v6_mode else {}))
                host.deliver(data, sa(src, port))
                actions.append(("q", now - T0, src, port, data.hex()))
            if unreg_mode and len(registered) >= 2 and urng.random() < 0.45:
                # the registry changes while the answers to this query (and earlier ones) are queued: offsets around the jitter,
                # aggregation and protection bounds
                off = urng.choice([0, 0, 1, 19, 20, 60, 119, 120, 121, 300, 499, 500, 501, 900, 1019, 1100, 1199, 1201])
                sim.loop.call_later(off / 1000.0, do_unreg, urng.choice(registered))
        await sim.sleep_ms(9000)
        box["end_t"] = sim.loop.ms
        tr.uninstall()
        box["actions"] = actions
        await vsim.close_host(host)

    try:
        with R.wall_deadline(40):
            sim.run(main)
    except R.ScenarioTimeout as ex:
        box["timeout"] = str(ex)
    finally:
        if "tr" in box:
            box["tr"].uninstall()
    box["errors"] = [str(e.get("exception") or e.get("message")) for e in sim.errors]
    return box


def spec_classes(tr, b, parsed_by_data):
    """the property's classification of every answer of one assembly, from the implementation's own
    observations (packets, cache snapshot), written from the English sentence -- not from the model"""
    asm = b["asm"]
    # the packets the reply must be based on: all distinct packets delivered by this source (`tc_pass`), which is what
    # the listener assembled unless it lost some -- then `tc_pass` has already reported it
    pkts = [parsed_by_data[d] for d in (b.get("want") or asm["datas"])]
    # "the host saw the record multicast": the copy in the cache whatever scope id it carries (`seen_blind`, provided by reply_common
    # once the IPv6-only host of wp-C11DEEP is merged: D29); until then the store entry under the record's own key
    seen = {i: (c, ttl) for (i, c, ttl) in asm.get("seen_blind", asm["seen"])}
    for rid_, (t_s, ttl_s) in (b.get("sight") or {}).items():
        if rid_ not in seen or seen[rid_][0] < t_s:
            seen[rid_] = (t_s, ttl_s)  # a later sighting than the cache admits (see `check_trace_O`)
    probe = any(p["num_auth"] > 0 for p in pkts)
    known = {}
    for p in pkts:
        if p["num_auth"] == 0:
            for rid, ttl in p["known"]:
                known.setdefault(rid, set()).add(ttl)
    t_last, t_first, c = asm["last_now"], asm["first_now"], b["t"]
    legacy = asm["port"] != 5353
    # Reading (Props/C12.lean, header): a truncated train is ONE query; it has arrived when its last packet has.  "A query consisting of a
    # single SRV, A, AAAA or NSEC question" is therefore judged on all questions of all packets of the train -- the code looks at the
    # first packet only (`msgs[0]._questions`); where the two differ the oracle follows the sentence and reports the finding
    imm = (33, 1, 28, 47)
    nq_all = sum(p["nq"] for p in pkts)
    single = next((p["q0type"] for p in pkts if p["nq"] == 1), None) if nq_all == 1 else None
    spec_now = single in imm
    code_now = pkts[0]["nq"] == 1 and pkts[0]["q0type"] in imm
    out = []  # (rid, class, info)
    for p in pkts:
        for qu, cands in p["items"]:
            for rid, ttl, _adds, suppressible in cands:
                ks = known.get(rid, set()) if suppressible else set()
                sup = {kt * 2 > ttl for kt in ks}
                if sup == {True}:
                    continue
                dontcare = sup == {True, False}
                s = seen.get(rid)
                # the code's test (`_has_mcast_record_in_last_second`) looks at the age at the last packet's arrival ...
                age_lt_1s = s is not None and t_last - s[0] < 1000
                # ... the property speaks of a sighting "before the query arrived".  Reading (notes/agents/C12.md, O1): a query
                # has arrived when its last packet has (the sentence treats a truncated train as one query that is "held ... and then
                # answered once", and the code itself classifies at the last packet's time).  So the clause binds for every
                # sighting up to the last packet's arrival -- also one made while earlier packets of the train were being held --
                # and does not bind for a sighting made after the last packet arrived (class "free").
                in1s = age_lt_1s and s[0] <= t_last
                free = age_lt_1s and not in1s
                held_sighting = in1s and s[0] > t_first
                quarter = s is not None and s[0] + 250 * s[1] > t_last
                if qu and not legacy:
                    if not quarter:
                        cls = "qu-now"
                    else:
                        cls = "ucast"
                elif probe:
                    cls = "now"
                elif in1s:
                    cls = "prot"
                elif free:
                    cls = "free"
                elif spec_now:
                    cls = "now"
                else:
                    cls = "agg"
                out.append((rid, cls, dict(seen=s, held_sighting=held_sighting, in1s=in1s, probe=probe, dontcare=dontcare, qu=qu, t_first=t_first, t_last=t_last, c=c,
                                           adds=list(_adds), seen_all=seen, npkts=len(pkts), code_now=code_now, first_packet_rule=(code_now != spec_now))))
    return out


def tc_pass(res, tr, blocks, case, end_t, late=0):
    """Truncated queries, judged from what was *delivered* (not from what the listener chose to keep):
    every distinct TC packet of a source is held; the hold ends 400..500 ms after the last distinct packet, or at once
    when a packet without TC arrives from that source; all held packets (plus that one) are answered together, once.
    Sets b["want"] (the datagrams the reply must be based on) on the block where the answer is due.
    An exact repeat of the immediately preceding datagram within a second is C16's subject: accepted either way."""
    pending, last_t = {}, {}
    prev = None
    for b in blocks:
        t = b["t"]
        if b["kind"] == "rx":
            valid, isq, _hasqu, pkt = b["pq"]
            data, addr = b["data"], b["src"][0]
            dup_prev = prev is not None and prev[0] == data and t - prev[1] < 1000
            prev = (data, t)
            if not (valid and isq):
                continue
            tc = bool(pkt["flags"] & 0x200)
            took = b["draws_tc"] if tc else bool(b["asm"])
            if dup_prev and not took:
                continue
            at = dict(case, at_ms=t - T0, source=addr)
            if tc:
                if data in pending.get(addr, []):
                    if took:
                        res.violate("C12:tc-hold", "a repeated (not distinct) truncated packet re-armed the hold", at)
                    continue
                pending.setdefault(addr, []).append(data)
                last_t[addr] = t
                if not took:
                    res.violate("C12:tc-assembly", "a truncated packet (%d questions, %d known answers) was not held for the rest of its train" % (
                        pkt["nq"], len(pkt["known"])), at)
                if b["asm"]:
                    res.violate("C12:tc-hold", "a truncated packet was answered in its own block instead of being held 400..500 ms", at)
            else:
                want = pending.pop(addr, []) + [data]
                last_t.pop(addr, None)
                b["want"] = want
                if not b["asm"]:
                    res.violate("C12:tc-assembly", "the packet without TC that completes a query of %d packet(s) did not end the hold / was not answered" % len(want), at)
                elif b["asm"]["datas"] != want:
                    res.violate("C12:tc-assembly", "reply based on %d packet(s); %d distinct packets of this source were pending (answered once, together, is required)" % (
                        len(b["asm"]["datas"]), len(want)), at)
        elif b["kind"] == "tc":
            addr = b["addr"]
            at = dict(case, at_ms=t - T0, source=addr)
            want = pending.pop(addr, None)
            if want is None:
                res.violate("C12:tc-assembly", "truncated-query timer fired although nothing of this source is pending", at)
            else:
                b["want"] = want
                if not (400 <= t - last_t[addr] <= 500 + late):
                    res.violate("C12:tc-hold", "truncated query answered %d ms after its last distinct packet (400..500 required)" % (t - last_t[addr]), at)
                if not b["asm"] or b["asm"]["datas"] != want:
                    res.violate("C12:tc-assembly", "reply based on %s packet(s); %d distinct packets of this source were pending" % (
                        len(b["asm"]["datas"]) if b["asm"] else "no", len(want)), at)
            last_t.pop(addr, None)
    for addr in pending:
        if end_t - last_t[addr] > 600:
            res.violate("C12:tc-unanswered", "truncated query of %s (last packet at %d ms) never answered" % (addr, last_t[addr] - T0), dict(case, source=addr))


def check_trace_O(res, box, case):
    tr = box["tr"]
    blocks = tr.blocks
    L = box.get("late", 0)  # timers may run up to L ms late in this run: upper bounds get that slack, lower bounds none
    tc_pass(res, tr, blocks, case, box.get("end_t", blocks[-1]["t"] if blocks else 0), L)
    # what a datagram asks for is read when it arrives (the registry may change later: the same bytes delivered again after an
    # unregistration have other candidate answers), so the table is filled in block order and consulted at each assembly
    parsed_by_data = {}
    asms = []
    # "the host saw the record multicast": every response datagram the listener processed (not one its duplicate guard drops: the same
    # bytes as the last processed datagram, less than a second after it -- C16) is a sighting of each record in it with a non-zero TTL,
    # at the datagram's arrival.  Computed here from what was delivered, so a cache whose `created` is NOT moved by a later sighting
    # (the one-second rule would then count from an older one) is seen: `spec_classes` takes the later of this and the cache snapshot
    from zeroconf._protocol.incoming import DNSIncoming

    sight = {}
    guard = None  # (data, time, was a query with a QU question) of the last datagram the listener processed
    pokes = sorted(tr.pokes)  # the scenario rewrote the cache entry itself ("seen some time ago"): from then on the snapshot is the truth
    npoke = 0
    for i, b in enumerate(blocks):
        while npoke < len(pokes) and pokes[npoke][0] <= b["t"]:
            sight.pop(pokes[npoke][1], None)
            npoke += 1
        if b["kind"] == "rx":
            data, t = b["data"], b["t"]
            if len(data) <= 8966:
                # (what the listener processed before the trace began is unknown: until a datagram with other bytes than the first
                #  one arrives, a datagram may or may not have been dropped as a repeat -- it is then not counted as a sighting)
                unsure = guard is None or (guard[3] and guard[0] == data)
                dropped = guard is not None and guard[0] == data and t - 1000 < guard[1] and not guard[2]
                if not dropped:
                    valid_, isq_, qubits_, _pkt = b["pq"]  # (parsed outside the listener when the block was recorded)
                    guard = (data, t, bool(qubits_.startswith("1 ") and not qubits_.endswith("-")), unsure)
                    if valid_ and not isq_ and not unsure:
                        for r in DNSIncoming(data).answers():
                            rid = tr.uni.ids.get(r)
                            if rid is not None and r.ttl > 0 and (t, rid) not in tr.pokes:
                                sight[rid] = (t, int(r.ttl))
        if b["kind"] == "rx" and b.get("parsed"):
            parsed_by_data[b["data"]] = b["parsed"]
        if b["asm"] and b["asm"]["npkts"]:
            b["sight"] = dict(sight)
            asms.append((i, b, spec_classes(tr, b, parsed_by_data)))
    mcasts = []  # (block index, time, answers, adds)
    for i, b in enumerate(blocks):
        for o in b["outs"]:
            if o["mcast"]:
                mcasts.append((i, o["t"], o["ans"], o["add"]))
    # ---- no duplicates inside a batch
    for (i, s, ans, add) in mcasts:
        if len(set(ans + add)) != len(ans + add):
            res.violate("C12:duplicate-in-batch", "a multicast reply carries a record twice", case)
    # ---- everything classified is sent in its window -- unless its service is unregistered before the window closes (the
    # scenario's own unregister actions, `box["unregs"]`: then the record is no longer owed, and C08 forbids sending it)
    unregs = box.get("unregs", [])

    def withdrawn(rid, lo, hi):
        return any(lo <= u <= hi and rid in ids_ for (u, ids_) in unregs)

    for (i, b, classes) in asms:
        c = b["t"]
        for rid, cls, info in classes:
            if info["dontcare"]:
                continue
            if cls in ("agg", "free", "prot") and withdrawn(rid, c, c + (500 if cls == "agg" else 1200)):
                continue
            what = None
            if cls in ("now", "qu-now"):
                if cls == "qu-now" and info["in1s"] and not info["probe"]:
                    continue  # judged below (one-second clause wins over the QU rule)
                if not any(j == i and rid in ans for (j, s, ans, _a) in mcasts):
                    what = "answer %s of a probe / single SRV,A,AAAA,NSEC question / stale QU question not multicast in the arrival block" % tr.uni.describe(rid)
                    sig = "C12:not-immediate"
                    if cls == "now" and not info["probe"] and info["first_packet_rule"] and not info["code_now"]:
                        what = ("truncated train of %d packets whose only question (SRV/A/AAAA/NSEC) is not in its first packet: answer %s is aggregated instead of "
                                "being sent at once (the single-question test reads the first packet only)" % (info["npkts"], tr.uni.describe(rid)))
                        sig = "C12:train-first-packet-question-rule"
            elif cls == "agg":
                if not any(j >= i and c <= s <= c + 500 + L and rid in ans for (j, s, ans, _a) in mcasts):
                    what = "answer %s not multicast within 500 ms of the query" % tr.uni.describe(rid)
                    sig = "C12:aggregate-late"
            elif cls == "free":
                if not any(j >= i and c <= s <= c + 1200 + L and rid in ans for (j, s, ans, _a) in mcasts):
                    what = "answer %s not multicast within 1.2 s of the truncated query being answered" % tr.uni.describe(rid)
                    sig = "C12:protected-late"
            elif cls == "prot":
                # (that no multicast of it is *caused* by this query before sighting + 1 s is the justification rule below;
                #  an earlier query's batch may legitimately carry it sooner -- DESIGN §7 C12)
                if not any(j >= i and c <= s <= c + 1200 + L and rid in ans for (j, s, ans, _a) in mcasts):
                    what = "answer %s (seen %d ms before the query) not multicast within 1.2 s of the query" % (
                        tr.uni.describe(rid), info["t_last"] - info["seen"][0])
                    sig = "C12:protected-late"
            if what:
                res.violate(sig, what, dict(case, at_ms=c - T0))
    # ---- the one-second clause for records that travel as ADDITIONALS of a reply (the sentence says "a record ... is not multicast
    # again", whichever section).  The code never tests additionals (FINDING): reported for the reply of the query itself -- a datagram
    # that carries the query's answer `rid` and, as an additional, a record seen less than a second before the query arrived
    for (i, b, classes) in asms:
        for rid, cls, info in classes:
            if info["probe"] or info["dontcare"] or cls == "ucast":
                continue
            t_arr = info["t_last"]
            for x in info["adds"]:
                sx = info["seen_all"].get(x)
                if sx is None or not (sx[0] <= t_arr and t_arr - sx[0] < 1000):
                    continue
                hit = next(((j, m) for (j, m, ans, add) in mcasts if j >= i and rid in ans and x in add and t_arr <= m < sx[0] + 1000), None)
                if hit is not None:
                    res.violate("C12:additional-remulticast-within-1s",
                                "%s was seen multicast at %d ms; a query arrived at %d ms (%d ms later); its reply at %d ms carries %s as an additional of %s, "
                                "%d ms after the sighting (additionals are never subject to the one-second protection)" % (
                                    tr.uni.describe(x), sx[0] - T0, t_arr - T0, t_arr - sx[0], hit[1] - T0, tr.uni.describe(x), tr.uni.describe(rid),
                                    hit[1] - sx[0]), dict(case, at_ms=hit[1] - T0))
    # ---- every multicast answer has a cause
    for (j, s, ans, _add) in mcasts:
        for rid in ans:
            ok = False
            d12 = None
            finding = None
            cause = None  # the query (its classification record) that justifies this transmission
            for (i, b, classes) in asms:
                if i > j:
                    break
                c = b["t"]
                for r2, cls, info in classes:
                    if r2 != rid:
                        continue
                    just = False
                    if cls == "now" and i == j:
                        just = True
                    elif cls == "now" and i < j and not info["probe"] and info["first_packet_rule"] and not info["code_now"] and info["t_first"] + 20 <= s <= c + 500 + L:
                        # FINDING (the other half): the train's only question is not in its first packet, the code aggregates the answer
                        finding = finding or ("C12:train-first-packet-question-rule",
                                              "truncated train of %d packets whose only question (SRV/A/AAAA/NSEC) is not in its first packet: %s is aggregated and multicast at "
                                              "%d ms instead of being sent at once at %d ms" % (info["npkts"], tr.uni.describe(rid), s - T0, c - T0))
                    elif cls == "qu-now" and i == j:
                        if info["in1s"] and not info["probe"]:
                            d12 = info
                        else:
                            just = True
                    elif cls == "agg" and i <= j and info["t_last"] + 20 <= s <= c + 500 + L:
                        # (i == j: a held train answered in the block in which its hold ends, at least 400 ms after its last packet)
                        just = True
                    elif cls == "agg" and i == j and s < info["t_last"] + 20 and info["first_packet_rule"] and info["code_now"]:
                        # FINDING: a train with several questions whose FIRST packet holds a single SRV/A/AAAA/NSEC question is answered at
                        # once, all of it, without the 20-120 ms delay
                        finding = finding or ("C12:train-first-packet-question-rule",
                                              "truncated train of %d packets with several questions in all, completed by an untruncated packet at %d ms and answered in that very "
                                              "block because its FIRST packet consists of a single SRV/A/AAAA/NSEC question: %s multicast without the 20-120 ms delay" % (
                                                  info["npkts"], s - T0, tr.uni.describe(rid)))
                    elif cls == "agg" and i < j and info["npkts"] > 1 and info["t_first"] + 20 <= s < info["t_last"] + 20 and s <= c + 500 + L:
                        # FINDING: the reply to a train completed by an untruncated packet is stamped with the FIRST packet's arrival, so a
                        # timer that is already due sends it less than 20 ms after the query (its last packet) arrived
                        finding = finding or ("C12:train-reply-before-jitter",
                                              "%s answers a truncated train (first packet %d ms, last packet %d ms) and is multicast at %d ms, %d ms after the query was complete "
                                              "(no earlier than 20 ms is required; the queue entry is stamped with the first packet's arrival)" % (
                                                  tr.uni.describe(rid), info["t_first"] - T0, info["t_last"] - T0, s - T0, s - info["t_last"]))
                    elif cls == "prot" and i < j and info["t_last"] + 20 <= s <= c + 1200 + L and s >= info["seen"][0] + 1000:
                        just = True
                    elif cls == "free" and i <= j and c <= s <= c + 1200 + L:
                        just = True
                    elif info["dontcare"]:
                        just = True
                    if just and not ok:
                        ok, cause = True, (i, info)
            if ok:
                # The sentence on its own words: the transmission has a cause, but for ANOTHER query that had arrived by then (non-probe,
                # QM) the host had seen this record less than a second before that query arrived -- "is not multicast again until at least
                # one second after that sighting".  The code does not hold back a group that an earlier query queued (FINDING).
                if not cause[1]["probe"]:
                    for (i2, b2, classes2) in asms:
                        if i2 > j or i2 == cause[0]:
                            continue
                        hit = next((inf2 for (r2, cls2, inf2) in classes2 if r2 == rid and cls2 == "prot" and not inf2["probe"]
                                    and inf2["t_last"] <= s < inf2["seen"][0] + 1000), None)
                        if hit is not None:
                            res.violate("C12:pending-batch-remulticast-within-1s",
                                        "%s was seen multicast at %d ms; a query asking for it arrived at %d ms (%d ms later, classified 'seen in the last second'); "
                                        "the reply to an EARLIER query (handled at %d ms, group already pending) multicasts it at %d ms, %d ms after the sighting" % (
                                            tr.uni.describe(rid), hit["seen"][0] - T0, hit["t_last"] - T0, hit["t_last"] - hit["seen"][0],
                                            blocks[cause[0]]["t"] - T0, s - T0, s - hit["seen"][0]), dict(case, at_ms=s - T0))
                            break
                continue
            if finding is not None:
                res.violate(finding[0], finding[1], dict(case, at_ms=s - T0))
                continue
            held = next((info for (i, b2, classes) in asms if i < j for (r2, cls, info) in classes
                         if r2 == rid and cls == "prot" and info["held_sighting"]
                         and info["t_first"] + 1020 <= s <= b2["t"] + 1200 + L and s < info["seen"][0] + 1000), None)
            if held is not None and d12 is None:
                res.violate("C12:held-query-remulticast-within-1s",
                            "%s was seen multicast at %d ms, while a truncated query (first packet %d ms, last packet %d ms) was being held; the reply to that query "
                            "multicasts it again at %d ms, %d ms after the sighting (the protected queue is stamped with the first packet's arrival, "
                            "the one-second test uses the last packet's)" % (
                                tr.uni.describe(rid), held["seen"][0] - T0, held["t_first"] - T0, held["t_last"] - T0, s - T0, s - held["seen"][0]),
                            dict(case, at_ms=s - T0))
                continue
            if d12 is not None:
                ttl = d12["seen"][1]
                sig = "C12:qu-remulticast-within-1s-ttl-le-3" if ttl <= 3 else "C12:remulticast-within-1s"
                res.violate(sig, "%s seen multicast %d ms before a QU query (TTL %d s) is multicast again at once" % (
                    tr.uni.describe(rid), d12["t_last"] - d12["seen"][0], ttl), dict(case, at_ms=s - T0))
            else:
                res.violate("C12:unjustified-multicast", "%s multicast as an answer at %d ms: no query puts it there (too early, too late, suppressed by a known answer, "
                            "or repeated inside the protected second)" % (tr.uni.describe(rid), s - T0), dict(case, at_ms=s - T0))
    return len(asms), len(mcasts)


def trace_case(seed, sc_no, box):
    return {"stream": "tr", "seed": seed, "scenario": sc_no, "unregisters": (UNREG_BASE <= sc_no < LATE_BASE) if isinstance(sc_no, int) else False,
            "services": [(i.name, i.server, i.host_ttl, i.other_ttl) for i in box.get("infos", [])], "actions": box.get("actions")}


def run_trace_stream(ctx, res, n, only=None, n_extra=None):
    lines, boxes = [], []
    # n ordinary scenarios, plus n/8 in which services are unregistered while answers are queued (numbered from UNREG_BASE)
    # (the two extra families are not multiplied when the search is widened: they are slower per scenario)
    ne = n if n_extra is None else n_extra
    todo = only if only is not None else [(ctx["seed"], k) for k in range(n)] + [(ctx["seed"], UNREG_BASE + k) for k in range(ne // 8)] + \
        [(ctx["seed"], LATE_BASE + k) for k in range(ne // 16)] + [(ctx["seed"], V6_BASE + k) for k in range(ne // 16)]
    for (seed, sc_no) in todo:
        box = run_scenario(seed, sc_no)
        if "tr" not in box:
            res.evaluations += 1
            res.violate("C12:scenario-did-not-start", "the responder could not be brought up: %s %s" % (box.get("timeout"), box["errors"][:2]),
                        {"stream": "tr", "seed": seed, "scenario": sc_no})
            continue
        tr = box["tr"]
        evs = []
        for b in tr.blocks:
            b["draws_tc"] = any(lo == 400 for (lo, hi, v) in b["draws"])
            evs.append(R.block_line(tr, box["zc"], b))
            b["obs"] = R.block_obs(tr, b)
        lines.append("c12run %d %s" % (len(evs), " ".join(evs)))
        boxes.append((seed, sc_no, box))
    model = None
    if ctx["driver_ok"]:
        try:
            model = C.run_driver(lines)
        except C.DriverUnavailable as ex:
            res.notes.append("driver unavailable: %s" % ex)
    for idx, (seed, sc_no, box) in enumerate(boxes):
        res.evaluations += 1
        tr = box["tr"]
        case = trace_case(seed, sc_no, box)
        if box["errors"]:
            res.disagree("c12run", case, "exception in a callback: %s" % box["errors"][:2], "no exception")
        if tr.dead or box.get("timeout"):
            # the watchdog silenced the host: the code under test kept the event loop busy without letting time advance
            res.violate("C12:timer-livelock", "the responder stopped making progress: %s; whatever was queued is never sent (the harness muted the host to terminate)" % (
                tr.dead or box.get("timeout")), case)
        stray = [o for o in tr.orphans if not R.is_goodbye(o["data"])]
        if stray:
            res.notes.append("sends outside any block in scenario %s/%s: %d" % (seed, sc_no, len(stray)))
        if box.get("unregs"):
            res.count("tr:unregister-scenarios")
            res.count("tr:withdrawals", sum(1 for b in tr.blocks if b["kind"] == "rm"))
            res.count("tr:withdrawals-of-queued-answers", sum(1 for b in tr.blocks if b["kind"] == "rm" and b.get("hit")))
            if any(b["kind"] == "rm" and b.get("hit") for b in tr.blocks):
                res.nontriv("tr-unreg/%d/%d" % (sum(1 for b in tr.blocks if b["kind"] == "rm" and b.get("hit")), len(box["unregs"])))
        if box.get("late"):
            res.count("tr:late-timer-scenarios (oracle only)")
        if isinstance(sc_no, int) and sc_no >= V6_BASE:
            res.count("tr:ipv6-peer-scenarios")
        if model is not None and not box.get("late"):
            parts = model[idx].split(" | ")
            head, mobs = parts[0], parts[1:]
            if mobs == [""]:
                mobs = []
            iobs = [b["obs"] for b in tr.blocks]
            if not head.startswith("ok") or mobs != iobs:
                k = next((j for j, (a, b) in enumerate(zip(mobs, iobs)) if a != b), min(len(mobs), len(iobs)))
                blk = tr.blocks[k] if k < len(tr.blocks) else None
                res.disagree("c12run", dict(case, at_block=k, block=None if blk is None else dict(kind=blk["kind"], t=blk["t"] - T0)),
                             iobs[k] if k < len(iobs) else None, (head, mobs[k] if k < len(mobs) else None))
        na, nm = check_trace_O(res, box, case)
        for (rid, s_, c_, e_) in R.sighting_gaps(tr)[:2]:
            res.disagree("sightings", dict(case, at_ms=c_), "cache entry of %s at %d ms: %s" % (tr.uni.describe(rid), c_, e_),
                         "the host multicast it at %d ms: its own transmission must have re-stamped the cache" % s_)
        kinds = sorted({b["kind"] + ("+tc" if b.get("draws_tc") else "") for b in tr.blocks if b["kind"] != "rx" or b.get("parsed")})
        res.count("tr:blocks", len(tr.blocks))
        res.count("tr:assemblies", na)
        res.count("tr:multicasts", nm)
        for b in tr.blocks:
            if b["asm"] and b["asm"]["npkts"] > 1:
                res.count("tr:tc-assemblies")
        if na and nm:
            res.nontriv("tr/%s/%d/%d" % (",".join(kinds), na, nm))
        if idx < 2:
            res.sample({"scenario": sc_no, "blocks": [(b["kind"], b["t"] - T0, b["obs"]) for b in tr.blocks[:12]]})


# ------------------------------------------------------------------------------------------


def run_corpus(ctx, res):
    for name, body in C.load_corpus("C12"):
        kind = body.get("kind")
        if kind == "cls":
            pass  # the cls stream is exhaustive over its grid and contains every stored cls case
        elif kind == "trace":
            run_trace_stream(ctx, res, 0, only=[(body["seed"], body["scenario"])])
        elif kind == "d12":
            run_d12(res)
        elif kind == "q":
            replay_queue_ops(res, body["delayed"], body["ops"])
        elif kind == "script":
            run_script(res, body)


def run_d12(res):
    """D12 (DESIGN §5.2): TTL 3 s, QU question 800 ms after the last multicast -> multicast again at once"""
    import socket

    sim = vsim.Sim(seed="d12", maxdelay=0)
    box = {}

    async def main(sim):
        from zeroconf import ServiceInfo, const as k

        host = sim.make_host("A", "10.0.0.1")
        zc = host.zc
        await zc.async_wait_for_start()
        info = ServiceInfo("_a._tcp.local.", "s0._a._tcp.local.", 80, addresses=[socket.inet_aton("10.0.0.1")], server="h0.local.", host_ttl=3, other_ttl=3)
        uni = R.Universe()
        R.seed_universe(uni, [info])
        t = await zc.async_register_service(info)
        await t
        tr = R.Trace(sim, host, uni)
        tr.install()
        box.update(tr=tr, uni=uni, infos=[info], zc=zc)
        lm = max(t for (t, s, ip, p, d) in sim.net.log if ip == R.MDNS)
        await sim.sleep_until(lm + 800)
        rng = C.rng_for(0, "d12")
        data, _q, _u = R.build_query(rng, [info], uni, 77, questions=[(info.name, k._TYPE_SRV)], qu_p=1.1, known_p=0)
        host.deliver(data, ("10.0.0.9", 5353))
        box["actions"] = [("q", sim.now(), "10.0.0.9", 5353, data.hex())]
        await sim.sleep_ms(3000)
        tr.uninstall()
        await vsim.close_host(host)

    sim.run(main)
    tr = box["tr"]
    for b in tr.blocks:
        b["draws_tc"] = False
        R.block_line(tr, box["zc"], b)
        b["obs"] = R.block_obs(tr, b)
    res.evaluations += 1
    check_trace_O(res, box, {"stream": "d12", "services": [("s0._a._tcp.local.", "h0.local.", 3, 3)], "actions": box["actions"]})


def run_script(res, body):
    """a fixed scenario (corpus kind "script"): one service `s0._a._tcp.local.` on `h0.local.` (10.0.0.1, TTLs 120/4500), registered 5 s
    before `t0`; actions, times relative to t0:  ["q", t, source, [[name, type], ...], qu, tc=false]  |  ["poke", t, name, type]  (the
    host sees the service's record of that name/type multicast by somebody else at t); "draws": the library's random draws, in order"""
    import socket

    sim = vsim.Sim(seed="script", maxdelay=0)
    if body.get("draws"):
        sim.forced_draws = iter(list(body["draws"]))
    box = {}

    async def main(sim):
        from zeroconf import ServiceInfo

        host = sim.make_host("A", "10.0.0.1")
        zc = host.zc
        await zc.async_wait_for_start()
        info = ServiceInfo("_a._tcp.local.", "s0._a._tcp.local.", 80, addresses=[socket.inet_aton("10.0.0.1")], server="h0.local.")
        uni = R.Universe()
        R.seed_universe(uni, [info])
        t = await zc.async_register_service(info)
        await t
        await sim.sleep_ms(5000)
        tr = R.Trace(sim, host, uni)
        tr.install()
        box.update(tr=tr, uni=uni, infos=[info], zc=zc)
        t0 = sim.now()
        rng = C.rng_for(0, "c12-script")
        qid = 100
        for act in body["actions"]:
            await sim.sleep_until(t0 + act[1])
            if act[0] == "q":
                qid += 1
                data, _q, _u = R.build_query(rng, [info], uni, qid, questions=[tuple(x) for x in act[3]], qus=[bool(act[4])] * len(act[3]), known_p=0,
                                             tc=bool(act[5]) if len(act) > 5 else False)
                host.deliver(data, (act[2], 5353))
            elif act[0] == "poke":
                r = next(r for r in uni.recs if r.name.lower() == act[2].lower() and r.type == act[3])
                e = R.with_ttl(r, int(r.ttl))
                e.created = float(sim.loop.ms)
                zc.cache.async_add_records([e])
                tr.pokes.append((sim.loop.ms, uni.id(r)))
        await sim.sleep_ms(4000)
        box["end_t"] = sim.loop.ms
        tr.uninstall()
        await vsim.close_host(host)

    sim.run(main)
    tr = box["tr"]
    evs = []
    for b in tr.blocks:
        b["draws_tc"] = any(lo == 400 for (lo, hi, v) in b["draws"])
        evs.append(R.block_line(tr, box["zc"], b))
        b["obs"] = R.block_obs(tr, b)
    res.evaluations += 1
    case = {"stream": "script", "actions": body["actions"], "draws": body.get("draws")}
    if C.DRIVER.exists():
        try:
            m = C.run_driver(["c12run %d %s" % (len(evs), " ".join(evs))])[0].split(" | ")
            if not m[0].startswith("ok") or [x for x in m[1:] if x != ""] != [b["obs"] for b in tr.blocks]:
                res.disagree("c12run", case, [b["obs"] for b in tr.blocks][:6], m[:7])
        except C.DriverUnavailable:
            pass
    check_trace_O(res, box, case)


class _Result(C.Result):
    """keeps at most three cases per signature so that one (known) finding cannot crowd out another violation"""

    def violate(self, sig, what, case):
        n = self.dist.get("sig:" + sig, 0)
        self.dist["sig:" + sig] = n + 1
        if n < 3:
            super().violate(sig, what, case)


def run(ctx):
    res = _Result("C12")
    res.rule = ("q: op sequences (2..30 ops; gaps on the grid {0,1,20,60,119,120,121,200,380,499,500,501,880,999,1000,1001,1120,1200} and random; draws at 20/21/119/120 "
                "and random; stale stamps 0..620 ms; adds at the instant of a due timer) on both queue parameterisations; "
                "cls: full grid probe x source x QU x question count x first type x TTL {1..5,120,4500} x age {none, 0, 1, around 250/500/750/1000/1250 ms, ttl/4 of 120 and 4500}; "
                "tr: responder scenarios (1..3 services, TTLs incl. 1..5 s; 1..8 queries, 1..3 questions, QU/QM, known answers, probes, legacy port, truncated trains of 1..4 "
                "packets identical/differing from one or two sources, arrivals on the grid or aimed at 999/1000/1001 ms and ttl/4 after the last multicast, cache pokes at the same "
                "boundaries, library jitter biased to both ends); non-trivial = distinct shape (block kinds, #assemblies, #multicasts) with at least one reply")
    bq = C.Budget(ctx["tier"], 6000, 120000).n
    bt = C.Budget(ctx["tier"], 2000, 40000).n
    bt0 = bt
    if ctx["widened"]:
        bq *= 3
        bt *= 3
    run_corpus(ctx, res)
    run_cls_stream(ctx, res)
    run_queue_stream(ctx, res, bq)
    run_trace_stream(ctx, res, bt, n_extra=bt0)
    return res


def replay(body):
    case = body.get("case", {})
    res = _Result("C12")
    ctx = {"tier": "quick", "seed": case.get("seed", 0), "widened": False, "driver_ok": C.DRIVER.exists(), "stages": {}}
    if case.get("stream") == "tr":
        run_trace_stream(ctx, res, 0, only=[(case["seed"], case["scenario"])])
    elif case.get("stream") == "d12":
        run_d12(res)
    elif case.get("stream") == "cls":
        run_cls_stream(ctx, res)
        res.violations = [v for v in res.violations if all(v["case"].get(k) == case.get(k) for k in case)]
    elif case.get("stream") == "q":
        replay_queue_ops(res, case["delayed"], case["ops"])
    elif case.get("stream") == "script":
        run_script(res, case)
    else:
        return {"violates": None, "note": "unknown case"}
    return {"violates": bool(res.violations), "violations": [dict(sig=v["sig"], what=v["what"]) for v in res.violations[:5]],
            "disagreements": res.disagreements[:3]}
