"""C07 -- end-to-end discovery converges to the set of registered services.

Real `Zeroconf` instances (2-5 hosts, some started late) run under the virtual-time simulator
(`harness/vsim.py`) on a link that delays every delivery by 0..100 ms, reorders, duplicates and
drops one chosen delivery.  Every run is abstracted into a *link trace* (API calls, sends with the
PTR records / PTR questions they carry, deliveries, Added/Removed callbacks) and

  stage O  the property's own sentence is evaluated on the implementation: 30 s (>= settle = 16 s)
           after the last change every browser's live set equals the registered instances of its
           type, and a service-info lookup started from the Added callback resolves the advertised
           host, port, TXT and addresses;
  stage C  the seven single-host contracts K1..K7 (+ trace well-formedness) that are the hypotheses of
           `Zc.C07_convergence_partial` are evaluated on the real trace by an independent Python
           implementation and by the compiled Lean monitors (`zcdriver c07`); the verdicts, the derived
           state (held / live / registered per browser and service) and the conclusion are compared.  A
           contract that the real trace violates is reported by name.

Scenario JSON (`case`): {"simseed", "hosts": [{"up": t}...], "types": n, "svcs": [{"owner", "ty", + optional "ip" (v6 | dual: address
records), "other_ttl", "host_ttl", "case" (bit 0 type label / bit 1 instance label / bit 2 host name in upper case), "txt" (TXT of
about n bytes), "reuse" (re-register the same ServiceInfo object with a changed port)}...], "ops": [[t, "register" | "unregister", svc],
[t, "update", svc, {"other_ttl", "host_ttl", "rev": r}], [t, "browse", host, type | [types...], {"cases": [...]}], [t, "close", host]],
"net": {"seed", "mode", "dups", "drop": None | delivery index | {"dgram": d, "mode": "all" | "remote"}}, optional "stack" ("4" | "6" |
"46": the sockets of EVERY host), "listen" (dedicated listen socket), "horizon" / "every" (long observation), "family"}.
Times are ms since simulation start.  On hosts with two listeners (`46`, `listen`) the contracts are judged on the deliveries the listeners parsed.  A side report
(`harness/c07proj.py`) evaluates the projection hypotheses of `C07_convergence_from_models_partial` on block logs of the same runs.
"""
from __future__ import annotations

import asyncio
import functools
import json
import os
import socket
import subprocess
import sys

from . import common as C
from . import vsim

TRACE = True
TRUSTED = [
    "C07: asyncio, sockets and the link are replaced by harness/vsim.py (integer-millisecond virtual clock, fake transports, "
    "multicast loops back to the sender); the abstraction of datagrams into PTR items (harness/c07.py:abstract) is trusted",
    "C07: the contracts K1-K7 are hypotheses of the Lean theorem; they are tied to the code only by being monitored on every simulated trace",
]
ASSUMPTIONS = [
    "link: every datagram reaches every host that is up within 100 ms at least once, except the deliveries of one chosen datagram (K7)",
    "API discipline: services have unique names and one owner; update/unregister are issued on registered services; a host is closed "
    "no earlier than 400 ms after its last register/update call (after the call returned) and 300 ms after its last unregister (an application "
    "awaiting the broadcast task that unregister returns; the family unregister-then-close generates the un-awaited case, a known finding); "
    "API calls on one service are at least 1 ms apart",
    "one medium per scenario: all hosts IPv4-only, all IPv6-only (link-local, one scope id) or all dual-stack (every multicast leaves twice); "
    "links that mix IPv4-only and IPv6-capable hosts are not generated (K7 knows one medium)",
    "single loss = ONE datagram (any subset of its deliveries, up to all of them); observation horizons up to 2.5 virtual hours with "
    "PTR TTLs of 120-9000 s (expiry and refresh are in scope: K3b, KF)",
]

TYPES = ["_a._tcp.local.", "_b._tcp.local.", "_c._udp.local."]
SETTLE_MS = 16000  # the theorem's bound
WAIT_MS = 30000  # what the oracle waits (>= settle)
MDNS = vsim.MDNS_ADDR
MDNS6 = "ff02::fb"
SCOPE = 3  # scope id of the simulated link on every IPv6 socket

CFG = dict(ann=[350, 575, 800], upd=[0, 225, 450], bye=[0, 125, 250], maxDelay=100, qLo=20, qHi=120,
           qOff=[0, 1000, 5000, 14000], dupQ=999, respBefore=1000, respAfter=1200, regDelay=350,
           ptrMinTtl=1125, cleanup=10000, refresh1=750, refresh2=850, refreshEarly=10000, refreshWin=30000)


# ------------------------------------------------------------------------------------------
# scenario generation


def gen_close_family(rng):
    """a browser that starts before a registration asks its second (QM) question just after the first announcement, so the
    answer waits a second in the protected multicast queue; the owner is closed (or the service unregistered) while it waits"""
    nh = rng.choice([2, 3])
    reg_t = rng.choice([650, 680, 700, 720, 740, rng.randint(600, 800)])
    end_t = reg_t + rng.choice([1250, 1300, 1350, rng.randint(1100, 1500)])
    ops = [[rng.choice([0, 1, rng.randint(0, 40)]), "browse", 1, 0], [reg_t, "register", 0]]
    if nh == 3:
        ops.append([rng.randint(0, 60), "browse", 2, 0])
    ops.append([end_t, rng.choice(["close", "close", "unregister"]), 0])
    ops.sort(key=lambda o: (o[0], o[1]))
    return {"simseed": rng.randrange(1 << 30), "hosts": [{"up": 0} for _ in range(nh)], "types": 1, "svcs": [{"owner": 0, "ty": 0}], "ops": ops,
            "net": {"seed": rng.randrange(1 << 30), "mode": rng.choice(["extreme", "extreme", "mixed"]), "drop": None, "dups": "none"}}


def gen_flap_family(rng):
    """long horizon (a): a service flaps (register / unregister / re-register within 0-15 s) in front of browsers that were
    already there, then nothing changes for more than two virtual hours; every browser is observed every few minutes: the
    refresh machinery (75 % / 85 % / 95 % of the 4500 s PTR TTL) has to keep the re-registered instance alive"""
    nh = rng.choice([2, 2, 3])
    nsvc = rng.choice([1, 1, 2])
    svcs = [{"owner": 0, "ty": 0} for _ in range(nsvc)]
    ops = [[rng.choice([0, 1, rng.randint(0, 300)]), "browse", 1, 0]]
    if nh == 3 and rng.random() < 0.7:
        ops.append([rng.choice([0, rng.randint(0, 2000), rng.randint(0, 20000)]), "browse", 2, 0])
    for i in range(nsvc):
        t = rng.choice([400, 1000, rng.randint(350, 3000)])
        ops.append([t, "register", i])
        cur = t + 350
        flaps = rng.choice([1, 1, 2]) if i == 0 else rng.choice([0, 1])
        for _ in range(flaps):
            cur += rng.choice([1, 300, 1000, 2500, rng.randint(1, 6000)])
            ops.append([cur, "unregister", i])
            cur += rng.choice([150, 400, 1000, 1100, 2000, rng.randint(101, 5000)])
            if rng.random() < 0.3:
                svcs[i]["reuse"] = True
            ops.append([cur, "register", i])
            cur += 350
    ops.sort(key=lambda o: (o[0], o[1]))
    return {"simseed": rng.randrange(1 << 30), "hosts": [{"up": 0} for _ in range(nh)], "types": 1, "svcs": svcs, "ops": ops,
            "horizon": rng.choice([7500000, 7500000, 9000000]), "every": rng.choice([240000, 300000, 420000]), "family": "flap-long",
            "net": {"seed": rng.randrange(1 << 30), "mode": rng.choice(["uniform", "extreme", "mixed"]), "drop": None,
                    "dups": rng.choice(["none", "none", "some"])}}


def gen_late_browser_family(rng):
    """long horizon (b): browsers started 1-80 virtual minutes after the last announcement, on a host that overheard it (the
    cached PTR is fresh, stale, or expired by then) and on a host that came up later and did not; optionally an early browser
    elsewhere whose refresh traffic everybody overhears"""
    nh = rng.choice([2, 3, 3, 4])
    minute = 60000
    hosts = [{"up": 0} for _ in range(nh)]
    nsvc = rng.choice([1, 1, 2])
    svcs = [{"owner": 0, "ty": 0} for _ in range(nsvc)]
    ops = [[rng.choice([0, 1, rng.randint(0, 2000)]), "register", i] for i in range(nsvc)]
    if rng.random() < 0.3:
        ops.append([rng.randint(3000, 20000), "update", 0] + ([{"other_ttl": rng.choice(PTR_TTLS)}] if rng.random() < 0.5 else []))
    m = rng.choice([1, 5, 10, 30, 37, 38, 40, 45, 50, 56, 57, 60, 65, 70, 74, 75, 76, 80]) * minute + rng.choice([0, 1, rng.randint(0, minute)])
    if rng.random() < 0.25:
        # around the 75 % point of the default TTL (announcements at ~0.35-0.8 s + 3375 s): the browser starts after it, or so
        # shortly before it that the 75 % point falls into its start-up phase (K3b's start-up branch: the boundary is 25.119 s)
        m = 3375000 + rng.choice([-40000, -30000, -26000, -25000, -24200, -24000, -23000, -15000, -5000, -1000, 0, 500, 1000, 5000]) \
            + rng.choice([0, 350, 800, rng.randint(0, 1000)])
    ops.append([m, "browse", 1, 0])
    if nh >= 3:
        if rng.random() < 0.6:  # a host that did not overhear anything
            hosts[2]["up"] = rng.choice([rng.randint(2, 70) * minute, m + rng.randint(-minute, minute)])
            ops.append([hosts[2]["up"] + rng.choice([0, 1, rng.randint(0, 5000)]), "browse", 2, 0])
        else:
            ops.append([rng.randint(1, 75) * minute, "browse", 2, 0])
    if nh == 4 and rng.random() < 0.5:  # an early browser: its 75 % refresh question is answered by multicast
        ops.append([rng.choice([0, rng.randint(0, 5000)]), "browse", 3, 0])
    ops.sort(key=lambda o: (o[0], o[1]))
    return {"simseed": rng.randrange(1 << 30), "hosts": hosts, "types": 1, "svcs": svcs, "ops": ops,
            "horizon": rng.choice([120000, 600000, 3600000]), "every": rng.choice([60000, 120000, 300000]), "family": "late-browser",
            "net": {"seed": rng.randrange(1 << 30), "mode": rng.choice(["uniform", "extreme", "mixed"]), "drop": None,
                    "dups": rng.choice(["none", "none", "some"])}}


PTR_TTLS = [120, 600, 1125, 1126, 1200, 1500, 2000, 3000, 4500, 9000]   # other_ttl; below 1125 the cache raises it to the floor
HOST_TTLS = [None, None, 30, 120, 600]


def mixed_ttls(rng, svcs, p=0.6):
    """non-default TTLs per service (PTR/TXT: other_ttl, SRV/address: host_ttl), mixed within one type"""
    for sv in svcs:
        if rng.random() < p:
            sv["other_ttl"] = rng.choice(PTR_TTLS)
        if rng.random() < 0.3:
            sv["host_ttl"] = rng.choice(HOST_TTLS)
    return svcs


def gen_mixed_ttl_family(rng):
    """long horizon (c): a browser that has finished its start-up queries (asleep until the earliest refresh it knows) learns
    services of its type with different PTR TTLs, registered in either order (long TTL first then a shorter one: the armed wake-up
    has to move earlier; or the short one first), 1-120 s apart; observed every few minutes for 1.5-2.5 virtual hours"""
    nh = rng.choice([2, 2, 3])
    nsvc = rng.choice([2, 2, 3])
    ttls = [rng.choice(PTR_TTLS) for _ in range(nsvc)]
    if rng.random() < 0.7:  # make sure long and short are both present
        ttls[0], ttls[1] = rng.choice([4500, 9000, 3000]), rng.choice([120, 1125, 1200, 1500, 2000])
        if rng.random() < 0.5:
            ttls[0], ttls[1] = ttls[1], ttls[0]
    svcs = [{"owner": rng.choice([0, 0, nh - 1]) if nh == 3 else 0, "ty": 0, "other_ttl": ttls[i]} for i in range(nsvc)]
    for sv in svcs:
        if rng.random() < 0.3:
            sv["host_ttl"] = rng.choice(HOST_TTLS)
    ops = [[rng.choice([0, 1, rng.randint(0, 300)]), "browse", 1, 0]]
    if nh == 3 and rng.random() < 0.5:
        ops.append([rng.choice([0, rng.randint(0, 60000)]), "browse", 2, 0])
    t = rng.choice([1000, rng.randint(0, 3000), rng.randint(16000, 40000)])
    for i in range(nsvc):
        ops.append([t, "register", i])
        t += rng.choice([1000, 5000, 16000, 29000, 60000, rng.randint(400, 120000)])
    if rng.random() < 0.25:
        ops.append([t + rng.randint(0, 600000), "update", rng.randrange(nsvc)])
    if rng.random() < 0.4:  # an update that changes the PTR TTL (shorter -> longer and longer -> shorter)
        ops.append([t + rng.choice([2000, 30000, rng.randint(0, 900000)]), "update", rng.randrange(nsvc), {"other_ttl": rng.choice(PTR_TTLS)}])
    ops.sort(key=lambda o: (o[0], o[1]))
    return {"simseed": rng.randrange(1 << 30), "hosts": [{"up": 0} for _ in range(nh)], "types": 1, "svcs": svcs, "ops": ops,
            "horizon": rng.choice([5400000, 7500000, 9000000]), "every": rng.choice([120000, 240000, 300000]), "family": "mixed-ttl-long",
            "net": {"seed": rng.randrange(1 << 30), "mode": rng.choice(["uniform", "extreme", "mixed"]), "drop": None,
                    "dups": rng.choice(["none", "none", "some"])}}


def gen_unreg_close_family(rng):
    """review F2: the schedule the API discipline used to exclude -- a host unregisters its (only) service and is closed before the
    unregister's second / third goodbye is due (what the synchronous `unregister_service(info); close()` of the library's own
    example does): `_close` sets `done`, the remaining goodbyes are silently dropped"""
    nh = rng.choice([2, 3])
    nsvc = rng.choice([1, 1, 2])  # with a second service still registered the close takes 250 ms and the goodbyes usually get out
    svcs = [{"owner": 0, "ty": 0} for _ in range(nsvc)]
    ops = [[rng.choice([0, rng.randint(0, 300)]), "browse", 1, 0]]
    if nh == 3:
        ops.append([rng.randint(0, 2500), "browse", 2, 0])
    for i in range(nsvc):
        ops.append([rng.randint(300, 1200), "register", i])
    tu = rng.randint(2600, 5000)
    ops.append([tu, "unregister", 0])
    ops.append([tu + rng.choice([1, 2, 50, 124, 125, 126, 200, 249, 250, 251]), "close", 0])
    ops.sort(key=lambda o: (o[0], o[1]))
    return {"simseed": rng.randrange(1 << 30), "hosts": [{"up": 0} for _ in range(nh)], "types": 1, "svcs": svcs, "ops": ops,
            "family": "unregister-then-close",
            "net": {"seed": rng.randrange(1 << 30), "mode": rng.choice(["uniform", "extreme", "mixed"]), "drop": None, "dups": "none"}}


STACKS = ["4", "4", "4", "6", "46"]
CROSS_P = 0.02  # how often a party spells a type differently from the others (known finding: the browser matches types case-sensitively)


def draw_tcase(rng, ntypes, p=0.5):
    """the spelling of every type in a scenario (bit 0 of a `case`): 0 = `_a._tcp.local.`, 1 = `_A._tcp.local.`"""
    return [1 if rng.random() < p else 0 for _ in range(ntypes)]


def svc_case(rng, tcase, ty, p_label=0.4):
    """a service's `case`: bit 0 the scenario's spelling of its type (another one with probability CROSS_P), bits 1 / 2 an
    upper-case instance label / host name"""
    k = tcase[ty] ^ (1 if rng.random() < CROSS_P else 0)
    if rng.random() < p_label:
        k |= rng.choice([2, 4, 6])
    return k


def browse_op(rng, t, h, tys, tcase):
    """[t, "browse", h, type | [types...], {"cases": [spelling per type]}]"""
    cases = [tcase[ty] ^ (1 if rng.random() < CROSS_P else 0) for ty in (tys if isinstance(tys, list) else [tys])]
    return [t, "browse", h, tys] + ([{"cases": cases}] if any(cases) else [])


def link_variant(rng, case, p=0.4):
    """socket topology of the hosts (one medium per scenario, see ASSUMPTIONS): "4" one IPv4 socket (the default of every earlier
    case), "6" one IPv6 socket (link-local source, 4-tuple deliveries, ff02::fb), "46" both (every multicast leaves twice and is heard
    twice, by two listeners); `listen`: a dedicated listen socket next to the respond socket, as `create_sockets` builds unless
    unicast=True (multicast arrives on the listen socket, unicast on the respond socket, replies leave through the receiving one)"""
    if rng.random() < p:
        case["stack"] = rng.choice(STACKS)
        if case["stack"] != "46" and rng.random() < 0.4:
            case["listen"] = True
    return case


def gen_vocab_family(rng):
    """review escapes 2-4: names and topologies outside lower-case / one type per browser / one IPv4 socket.  A host that comes up
    after the announcements (so that its browser depends on its questions being answered) browses several types with ONE
    AsyncServiceBrowser; types, instance labels and host names are spelled in mixed case, the browser's spelling need not be the
    registration's"""
    nh = rng.choice([2, 3])
    ntypes = rng.choice([2, 3])
    late = rng.choice([1500, 3000, rng.randint(1200, 6000)])
    hosts = [{"up": 0}, {"up": late}] + ([{"up": rng.choice([0, 0, late + 500])}] if nh == 3 else [])
    nsvc = rng.randint(2, 5)
    tcase = draw_tcase(rng, ntypes, 0.6)
    svcs, ops = [], []
    for i in range(nsvc):
        ty = i % ntypes if i < ntypes else rng.randrange(ntypes)
        svcs.append({"owner": 0 if (i < 2 or nh == 2) else rng.choice([0, 2]), "ty": ty, "case": svc_case(rng, tcase, ty, 0.6)})
        if rng.random() < 0.25:
            svcs[-1]["long"] = True
        if rng.random() < 0.25:
            svcs[-1]["ip"] = rng.choice(["v6", "dual"])
        ops.append([hosts[svcs[-1]["owner"]]["up"] + rng.randint(0, 600), "register", i])
    tys = sorted(rng.sample(range(ntypes), rng.choice([2, ntypes])))
    ops.append(browse_op(rng, late + rng.choice([0, 1, 300]), 1, tys, tcase))
    if nh == 3:
        ops.append(browse_op(rng, hosts[2]["up"] + rng.randint(0, 2000), 2, rng.choice([rng.randrange(ntypes), list(range(ntypes))]), tcase))
    if rng.random() < 0.4:
        ops.append(browse_op(rng, rng.randint(0, 500), 0, list(range(ntypes)), tcase))
    if rng.random() < 0.5:
        # a service goes to a new revision and back to an earlier one (TXT rev=1 -> rev=2 -> rev=1), each step long enough after the
        # other for the cache-flush rule to apply (> 1 s + the three announcements); browsers that start later resolve from the cache
        i = rng.randrange(nsvc)
        t1 = 1000 + rng.choice([200, 600, rng.randint(0, 1500)])
        t2 = t1 + rng.choice([1800, 2500, 4000])
        ops.append([t1, "update", i, {"rev": 1}])
        ops.append([t2, "update", i, {"rev": 0}])
        if rng.random() < 0.4:
            ops.append([t2 + rng.choice([1800, 3000]), "update", i, {"rev": 1}])
        ops.append(browse_op(rng, t2 + rng.choice([5000, 9000, 30000, 60000]), rng.randrange(nh), svcs[i]["ty"], tcase))
    k = rng.random()
    if k < 0.3:
        ops.append([late + rng.choice([2000, 6000, rng.randint(500, 9000)]), "unregister", rng.randrange(nsvc)])
    elif k < 0.5:
        ops.append([late + rng.choice([2000, 6000, rng.randint(1500, 9000)]), "close", 0])
    ops.sort(key=lambda o: (o[0], o[1]))
    case = {"simseed": rng.randrange(1 << 30), "hosts": hosts, "types": ntypes, "svcs": svcs, "ops": ops, "family": "vocabulary",
            "net": {"seed": rng.randrange(1 << 30), "mode": rng.choice(["uniform", "extreme", "mixed"]), "drop": None,
                    "dups": rng.choice(["none", "none", "some"])}}
    return link_variant(rng, case, 0.6)


def gen_multipacket_family(rng, single=False):
    """review escape 5: messages that need more than one datagram.  One host owns 2-6 services whose TXT records have 300-900 bytes
    (inside the property's 1..6 services) or 21-32 small services of one type (outside it: the size at which the library's answer to a
    browser no longer fits 1460 bytes).  A browser on a host that comes up after the announcements gets its answer as a train of
    packets (PTRs first, SRV / TXT / address records spilling into the next ones); the owner is then closed (ONE goodbye message for all
    its services = a train of packets, three times) or left running"""
    nh = rng.choice([2, 3, 3])
    if single:
        # ONE service whose TXT alone exceeds a datagram, on a host nobody knows yet: its announcement is a train of packets and the
        # order of the records in it decides what a browser that is already there holds when Added fires (seeded C07-w5-seed2)
        nsvc = 1
        svcs = [{"owner": 0, "ty": 0, "txt": rng.choice([1500, 2000, 3000])}]
    elif rng.random() < 0.65:
        nsvc = rng.choice([2, 3, 4, 6])
        svcs = [{"owner": 0, "ty": 0, "txt": rng.choice([300, 600, 900, rng.randint(200, 900)])} for _ in range(nsvc)]
        if nsvc * 600 < 1500:
            svcs[0]["txt"] = 900
            svcs[1]["txt"] = 900
        if rng.random() < 0.6:  # a TXT record that alone exceeds a datagram: the announcement itself is a train of packets
            svcs[rng.randrange(nsvc)]["txt"] = rng.choice([1500, 2000, 3000])
    else:
        nsvc = rng.randint(21, 32)
        svcs = [{"owner": 0, "ty": 0} for _ in range(nsvc)]
    hosts = [{"up": 0} for _ in range(nh)]
    ops, t = [], rng.choice([0, 1, 200])
    for i in range(nsvc):
        ops.append([t, "register", i])
        t += rng.choice([1, 10, 10, 50])
    done = t + 350 + 450 + 100
    ops.append([0 if single else rng.choice([0, 0, 100, done + 1200]), "browse", 1, 0])  # (mostly before the registrations: Added fires on the announcement)
    end = done
    if nh == 3:
        hosts[2]["up"] = done + rng.choice([300, 1500, 3000])
        ops.append([hosts[2]["up"] + rng.choice([0, 1, 200]), "browse", 2, 0])
        end = hosts[2]["up"]
    if rng.random() < 0.7:
        ops.append([end + rng.choice([2000, 6000, 16000, rng.randint(1500, 16000)]), "close", 0])
    ops.sort(key=lambda o: (o[0], o[1]))
    case = {"simseed": rng.randrange(1 << 30), "hosts": hosts, "types": 1, "svcs": svcs, "ops": ops, "family": "multi-packet",
            "net": {"seed": rng.randrange(1 << 30), "mode": rng.choice(["uniform", "extreme", "mixed"]), "drop": None, "dups": "none"}}
    return link_variant(rng, case, 0.25)


def gen_addr_family(rng):
    """third review, escape mE: an `update` that moves the service to another address (the only service of its host, so that nothing
    else advertises the old one); browsers that are there before, and one that starts 5-20 s after the update and resolves from its
    host's cache -- the cache-flush rule has to have removed the old address record by then"""
    nh = rng.choice([2, 3])
    sv = {"owner": 0, "ty": 0}
    if rng.random() < 0.4:
        sv["ip"] = rng.choice(["v6", "dual"])
    if rng.random() < 0.3:
        sv["long"] = True
    tu = rng.choice([3000, 5000, rng.randint(2500, 9000)])
    ops = [[rng.choice([0, 100]), "browse", 1, 0], [rng.randint(200, 800), "register", 0], [tu, "update", 0, {"addr": 1}]]
    if rng.random() < 0.4:
        ops.append([tu + rng.choice([2000, 4000]), "update", 0, {"addr": rng.choice([0, 2])}])
    ops.append([tu + rng.choice([7000, 11000, 20000]), "browse", nh - 1, 0])
    ops.sort(key=lambda o: (o[0], o[1]))
    case = {"simseed": rng.randrange(1 << 30), "hosts": [{"up": 0} for _ in range(nh)], "types": 1, "svcs": [sv], "ops": ops, "family": "address-change",
            "net": {"seed": rng.randrange(1 << 30), "mode": rng.choice(["uniform", "extreme", "mixed"]), "drop": None, "dups": rng.choice(["none", "some"])}}
    return link_variant(rng, case, 0.3)


def gen_readdress_family(rng):
    """seeded C07-w3-seed3: the LAST service registered under a host name is unregistered (its goodbye has to withdraw the address
    records too), and 1-60 s later -- inside the 120 s the old address record would live -- the same instance, or another instance on
    that host name, is registered with another address; the lookup from the second Added must not resolve the old address"""
    nh = rng.choice([2, 3])
    two = rng.random() < 0.4
    svcs = [{"owner": 0, "ty": 0}] + ([{"owner": 0, "ty": 0}] if two else [])
    if rng.random() < 0.3:
        for sv in svcs:
            sv["ip"] = "dual"
    t1 = rng.randint(200, 800)
    tu = t1 + rng.choice([1500, 3000, rng.randint(1200, 6000)])
    tr = tu + rng.choice([1000, 1300, 5000, 20000, 60000, rng.randint(1000, 60000)])
    ops = [[rng.choice([0, 100]), "browse", 1, 0], [t1, "register", 0], [tu, "unregister", 0], [tr, "register", 1 if two else 0, {"addr": 1}]]
    if nh == 3:
        ops.append([tr + rng.choice([-500, 2000, 8000]), "browse", 2, 0])
    ops.sort(key=lambda o: (o[0], o[1]))
    case = {"simseed": rng.randrange(1 << 30), "hosts": [{"up": 0} for _ in range(nh)], "types": 1, "svcs": svcs, "ops": ops, "family": "re-address",
            "net": {"seed": rng.randrange(1 << 30), "mode": rng.choice(["uniform", "extreme", "mixed"]), "drop": None, "dups": rng.choice(["none", "some"])}}
    return link_variant(rng, case, 0.3)


def gen_case(rng, idx=0, long_p=0.05):
    if idx == 6 or (idx > 6 and rng.random() < 0.02):
        return gen_unreg_close_family(rng)
    if idx == 14 or (idx > 14 and rng.random() < 0.02):
        return gen_readdress_family(rng)
    if idx == 13 or (idx > 13 and rng.random() < 0.02):
        return gen_addr_family(rng)
    if idx in (7, 8, 9) or (idx > 9 and rng.random() < 0.08):
        return gen_vocab_family(rng)
    if idx in (10, 11, 12) or (idx > 12 and rng.random() < 0.03):
        return gen_multipacket_family(rng, single=idx == 12 or (idx > 12 and rng.random() < 0.3))
    # the first scenarios of every run are long-horizon ones (cycling through the families), then each with probability long_p
    if idx < 6:
        c = [gen_flap_family, gen_late_browser_family, gen_mixed_ttl_family][idx % 3](rng)
        if idx >= 3 and c["family"] != "mixed-ttl-long":
            mixed_ttls(rng, c["svcs"])
        return c
    r = rng.random()
    if r < 3 * long_p:
        c = [gen_flap_family, gen_late_browser_family, gen_mixed_ttl_family][int(r / long_p)](rng)
        if c["family"] != "mixed-ttl-long" and rng.random() < 0.5:
            mixed_ttls(rng, c["svcs"])
        return c
    if rng.random() < 0.12:
        return gen_close_family(rng)
    nh = rng.choice([2, 2, 3, 3, 4, 5])
    ntypes = rng.choice([1, 1, 2, 3])
    nsvc = rng.randint(1, 6)
    hosts = []
    for i in range(nh):
        up = 0
        if i >= 1 and rng.random() < 0.3:
            up = rng.choice([rng.randint(1, 3000), rng.randint(300, 1500), rng.randint(2000, 8000)])
        hosts.append({"up": up})
    ops = []
    last_reg_on_host = {}
    last_unreg_on_host = {}
    svcs = []
    tcase = draw_tcase(rng, ntypes, 0.5 if rng.random() < 0.4 else 0.0)  # 40 % of the scenarios have types in mixed case
    for s in range(nsvc):
        owner = rng.randrange(nh)
        ty = rng.randrange(ntypes)
        svcs.append({"owner": owner, "ty": ty})
        if rng.random() < 0.25:
            svcs[-1]["ip"] = rng.choice(["v6", "v6", "dual"])  # IPv6-only / dual-stack services
        k = svc_case(rng, tcase, ty, 0.25)  # mixed-case type / instance label / host name
        if k:
            svcs[-1]["case"] = k
        if rng.random() < 0.1:
            svcs[-1]["long"] = True  # an instance label of 45 bytes
        t = hosts[owner]["up"] + rng.choice([0, 1, rng.randint(0, 400), rng.randint(0, 4000), rng.randint(0, 8000)])
        ops.append([t, "register", s])
        last_reg_on_host[owner] = max(last_reg_on_host.get(owner, 0), t)
        # follow-ups: any mix of update / unregister / re-register at boundary-biased gaps after the call returns (t+350)
        k = rng.random()
        cur = t + 350
        n_follow = 0 if k < 0.3 else (1 if k < 0.7 else (2 if k < 0.9 else 3))
        registered = True
        for _ in range(n_follow):
            gap = rng.choice([1, 2, 30, 224, 225, 226, 449, 450, 451, rng.randint(1, 500), rng.randint(1, 1500), rng.randint(1, 6000)])
            cur += gap
            if registered:
                if rng.random() < 0.55:
                    ops.append([cur, "unregister", s])
                    last_unreg_on_host[owner] = max(last_unreg_on_host.get(owner, 0), cur)
                    registered = False
                else:
                    ops.append([cur, "update", s])
                    last_reg_on_host[owner] = max(last_reg_on_host.get(owner, 0), cur)
            else:
                cur += rng.choice([0, 1, 100, 350, 1001, rng.randint(0, 1500)])  # (gap >= 1 already added)
                if rng.random() < 0.4:
                    svcs[-1]["reuse"] = True  # re-register the same ServiceInfo object with a changed port
                ops.append([cur, "register", s])
                last_reg_on_host[owner] = max(last_reg_on_host.get(owner, 0), cur)
                registered = True
                cur += 350
    nb = rng.randint(1, 4)
    for b in range(nb):
        h = rng.randrange(nh)
        ty = rng.randrange(ntypes)
        t = hosts[h]["up"] + rng.choice([0, 0, rng.randint(0, 300), rng.randint(0, 2000), rng.randint(0, 9000)])
        if ntypes > 1 and rng.random() < 0.3:  # one browser object for several types
            ty = sorted(rng.sample(range(ntypes), rng.randint(2, ntypes)))
        ops.append(browse_op(rng, t, h, ty, tcase))
    if nh > 2 and rng.random() < 0.35:
        h = rng.randrange(nh)
        t = max(hosts[h]["up"] + rng.randint(500, 7000), last_reg_on_host.get(h, -400) + 400 + rng.choice([0, 1, rng.randint(0, 3000)]),
                last_unreg_on_host.get(h, 0) + 300 + rng.choice([0, 1, rng.randint(0, 3000)]))
        ops = [o for o in ops if not (_op_host(o, svcs) == h and o[0] >= t)]
        ops.append([t, "close", h])
    ops.sort(key=lambda o: (o[0], o[1]))
    mode = rng.choice(["uniform", "extreme", "mixed", "mixed"])
    net = {"seed": rng.randrange(1 << 30), "mode": mode, "drop": None, "dups": "none" if rng.random() < 0.5 else rng.choice(["some", "many"])}
    return link_variant(rng, {"simseed": rng.randrange(1 << 30), "hosts": hosts, "types": ntypes, "svcs": svcs, "ops": ops, "net": net})


def _op_host(o, svcs):
    if o[1] in ("register", "update", "unregister"):
        return svcs[o[2]]["owner"]
    return o[2]


# ------------------------------------------------------------------------------------------
# link


class Plan:
    """per-delivery delay / duplication, a pure function of (net seed, delivery index)"""

    def __init__(self, net):
        self.net = net

    def _r(self, i, salt):
        return C.rng_for(self.net["seed"], salt, i)

    def delay(self, i, salt="d"):
        r = self._r(i, salt)
        m = self.net["mode"]
        if m == "uniform":
            return r.randint(0, 100)
        if m == "extreme":
            return r.choice([0, 100])
        return r.choice([0, 0, 1, 50, 99, 100, 100, r.randint(0, 100)])

    def dup(self, i):
        d = self.net["dups"]
        if d == "none":
            return False
        return self._r(i, "dup").random() < (0.08 if d == "some" else 0.4)


def abstract(data, names):
    """datagram -> list of items: ["p", svcidx, ttl, full] / ["q", tyidx, [known svcidx...], qu]"""
    from zeroconf import DNSIncoming, const
    from zeroconf._dns import DNSAddress, DNSPointer, DNSService, DNSText

    m = DNSIncoming(data)
    if not m.valid:
        return []
    items = []
    recs = m.answers()
    if m.is_query():
        known = sorted({names[r.alias.lower()] for r in recs
                        if isinstance(r, DNSPointer) and r.type == const._TYPE_PTR and r.alias.lower() in names})
        for q in m.questions:
            if q.type == const._TYPE_PTR and q.name.lower() in TYPE_IDX:
                ty = TYPE_IDX[q.name.lower()]
                items.append(["q", ty, [k for k in known if SVC_TY[k] == ty], bool(q.unique)])
        return items
    have = {}
    for r in recs:
        key = r.name.lower()
        if isinstance(r, DNSService):
            have.setdefault(key, {})["srv"] = r.server.lower()
        elif isinstance(r, DNSText):
            have.setdefault(key, {})["txt"] = True
    addr_names = {r.name.lower() for r in recs if isinstance(r, DNSAddress)}
    for r in recs:
        if isinstance(r, DNSPointer) and r.type == const._TYPE_PTR and r.alias.lower() in names and r.name.lower() in TYPE_IDX:
            s = names[r.alias.lower()]
            hv = have.get(r.alias.lower(), {})
            full = bool("srv" in hv and "txt" in hv and hv["srv"] in addr_names)
            it = ["p", s, int(r.ttl), full]
            if it not in items:
                items.append(it)
    return items


TYPE_IDX = {t: i for i, t in enumerate(TYPES)}
SVC_TY = {}


def spell_type(ty, k=0):
    """spelling variant k of type ty: bit 0 = the service-name label in upper case (`_A._tcp.local.`).  The protocol and domain labels
    stay lower-case: the library's own validator (`service_type_name`) accepts `._tcp.local.` / `._udp.local.` only in that spelling"""
    t = TYPES[ty]
    if k & 1:
        lab, rest = t.split(".", 1)
        t = lab.upper() + "." + rest
    return t


SVC_LONG = set()  # services of the current case whose instance label is 45 bytes long (set by run_case, like SVC_TY)


def svc_name(i, ty, k=0):
    """instance name; bit 1 of k = upper-case instance label; services in SVC_LONG get a label of more than 32 bytes"""
    lab = ("S%d" if k & 2 else "s%d") % i
    if i in SVC_LONG:
        lab += "-" + ("Long" if k & 2 else "long") * 10 + "x" * (3 - len(str(i)))
    return lab + "." + spell_type(ty, k)


def host_name(h, k=0):
    """SRV target; bit 2 of k = upper-case host label"""
    return ("H%d.local." if k & 4 else "h%d.local.") % h


class Sock6(vsim.FakeSock):
    def __init__(self, fileno, addr):
        super().__init__(fileno, addr)
        self.family = socket.AF_INET6


def make_host(sim, name, idx, stack="4", listen=False):
    """a host with one socket per character of `stack` ('4' = AF_INET bound to 10.0.0.n, '6' = AF_INET6 bound to fe80::n%SCOPE) and,
    with `listen`, a dedicated listen socket (readers = [listen, respond...], senders = [respond...])"""
    from unittest import mock

    from zeroconf import Zeroconf
    import zeroconf._core as core

    host = vsim.Host(sim, name, "10.0.0.%d" % (idx + 1))
    host.ip6 = "fe80::%x" % (idx + 1)
    host.stack = stack
    base = 10 + 4 * len(sim.net.hosts)
    socks = []
    for j, fam in enumerate(stack):
        socks.append(vsim.FakeSock(base + j, (host.ip, 5353)) if fam == "4" else Sock6(base + j, (host.ip6, 5353, 0, SCOPE)))
    lsock = None
    if listen:
        lsock = vsim.FakeSock(base + 3, ("0.0.0.0", 5353)) if stack == "4" else Sock6(base + 3, ("::", 5353, 0, 0))
        host.lsock = lsock
    for sk in socks + ([lsock] if lsock is not None else []):
        vsim._sock_host[id(sk)] = host
    host.sock = socks[0]
    with mock.patch.object(core, "create_sockets", lambda *a, **k: (lsock, socks)):
        host.zc = Zeroconf(interfaces=[host.ip])
    return host


def all_addresses(info):
    from zeroconf import IPVersion

    return info.addresses_by_version(IPVersion.All)


def run_case(case, proj=False):
    """run one scenario on the real code; returns the observation dict.  proj: also record the block logs of every host's
    registry / broadcast tasks / queues, of every browser's scheduler and of every cache purge (harness/c07proj.py)"""
    from zeroconf import ServiceInfo, ServiceListener
    from zeroconf.asyncio import AsyncServiceBrowser, AsyncServiceInfo

    sim = vsim.Sim(case["simseed"], maxdelay=100)
    plan = Plan(case["net"])
    svcs = [dict(sv) for sv in case["svcs"]]  # (an `update` op may change a service's TTLs)
    SVC_LONG.clear()
    SVC_LONG.update(i for i, s in enumerate(svcs) if s.get("long"))
    names = {svc_name(i, s["ty"]).lower(): i for i, s in enumerate(svcs)}
    stack = case.get("stack", "4")
    listen = bool(case.get("listen"))
    SVC_TY.clear()
    SVC_TY.update({i: s["ty"] for i, s in enumerate(svcs)})
    SVC_LONG.clear()
    SVC_LONG.update(i for i, s in enumerate(svcs) if s.get("long"))
    trace = []  # abstract events
    memo = {}
    net = sim.net
    net.n = 0
    net.targets = []
    net.dropped = None
    hosts = [None] * len(case["hosts"])
    hstate = ["down"] * len(hosts)  # down | up | closed
    sstate = ["idle"] * len(svcs)  # idle | registering | registered
    versions = [[] for _ in svcs]  # advertised (t, port, txt, server, addr)
    cur_info = [None] * len(svcs)
    browsers = []  # one entry per (browser object, type): the link model's browsers have one type each
    real_browsers = []
    lookups = []
    skipped = []
    api_times = []
    unreg_calls = []  # [t, svc]: explicit async_unregister_service calls (never awaited by this harness)
    close_unregs = []  # [t, svc, host]: services still registered when their host is closed (withdrawn by async_close itself)
    net.refused = []
    net.dlv_seq = 0
    ignored = []  # [position in the raw trace, t, datagram, host]: deliveries the receiving listener did not parse
    drop = case["net"].get("drop")
    drop_dgram = None
    if isinstance(drop, dict):  # {"dgram": send index, "mode": "all" | "remote"}
        drop_dgram, drop = drop, None

    def now():
        return sim.now()

    def ab(data):
        it = memo.get(data)
        if it is None:
            it = memo[data] = abstract(data, names)
        return it

    def net_send(src, data, addr, fam=None):
        t = now()
        d = len(net.log)
        net.log.append((t, src.name, addr[0], addr[1], data))
        if net.on_send is not None:  # (the block recorder attributes the datagram to the block that sent it)
            net.on_send(t, src, data, addr)
        v6 = ":" in addr[0]
        if fam is None:
            fam = 6 if v6 else 4
        if v6 != (fam == 6) or (v6 and (addr[0] == MDNS6 or addr[0].lower().startswith("fe80")) and (len(addr) < 4 or addr[3] != SCOPE)):
            # what the OS refuses: a destination of the other address family, a link-local / multicast IPv6 destination without
            # the link's scope id.  Nothing leaves the host (and nothing enters the trace: a `send` is a datagram on the link)
            net.refused.append([t, src.idx, d, list(addr)])
            return
        items = ab(data)
        mc = addr[0] in (MDNS, MDNS6)
        dst = None
        if not mc:
            for h in net.hosts:
                if addr[0] == (h.ip6 if fam == 6 else h.ip):
                    dst = h.idx
            if dst is None:
                dst = 99
        trace.append([t, "send", src.idx, d, dst, items])
        for h in net.hosts:
            if str(fam) in h.stack and (mc or addr[0] == (h.ip6 if fam == 6 else h.ip)):
                i = net.n
                net.n += 1
                net.targets.append([i, d, h.idx, t])
                if i == drop:
                    net.dropped = [d, h.idx]
                    continue
                if drop_dgram is not None and drop_dgram["dgram"] == d and (drop_dgram.get("mode", "all") == "all" or h is not src):
                    # the datagram itself is lost: for every receiver ("all": at the sender, loop-back included) or for every
                    # other host ("remote": on the wire, the sender still hears itself)
                    net.dropped = ["dgram", d, drop_dgram.get("mode", "all")]
                    continue
                sim.loop.call_later(plan.delay(i) / 1000.0, deliver, h, d, src, mc, data, items, fam)
                if plan.dup(i):
                    sim.loop.call_later(plan.delay(i, "d2") / 1000.0, deliver, h, d, src, mc, data, items, fam)

    def deliver(h, d, src, mc, data, items, fam=4):
        # multicast arrives on the dedicated listen socket when the host has one, everything else on the socket of its family
        tr = h.ltransport if (mc and h.ltransport is not None) else h.by_fam.get(fam)
        if tr is None or tr.closed or hstate[h.idx] != "up":
            return
        net.dlv_seq += 1
        dlv_ev = [now(), "dlv", d, src.idx, h.idx, 1 if mc else 0, items, net.dlv_seq]  # (the 8th field orders deliveries and lookups within a ms)
        trace.append(dlv_ev)
        before = tr.protocol.last_message
        tr.protocol.datagram_received(data, (src.ip, src.port) if fam == 4 else (src.ip6, src.port, 0, SCOPE))
        if tr.protocol.last_message is before:
            # observed, not recomputed: the listener returned before parsing (duplicate-packet guard, oversize).  The link trace keeps
            # the delivery (on a one-listener host an ignored verbatim repeat is a no-op, C16); the projection report needs to know
            ignored.append([dlv_ev, now(), d, h.idx])  # (the event itself: positions are fixed once refused registrations are filtered out)

    def sendto(h, tr, data, addr=None):
        if tr.closed:
            sim.sends_after_close.append((now(), h.name, bytes(data), addr))
            return
        net_send(h, bytes(data), addr, 6 if tr.sock.family == socket.AF_INET6 else 4)

    net.send = net_send

    class L(ServiceListener):
        """the listener of ONE browser object; a browser for several types is several browsers of the link model (`b_of`)"""

        def __init__(self, zc):
            self.zc = zc
            self.b_of = {}  # type index -> model browser
            self.live = {}  # name as reported -> model browser
            self.bad = []

        def _b(self, t, n, what):
            b = self.b_of.get(TYPE_IDX.get(t.lower()))
            if b is None:
                self.bad.append([what + "-for-a-type-not-browsed", n, now()])
                b = min(self.b_of.values())
            return b

        def add_service(self, zc, t, n):
            s = names.get(n.lower())
            b = self._b(t, n, "add")
            if n in self.live:
                self.bad.append(["double-add", n, now()])
            self.live[n] = b
            trace.append([now(), "add", b, s if s is not None else -1])
            if s is not None:
                asyncio.ensure_future(lookup(b, zc, t, n, s))

        def remove_service(self, zc, t, n):
            s = names.get(n.lower())
            b = self._b(t, n, "remove")
            if n not in self.live:
                self.bad.append(["remove-without-add", n, now()])
            self.live.pop(n, None)
            trace.append([now(), "rem", b, s if s is not None else -1])

        def update_service(self, zc, t, n):
            pass

    async def lookup(b, zc, ty, name, s):
        t0 = now()
        info = AsyncServiceInfo(ty, name)
        try:
            ok = await info.async_request(zc, 3000)
        except Exception as ex:  # a closed instance raises; judged by the oracle only when the host stayed up
            ok = "exc:" + type(ex).__name__
        lookups.append({"b": b, "s": s, "t0": t0, "t1": now(), "seq1": net.dlv_seq, "ok": ok, "port": info.port, "server": info.server,
                        "txt": (info.text or b"").hex(), "addrs": sorted(a.hex() for a in all_addresses(info))})

    def make_info(i, ver):
        s = svcs[i]
        h = hosts[s["owner"]]
        kw = {}
        if s.get("other_ttl") is not None:
            kw["other_ttl"] = s["other_ttl"]  # TTL of the PTR (and TXT) record
        if s.get("host_ttl") is not None:
            kw["host_ttl"] = s["host_ttl"]  # TTL of SRV / address records
        a = s.get("addr", 0)  # (an `update` may move the service to another address: [t, "update", i, {"addr": k}])
        addrs = [socket.inet_aton(h.ip if not a else "10.0.%d.%d" % (a, s["owner"] + 1))]
        if s.get("ip") == "v6":
            addrs = [socket.inet_pton(socket.AF_INET6, "2001:db8:%x::%x" % (a, s["owner"] + 1))]
        elif s.get("ip") == "dual":
            addrs.append(socket.inet_pton(socket.AF_INET6, "2001:db8:%x::%x" % (a, s["owner"] + 1)))
        k = s.get("case", 0)
        props = {"k": "v%d" % ver, "i": str(i)}
        for j in range(0, s.get("txt", 0), 200):  # a TXT record of about `txt` bytes (items of at most 255)
            props["p%d" % (j // 200)] = "x" * min(194, s["txt"] - j)
        return ServiceInfo(spell_type(s["ty"], k), svc_name(i, s["ty"], k), 8000 + 10 * i + ver, addresses=addrs,
                           server=host_name(s["owner"], k), properties=props, **kw)

    def advertise(i, info, kind):
        versions[i].append({"t": now(), "kind": kind, "port": info.port, "server": info.server, "txt": info.text.hex(),
                            "addrs": sorted(a.hex() for a in all_addresses(info))})

    async def host_up(i):
        await sim.sleep_until(case["hosts"][i]["up"])
        h = make_host(sim, "H%d" % i, i, stack, listen)
        h.idx = i
        hosts[i] = h
        await h.zc.async_wait_for_start()
        h.by_fam = {}
        for tr in h.transports:  # (nothing is sent before the engine has started)
            tr.sendto = functools.partial(sendto, h, tr)
            if tr is not h.ltransport:
                h.by_fam[6 if tr.sock.family == socket.AF_INET6 else 4] = tr
        hstate[i] = "up"
        trace.append([now(), "up", i])
        api_times.append(now())

    async def do_op(op):
        t, kind = op[0], op[1]
        await sim.sleep_until(t)
        oh = _op_host(op, svcs)
        for _ in range(40):  # an op scheduled at the very instant its host comes up runs after the host has started
            if hstate[oh] != "down" or case["hosts"][oh]["up"] > t:
                break
            await asyncio.sleep(0)
        if kind == "browse":
            h, tys = op[2], (op[3] if isinstance(op[3], list) else [op[3]])
            opt = op[4] if len(op) > 4 and isinstance(op[4], dict) else {}
            if hstate[h] != "up":
                skipped.append(op)
                return
            lst = L(hosts[h].zc)
            for ty in tys:
                b = len(browsers)
                lst.b_of[ty] = b
                browsers.append({"host": h, "ty": ty, "listener": lst, "t": now(), "first": ty == tys[0]})
                trace.append([now(), "browse", b])
            api_times.append(now())
            cases = opt.get("cases") or [opt.get("case", 0)] * len(tys)
            for b, k in zip(sorted(lst.b_of.values()), cases):
                browsers[b]["tcase"] = k & 1
            real_browsers.append({"host": h, "br": AsyncServiceBrowser(hosts[h].zc, [spell_type(ty, k) for ty, k in zip(tys, cases)], listener=lst)})
            return
        if kind == "close":
            h = op[2]
            if hstate[h] != "up" or any(sstate[i] == "registering" and svcs[i]["owner"] == h for i in range(len(svcs))):
                skipped.append(op)
                return
            for i, s in enumerate(svcs):
                if s["owner"] == h and sstate[i] == "registered":
                    trace.append([now(), "unreg", i])
                    close_unregs.append([now(), i, h])
                    sstate[i] = "idle"
            trace.append([now(), "close", h])
            api_times.append(now())
            hstate[h] = "closed"
            await vsim.close_host(hosts[h])
            return
        i = op[2]
        h = svcs[i]["owner"]
        if hstate[h] != "up":
            skipped.append(op)
            return
        zc = hosts[h].zc
        if kind == "register":
            if sstate[i] != "idle":
                skipped.append(op)
                return
            ver = len(versions[i])
            if len(op) > 3 and isinstance(op[3], dict):  # [t, "register", i, {"addr": k}]: registered (again) with another address
                svcs[i].update(op[3])
            if cur_info[i] is not None and svcs[i].get("reuse"):
                # the application registers the SAME ServiceInfo object again after changing a plain attribute: the records the
                # object cached for its previous registration must not be what it announces and answers with now
                info = cur_info[i]
                info.port = 8000 + 10 * i + ver
            else:
                info = make_info(i, ver)
            sstate[i] = "registering"
            ev = [now(), "reg?", i]
            trace.append(ev)
            api_times.append(now())
            try:
                await zc.async_register_service(info)
            except Exception as ex:
                ev[1] = "regfail:" + type(ex).__name__
                ev.append(now())  # (when it was refused)
                sstate[i] = "idle"
                return
            ev[1] = "reg"
            ev.append(now())
            sstate[i] = "registered"
            cur_info[i] = info
            advertise(i, info, "reg")
        elif kind == "update":
            if sstate[i] != "registered":
                skipped.append(op)
                return
            rev = None
            if len(op) > 3 and isinstance(op[3], dict):  # update with new TTLs / an explicit revision: [t, "update", i, {"other_ttl": .., "rev": r}]
                svcs[i].update({k: v for k, v in op[3].items() if k != "rev"})
                rev = op[3].get("rev")
            # "rev": the port / TXT of revision r instead of a fresh one -- an application that goes back to an earlier value
            info = make_info(i, len(versions[i]) if rev is None else rev)
            trace.append([now(), "upd", i])
            api_times.append(now())
            cur_info[i] = info
            advertise(i, info, "upd")
            await zc.async_update_service(info)
        elif kind == "unregister":
            if sstate[i] != "registered":
                skipped.append(op)
                return
            trace.append([now(), "unreg", i])
            unreg_calls.append([now(), i])
            api_times.append(now())
            sstate[i] = "idle"
            await zc.async_unregister_service(cur_info[i])

    out = {}

    async def main(sim_):
        tasks = [asyncio.ensure_future(host_up(i)) for i in range(len(hosts))]
        await asyncio.sleep(0)
        tasks += [asyncio.ensure_future(do_op(op)) for op in case["ops"]]
        await asyncio.gather(*tasks)
        last = max(api_times) if api_times else 0
        out["lastChange"] = last
        # observations: once WAIT_MS after the last change, then (long-horizon cases) every `every` ms until `horizon`
        obs_times = [last + SETTLE_MS, last + SETTLE_MS + 1, last + WAIT_MS]  # exactly at the proven bound, 1 ms later, and at 30 s
        if case.get("horizon"):
            t = last + WAIT_MS
            while t < last + case["horizon"]:
                t += case.get("every", 300000)
                obs_times.append(t)
        out["observations"] = []
        for ot in obs_times:
            await sim.sleep_until(ot)
            trace.append([now(), "obs"])
            out["observations"].append({"t": now(), "final": [
                {"b": b, "host": br["host"], "ty": br["ty"], "closed": hstate[br["host"]] != "up",
                 "live": sorted(names[n.lower()] for n, bb in br["listener"].live.items() if bb == b and n.lower() in names),
                 "bad": list(br["listener"].bad) if br["first"] else []} for b, br in enumerate(browsers)]})
        out["endT"] = now()
        out["final"] = out["observations"][-1]["final"]
        out["registered"] = [i for i in range(len(svcs)) if sstate[i] == "registered"]
        out["inflight"] = [i for i in range(len(svcs)) if sstate[i] == "registering"]
        for br in real_browsers:
            if hstate[br["host"]] == "up":
                await br["br"].async_cancel()
        for i, h in enumerate(hosts):
            if h is not None and hstate[i] == "up":
                hstate[i] = "closed"
                await h.zc._async_close()

    ptap = None
    if proj:
        from . import c07proj

        ptap = c07proj.ProjTap(sim, trace)
        ptap.install()
    try:
        sim.run(main)
    finally:
        if ptap is not None:
            ptap.remove()
    if ptap is not None and not any(e[1].startswith("regfail") or e[1] == "reg?" for e in trace):
        # (positions in the block log refer to the raw trace; a run with a refused registration has entries that are filtered out below)
        out["proj"] = ptap.snapshot(hosts)
    out["trace"] = [e for e in trace if not e[1].startswith("regfail") and e[1] != "reg?"]
    out["regfail"] = [e for e in trace if e[1].startswith("regfail") or e[1] == "reg?"]
    out["lookups"] = lookups
    out["versions"] = versions
    out["skipped"] = skipped
    out["unreg_calls"] = unreg_calls
    out["close_unregs"] = close_unregs
    out["refused"] = net.refused
    pos_of = {id(e): k for k, e in enumerate(out["trace"])}
    out["ignored"] = [[pos_of[id(x[0])], x[1], x[2], x[3]] for x in ignored if id(x[0]) in pos_of]
    out["errors"] = [str(e.get("exception") or e.get("message"))[:200] for e in sim.errors]
    out["ndeliveries"] = net.n
    out["targets"] = net.targets
    out["dropped"] = net.dropped
    out["browsers"] = [{"host": b["host"], "ty": b["ty"], "t": b["t"], "tcase": b.get("tcase", 0)} for b in browsers]
    out["nsend"] = len(net.log)
    out["datagrams"] = [[t, src, ip, port, data.hex()] for (t, src, ip, port, data) in net.log]
    return out


# ------------------------------------------------------------------------------------------
# abstract trace (shared by the Python monitors and the Lean line)
#
# events (t first):  up h | close h | reg s | upd s | unreg s | browse b | send h d dst items | dlv d src h mc items
#                    add b s | rem b s        with s, b indices into case["svcs"], obs["browsers"]


def svc_of(case, i):
    if i < 0 or i >= len(case["svcs"]):
        return (98, 98, i & 0xFFFF)
    s = case["svcs"][i]
    return (s["owner"], s["ty"], i)


def norm_trace(case, obs):
    """trace with services / browsers expanded to (owner, ty, idx) / (host, ty, idx) triples"""
    brs = obs["browsers"]

    def B(b):
        return (brs[b]["host"], brs[b]["ty"], b)

    def S(i):
        return svc_of(case, i)

    def items(its):
        o = []
        for it in its:
            if it[0] == "p":
                o.append(("p", S(it[1]), it[2], bool(it[3])))
            else:
                o.append(("q", it[1], tuple(S(k) for k in it[2]), bool(it[3])))
        return tuple(o)

    tr = []
    for e in obs["trace"]:
        t, k = e[0], e[1]
        if k in ("up", "close"):
            tr.append((t, k, e[2]))
        elif k in ("reg", "upd", "unreg"):
            tr.append((t, k, S(e[2])))
        elif k == "browse":
            tr.append((t, k, B(e[2])))
        elif k == "send":
            tr.append((t, k, e[2], e[3], e[4], items(e[5])))
        elif k == "dlv":
            tr.append((t, k, e[2], e[3], e[4], bool(e[5]), items(e[6])))
        elif k in ("add", "rem"):
            tr.append((t, k, B(e[2]), S(e[3])))
        elif k == "obs":
            tr.append((t, k))
    return tr


def lean_line(tr, endT):
    def S(s):
        return "%d %d %d" % s

    def its(items):
        o = [str(len(items))]
        for it in items:
            if it[0] == "p":
                o.append("p %s %d %s" % (S(it[1]), it[2], C.b01(it[3])))
            else:
                o.append("q %d %d %s %s" % (it[1], len(it[2]), " ".join(S(k) for k in it[2]) if it[2] else "", C.b01(it[3])))
        return " ".join(x for x in o if x != "")

    out = ["c07", str(endT), str(len(tr))]
    for e in tr:
        t, k = e[0], e[1]
        if k in ("up", "close"):
            out.append("%s %d %d" % (k, t, e[2]))
        elif k in ("reg", "upd", "unreg", "browse"):
            out.append("%s %d %s" % (k, t, S(e[2])))
        elif k == "send":
            out.append("send %d %d %d %s %s" % (t, e[2], e[3], "-" if e[4] is None else str(e[4]), its(e[5])))
        elif k == "dlv":
            out.append("dlv %d %d %d %d %s %s" % (t, e[2], e[3], e[4], C.b01(e[5]), its(e[6])))
        elif k == "obs":
            out.append("obs %d" % t)
        else:
            out.append("%s %d %s %s" % (k, t, S(e[2]), S(e[3])))
    return " ".join(" ".join(out).split())


# ------------------------------------------------------------------------------------------
# Python reference implementation of the contracts (mirrors lean/Zc/Model/Link.lean; written independently)


def ptr_of(items, s):
    for it in items:
        if it[0] == "p" and it[1] == s:
            return it[2]
    return None


def pos_full(items, s):
    for it in items:
        if it[0] == "p" and it[1] == s:
            return it[2] > 0 and it[3]
    return False


def held(tr, h, s):
    v = False
    for e in tr:
        if e[1] == "dlv" and e[4] == h:
            p = ptr_of(e[6], s)
            if p is not None:
                v = p > 0
    return v


def last_ptr(tr, h, s):
    """(ttl, time) of the last PTR(s) processed by h, or None"""
    v = None
    for e in tr:
        if e[1] == "dlv" and e[4] == h:
            p = ptr_of(e[6], s)
            if p is not None:
                v = (p, e[0])
    return v


def eff_ttl(ttl, cfg=None):
    return max(ttl, (cfg or CFG)["ptrMinTtl"]) * 1000


def unexpired(tr, h, s, T, grace, cfg=None):
    v = last_ptr(tr, h, s)
    return True if v is None else T < v[1] + eff_ttl(v[0], cfg) + grace


def live(tr, b, s):
    v = False
    for e in tr:
        if e[1] in ("add", "rem") and e[2] == b and e[3] == s:
            v = e[1] == "add"
    return v


def registered(tr, s):
    v = False
    for e in tr:
        if e[1] in ("reg", "upd") and e[2] == s:
            v = True
        elif e[1] == "unreg" and e[2] == s:
            v = False
    return v


def last_change(tr):
    ts = [e[0] for e in tr if e[1] in ("up", "close", "reg", "upd", "unreg", "browse")]
    return max(ts) if ts else 0


def monitors(tr, endT, cfg=CFG):
    """name -> list of witnesses of violation (empty = contract holds on this trace)"""
    bad = {k: [] for k in ("WF", "K1", "K2", "K3", "K4", "K5", "K6", "K7", "K5a", "K6f", "K3b", "KF")}
    ev = lambda k: [e for e in tr if e[1] == k]
    ups, closes, regs, upds, unregs, browses, sends, dlvs = (ev(k) for k in ("up", "close", "reg", "upd", "unreg", "browse", "send", "dlv"))
    D = cfg["maxDelay"]

    def up_at(h, t):
        return any(u[2] == h and u[0] <= t for u in ups)

    def up_before(h, t):
        return any(u[2] == h and u[0] < t for u in ups)

    def closed_by(h, t):
        return any(c[2] == h and c[0] <= t for c in closes)

    def never_closed(h):
        return not any(c[2] == h for c in closes)

    # ---- WF
    for a, b in zip(tr, tr[1:]):
        if a[0] > b[0]:
            bad["WF"].append(["unsorted", a[0], b[0]])
    for e in tr:
        if e[0] > endT:
            bad["WF"].append(["after-end", e[0]])
    for r in regs:
        s = r[2]
        if not up_at(s[0], r[0]):
            bad["WF"].append(["register-on-down-host", r[0], s])
        for c in closes:
            if c[2] == s[0] and not (r[0] < c[0] and any(u[2] == s and r[0] < u[0] <= c[0] for u in unregs)):
                bad["WF"].append(["register-vs-close", r[0], c[0], s])
    for b in browses:
        if not up_at(b[2][0], b[0]):
            bad["WF"].append(["browse-on-down-host", b[0], b[2]])
    for u in upds:
        s = u[2]
        if not any(r[2] == s and r[0] + cfg["regDelay"] <= u[0] and not any(x[2] == s and r[0] <= x[0] <= u[0] for x in unregs) for r in regs):  # noqa
            bad["WF"].append(["update-unregistered", u[0], s])
    regevs = regs + upds + unregs
    for i, a in enumerate(regevs):
        for b in regevs[i + 1:]:
            if a[2] == b[2] and a[0] == b[0]:
                bad["WF"].append(["same-instant-api-calls-on-one-service", a[0], a[2]])

    # ---- K7
    for e in dlvs:
        t, _, d, src, h, mc, items = e
        ok = any(s[3] == d and s[2] == src and s[5] == items and s[0] <= t <= s[0] + D
                 and ((s[4] is None) == mc) and (s[4] is None or s[4] == h) for s in sends)
        if not ok or not up_at(h, t):
            bad["K7"].append(["delivery-without-send-in-100ms", t, d, h])
    hostset = []
    for u in ups:
        if u[2] not in hostset:
            hostset.append(u[2])
    missing = []
    for s in sends:
        t, _, src, d, dst, items = s
        if t + D > endT:
            continue
        for h in hostset:
            if (dst is None or dst == h) and up_before(h, t) and not closed_by(h, t + D):
                if not any(e[2] == d and e[4] == h and e[6] == items and t <= e[0] <= t + D for e in dlvs):
                    missing.append((d, t, h))
    if any((a[0], a[1]) != (b[0], b[1]) for a in missing for b in missing):  # all missing deliveries are of ONE datagram
        bad["K7"].append(["deliveries-of-more-than-one-datagram-missing", missing[:4]])

    # ---- K6 / K2 safety
    def reg_since(s, x, y_excl=None, y_incl=None):
        for r in regs:
            if r[2] == s and r[0] + cfg["regDelay"] <= x:
                if y_excl is not None and not any(u[2] == s and r[0] <= u[0] < y_excl for u in unregs):
                    return True
                if y_incl is not None and not any(u[2] == s and r[0] < u[0] <= y_incl for u in unregs):
                    return True
        return False

    def ptr_svcs(items):
        return [it[1] for it in items if it[0] == "p"]

    for sd in sends:
        t, _, h, d, dst, items = sd
        for s in ptr_svcs(items):
            ttl = ptr_of(items, s)  # the first PTR item for s decides (a datagram never carries two)
            if ttl > 0:
                if s[0] != h or not reg_since(s, t, y_excl=t):
                    bad["K6"].append(["positive-ptr-while-not-registered", t, h, s])
            else:
                if s[0] != h or not any(u[2] == s and u[0] <= t <= u[0] + cfg["bye"][-1] for u in unregs):
                    bad["K2"].append(["goodbye-without-unregister", t, h, s])

    # ---- K6full / K5added (the lookup from Added)
    for sd in sends:
        for s in ptr_svcs(sd[5]):
            if ptr_of(sd[5], s) > 0 and not pos_full(sd[5], s):
                bad["K6f"].append(["positive-ptr-without-srv-txt-address", sd[0], sd[2], s])
    for e in tr:
        if e[1] == "add":
            b, s = e[2], e[3]
            if not any(x[4] == b[0] and x[0] <= e[0] and (ptr_of(x[6], s) or 0) > 0 for x in dlvs):
                bad["K5a"].append(["added-without-processed-ptr", e[0], b, s])

    def has_send(h, t, pred, mc_only=True):
        return any(sd[2] == h and sd[0] == t and (sd[4] is None or not mc_only) and pred(sd[5]) for sd in sends)

    # ---- K2 liveness
    for u in unregs:
        s = u[2]
        for off in cfg["bye"]:
            if u[0] + off <= endT and not has_send(s[0], u[0] + off, lambda items: ptr_of(items, s) == 0):
                bad["K2"].append(["goodbye-missing", u[0], off, s])

    # ---- K1
    def later_regev(s, t, t2, pos):
        # another register/update/unregister event of s at a time in (t, t2]  (W5: such events have distinct times)
        return any(e[1] in ("reg", "upd", "unreg") and e[2] == s and t < e[0] <= t2 for e in tr)

    for pos, e in enumerate(tr):
        if e[1] not in ("reg", "upd"):
            continue
        s = e[2]
        offs = cfg["ann"] if e[1] == "reg" else cfg["upd"]
        if e[0] + offs[-1] > endT or later_regev(s, e[0], e[0] + offs[-1], pos):
            continue
        for off in offs:
            if not has_send(s[0], e[0] + off, lambda items: pos_full(items, s)):
                bad["K1"].append(["announcement-missing", e[0], off, s])

    # ---- K3
    def received(h, s, t):
        return any(e[4] == h and e[0] <= t and (ptr_of(e[6], s) or 0) > 0 for e in dlvs)

    def qm_item(items, ty, h, t, qu):
        return any(it[0] == "q" and it[1] == ty and it[3] == qu and all(received(h, k, t) for k in it[2]) for it in items)

    for b in browses:
        t, _, br = b
        h, ty, _ = br
        if not never_closed(h):
            continue
        for k, off in enumerate(cfg["qOff"]):
            lo, hi = t + cfg["qLo"] + off, t + cfg["qHi"] + off
            if hi > endT:
                continue
            if k == 0:
                ok = any(sd[2] == h and sd[4] is None and lo <= sd[0] <= hi and qm_item(sd[5], ty, h, sd[0], True) for sd in sends)
            else:
                # a heard question suppresses the host's own if its known answers are among the host's own when the own question is
                # due (RFC 6762 7.3) - up to dupQ later, so `received` is taken at the end of the window for the heard alternative
                ok = any(sd[2] == h and sd[4] is None and lo - cfg["dupQ"] <= sd[0] <= hi and qm_item(sd[5], ty, h, sd[0], False) for sd in sends) \
                    or any(e[4] == h and e[5] and lo - cfg["dupQ"] <= e[0] <= hi and qm_item(e[6], ty, h, hi, False) for e in dlvs)
            if not ok:
                bad["K3"].append(["query-opportunity-missing", t, k, br])

    # ---- K4
    svcset = []
    for r in regs:
        if r[2] not in svcset:
            svcset.append(r[2])
    for e in dlvs:
        a, _, d, src, h, mc, items = e
        if a + cfg["respAfter"] > endT:
            continue
        for it in items:
            if it[0] != "q":
                continue
            for s in svcset:
                if s[0] == h and s[1] == it[1] and s not in it[2] and reg_since(s, a - cfg["respBefore"], y_incl=a + cfg["respAfter"]):
                    ok = any(sd[2] == h and a - cfg["respBefore"] <= sd[0] <= a + cfg["respAfter"]
                             and (sd[4] is None or (it[3] and sd[4] == src))
                             and (ptr_of(sd[5], s) or 0) > 0 for sd in sends)
                    if not ok:
                        bad["K4"].append(["query-unanswered", a, h, s, it[3]])

    # ---- K5: at every instant at which something relevant happened or the observer looked (and at the end), for browsers on
    # hosts not closed so far: heldFresh /\ type -> live -> heldGrace /\ type   (held = last PTR positive; Fresh = unexpired;
    # Grace = expired less than one cache-cleanup period ago: the Removed callback fires at the cleanup)
    def relevant(e):
        return (e[1] == "dlv" and any(it[0] == "p" for it in e[6])) or e[1] in ("add", "rem", "browse", "close", "obs")

    cuts = sorted({e[0] for e in tr if relevant(e)} | {endT})
    lastm, livem, brs, closed, universe = {}, {}, [], set(), []
    i = 0
    for T in cuts:
        while i < len(tr) and tr[i][0] <= T:
            e = tr[i]
            i += 1
            if e[1] == "dlv":
                for sv in ptr_svcs(e[6]):
                    if sv not in universe:
                        universe.append(sv)
                    lastm[(e[4], sv)] = (ptr_of(e[6], sv), e[0])
            elif e[1] in ("add", "rem"):
                livem[(e[2], e[3])] = e[1] == "add"
                if e[3] not in universe:
                    universe.append(e[3])
            elif e[1] == "browse":
                brs.append(e[2])
            elif e[1] == "close":
                closed.add(e[2])
        for b in brs:
            if b[0] in closed:
                continue
            for sv in universe:
                lp = lastm.get((b[0], sv))
                heldv = lp is not None and lp[0] > 0
                fresh = heldv and T < lp[1] + eff_ttl(lp[0], cfg)
                grace = heldv and T < lp[1] + eff_ttl(lp[0], cfg) + cfg["cleanup"]
                lv = livem.get((b, sv), False)
                if (fresh and sv[1] == b[1] and not lv) or (lv and not (grace and sv[1] == b[1])):
                    bad["K5"].append(["live-differs-from-cache", T, b, sv, lv, [heldv, fresh, grace]])

    # ---- K3b: refresh.  A browsing host that processed PTR(s) TTL>0 at t (and no PTR(s) since, up to the end of the window)
    # asks for the type again without listing s, within refreshWin of t + 75% / 85% TTL (or of the browser's start if later)
    def asks_without(items, ty, sv):
        return any(it[0] == "q" and it[1] == ty and not it[3] and sv not in it[2] for it in items)

    for bw in browses:
        tb, _, br = bw
        h, ty, _ = br
        if not never_closed(h):
            continue
        for x in dlvs:
            if x[4] != h:
                continue
            for sv in ptr_svcs(x[6]):
                ttl = ptr_of(x[6], sv)
                if sv[1] != ty or not ttl > 0:
                    continue
                e_s = eff_ttl(ttl, cfg) // 1000
                for second in (False, True):
                    # the browser had finished its start-up phase before the earliest possible schedule of the 75 % query
                    # (75 % - 10 s): windows around 75 % / 85 % (10 s + 999 ms early: "avoid churn" keeps a schedule within 10 s
                    # of the new 75 % point — on either side; 30 s late: kept schedule + two passes each at most 10 s late);
                    # it started later, or so shortly before that the 75 % point falls into its start-up phase (no refresh pass
                    # runs then): its 3rd / 4th start-up question (the record is stale by then and is not listed)
                    if tb + cfg["qHi"] + cfg["qOff"][3] + cfg["refreshEarly"] + cfg["dupQ"] <= x[0] + cfg["refresh1"] * e_s:
                        due = x[0] + (cfg["refresh2"] if second else cfg["refresh1"]) * e_s
                        # (2 * dupQ: a heard question suppresses, and the cached record may be up to 999 ms older than this
                        # delivery - the listener does not parse a datagram byte-identical to the one parsed < 1 s ago)
                        a, hi = due - cfg["refreshEarly"] - 2 * cfg["dupQ"], due + cfg["refreshWin"]
                    else:
                        off = cfg["qOff"][3 if second else 2]
                        a, hi = tb + cfg["qLo"] + off - cfg["dupQ"], tb + cfg["qHi"] + off
                    if hi > endT:
                        continue
                    # the record is still the last PTR(s) the host processed, in trace order (a record processed later in the
                    # same millisecond supersedes: lastPtrIs)
                    upto = [e for e in dlvs if e[4] == h and ptr_of(e[6], sv) is not None and e[0] <= hi]
                    if not upto or upto[-1] != x:
                        continue
                    ok = any(sd[2] == h and sd[4] is None and a <= sd[0] <= hi and asks_without(sd[5], ty, sv) for sd in sends) \
                        or any(e[4] == h and e[5] and a <= e[0] <= hi and asks_without(e[6], ty, sv) for e in dlvs)
                    if not ok:
                        bad["K3b"].append(["held-ptr-not-requeried", x[0], "85%" if second else "75%", br, sv])

    # ---- KF: on a browsing host the PTR of a registered instance of its type is unexpired at the end of the window
    dlv_svcs = []
    for e in dlvs:
        for sv in ptr_svcs(e[6]):
            if sv not in dlv_svcs:
                dlv_svcs.append(sv)
    for bw in browses:
        br = bw[2]
        if not never_closed(br[0]):
            continue
        for sv in dlv_svcs:
            if sv[1] == br[1] and registered(tr, sv) and not unexpired(tr, br[0], sv, endT, 0, cfg):
                bad["KF"].append(["registered-instance-expired-on-browsing-host", endT, br, sv])
    return bad


def conclusion(tr, endT=None):
    """the theorem's conclusion at every observation instant >= lastChange + settle and at the end of the window: list of
    (T, browser, svc) where live != registered-of-type on the prefix up to T"""
    closes = {e[2] for e in tr if e[1] == "close"}
    svcs = []
    for e in tr:
        if e[1] in ("reg", "add", "rem"):
            s = e[2] if e[1] == "reg" else e[3]
            if s not in svcs:
                svcs.append(s)
    if endT is None:
        endT = tr[-1][0] if tr else 0
    lc = last_change(tr)
    out = []
    brs = [e[2] for e in tr if e[1] == "browse" and e[2][0] not in closes]
    for T in [e[0] for e in tr if e[1] == "obs"] + [endT]:
        if T < lc + SETTLE_MS:
            continue
        p = [e for e in tr if e[0] <= T]
        for b in brs:
            for s in svcs:
                if live(p, b, s) != (registered(p, s) and s[1] == b[1]):
                    out.append((T, b, s))
    return out


# ------------------------------------------------------------------------------------------
# oracle (stage O) on the implementation's own observations


def oracle(case, obs):
    """list of (sig, what)"""
    v = []
    svcs = case["svcs"]
    reg = set(obs["registered"])
    tr = obs["trace"]
    seen = set()
    for ob in obs.get("observations") or [{"t": obs["endT"], "final": obs["final"]}]:
        after = ob["t"] - obs["lastChange"]
        for f in ob["final"]:
            if f["closed"]:
                continue
            want = sorted(i for i in reg if svcs[i]["ty"] == f["ty"])
            got = f["live"]
            if got != want:
                extra = sorted(set(got) - set(want))
                miss = sorted(set(want) - set(got))
                # (third review, point 3: EVERY extra / missing instance is judged, not the first one -- a known finding on one
                # instance must not hide a fresh violation on another instance of the same browser)
                for x0 in extra:
                    if ("x", f["b"], x0) in seen:
                        continue
                    seen.add(("x", f["b"], x0))
                    cause = resurrection_cause(case, obs, x0, f["host"])
                    v.append(("C07:not-removed:" + cause,
                              "browser %d on H%d still reports s%d %d ms after the last change although it is not registered (%s)"
                              % (f["b"], f["host"], x0, after, cause)))
                for m0 in miss:
                    if ("m", f["b"], m0) in seen:
                        continue
                    seen.add(("m", f["b"], m0))
                    miss = [m0] + [x for x in miss if x != m0]
                    # was it reported (Added, after its last registration) and taken away again, or never reported?
                    last_reg = max([e[0] for e in tr if e[1] == "reg" and e[2] == miss[0]] or [0])
                    cbs = [e for e in tr if e[1] in ("add", "rem") and e[2] == f["b"] and e[3] == miss[0] and e[0] >= last_reg and e[0] <= ob["t"]]
                    if cbs and cbs[-1][1] == "rem" and any(c[1] == "add" for c in cbs):
                        v.append(("C07:removed-while-registered",
                                  "browser %d on H%d reported registered s%d and then Removed it at %d ms (%d ms after the last change); "
                                  "it is still missing %d ms after the last change"
                                  % (f["b"], f["host"], miss[0], cbs[-1][0], cbs[-1][0] - obs["lastChange"], after)))
                    else:
                        cause = not_added_cause(case, obs, f["b"], miss[0])
                        v.append(("C07:not-added" + (":" + cause if cause else ""),
                                  "browser %d on H%d does not report registered s%d %d ms after the last change%s"
                                  % (f["b"], f["host"], miss[0], after, " (%s)" % cause if cause else "")))
            for b in f["bad"]:
                if ("b", f["b"], tuple(b)) not in seen:
                    seen.add(("b", f["b"], tuple(b)))
                    v.append(("C07:callback-" + b[0], "listener of browser %d got %s for %s at %d" % (f["b"], b[0], b[1], b[2])))
    # refused registrations (third review, point 2): a refusal is legitimate only when the instance name was alive in the
    # registering host's OWN cache while it probed -- a pointer record of that instance it had processed (another host's, or its own
    # announcement / goodbye still looping back: a withdrawn record lives one more second) -- by the harness's account of the
    # deliveries, not the library's cache.  Any other exception out of async_register_service is a violation outright
    for e in obs.get("regfail", []):
        if not e[1].startswith("regfail:"):
            continue
        what = e[1].split(":", 1)[1]
        i, t_call, t_fail = e[2], e[0], (e[3] if len(e) > 3 else e[0] + 350)
        if what != "NonUniqueNameException":
            v.append(("C07:registration-raised:" + what, "async_register_service(s%d) called at %d raised %s at %d" % (i, t_call, what, t_fail)))
            continue
        h = svcs[i]["owner"]
        alive_until = None
        for x in tr:
            if x[1] == "dlv" and x[4] == h and x[0] <= t_fail:
                for it in x[6]:
                    if it[0] == "p" and it[1] == i:
                        if it[2] > 0:
                            alive_until = x[0] + eff_ttl(it[2])
                        elif alive_until is not None:
                            alive_until = min(alive_until, x[0] + 1000)
        if alive_until is None or alive_until < t_call:
            v.append(("C07:registration-refused-without-a-conflict",
                      "async_register_service(s%d) called on H%d at %d was refused (NonUniqueNameException) at %d although no pointer record of that "
                      "instance was alive in the host's cache while it probed (last one handed to it lived until %s)" % (i, h, t_call, t_fail, alive_until)))
    # lookups from Added: judged when the instance was registered when Added fired and stayed so until the lookup ended
    # (an Added for an instance that is not registered is the resurrection reported above, not a lookup failure)
    unreg_times = {}
    reg_times = {}
    for e in tr:
        if e[1] == "unreg":
            unreg_times.setdefault(e[2], []).append(e[0])
        elif e[1] == "reg":
            reg_times.setdefault(e[2], []).append(e[3] if len(e) > 3 else e[0] + 350)
    close_times = {e[2]: e[0] for e in tr if e[1] == "close"}
    for lk in obs["lookups"]:
        s = lk["s"]
        bh = obs["browsers"][lk["b"]]["host"]
        done = [t for t in reg_times.get(s, []) if t <= lk["t0"]]
        if not done or any(max(done) - 350 <= t <= lk["t1"] + 200 for t in unreg_times.get(s, [])):
            continue  # not registered at Added, or withdrawn around the lookup: nothing is promised
        if bh in close_times and close_times[bh] <= lk["t1"] + 300:
            continue
        if lk["ok"] is not True:
            cause = lookup_failure_cause(case, obs, lk)
            v.append(("C07:lookup-from-added-failed" + (":" + cause if cause else ""),
                      "lookup of s%d from the Added callback at %d returned %s%s" % (s, lk["t0"], lk["ok"], " (%s)" % cause if cause else "")))
            continue
        # "resolves the advertised host, port, TXT and addresses": the version that is advertised while the lookup runs.  A version
        # replaced by an `update` stays acceptable for UPDATE_GRACE_MS after the update call (the three announcements of the new
        # records leave within 450 ms, arrive within 100 ms more, and replace the cached ones: cache-flush bit); an older one is wrong
        allv = obs["versions"][s]
        # (only an `update` has a grace: a version that was unregistered -- Removed -- before the next registration is never acceptable
        # for a lookup from the new registration's Added)
        vs = [x for k, x in enumerate(allv) if x["t"] <= lk["t1"] and (
            k + 1 == len(allv) or allv[k + 1]["t"] > lk["t1"]
            or (allv[k + 1].get("kind", "upd") == "upd" and allv[k + 1]["t"] + UPDATE_GRACE_MS >= lk["t0"]))]
        # addresses belong to the host name: the lookup returns the service's own addresses, possibly together with addresses that
        # other services advertised for the same host name
        # (third review, escape mE: of the looked-up service's OWN versions only those acceptable while the lookup runs count -- an
        # address it has moved away from is a wrong answer; what other services ever advertised under the host name still counts:
        # an unregistered service does not withdraw addresses its host shares, and their timing is not this lookup's business)
        # ... unless they were WITHDRAWN since: the goodbye of the last service registered under a host name carries that service's
        # address records with TTL 0 (coordinator, seeded C07-w3-seed3) -- from then on they are not advertised under the name
        host_addrs = {ad for x in vs for ad in x["addrs"]} | advertised_by_others(case, obs, s, (lk["server"] or "").lower(), lk["t1"])
        if not any(x["port"] == lk["port"] and x["server"] == lk["server"] and x["txt"] == lk["txt"]
                   and set(x["addrs"]) <= set(lk["addrs"]) <= host_addrs for x in vs):
            cause = lookup_wrong_cause(case, obs, lk, vs, allv)
            v.append(("C07:lookup-from-added-wrong" + (":" + cause if cause else ""),
                      "lookup of s%d from the Added callback at %d (until %d) resolved port %s server %s txt %s addrs %s, advertised then %s%s"
                      % (s, lk["t0"], lk["t1"], lk["port"], lk["server"], lk["txt"][:40], lk["addrs"],
                         [dict(x, txt=x["txt"][:40]) for x in vs], " (%s)" % cause if cause else "")))
    return v


UPDATE_GRACE_MS = 1000


def _dlv_by(e, t_hi, seq_hi=None):
    """was delivery e made by t_hi -- and, within that millisecond, before the lookup that returned after delivery number seq_hi?
    (thorough-tier alarm gen/10/drop142: the datagram with the TXT was processed in the millisecond the lookup returned, AFTER it)"""
    return e[0] <= t_hi and (seq_hi is None or len(e) < 8 or e[7] <= seq_hi)


def records_seen(obs, host, t_hi, seq_hi=None):
    """(t, record) for every record of every response datagram handed to `host` up to t_hi -- from the harness's own delivery
    log and the raw datagrams, not from the implementation's cache"""
    from zeroconf import DNSIncoming

    out = []
    memo = obs.setdefault("_parsed", {})
    for e in obs["trace"]:
        if e[1] == "dlv" and e[4] == host and _dlv_by(e, t_hi, seq_hi):
            recs = memo.get(e[2])
            if recs is None:
                m = DNSIncoming(bytes.fromhex(obs["datagrams"][e[2]][4]))
                recs = memo[e[2]] = [] if (not m.valid or m.is_query()) else m.answers()
            out.extend((e[0], r) for r in recs)
    return out


def shadow_cache(obs, host, name, t_hi, seq_hi=None):
    """which SRV / TXT records of instance `name` are alive in `host`'s cache at t_hi, and when each was last received -- computed
    from the deliveries the host's listener PROCESSED (`obs["ignored"]` left out), with the cache rules of RFC 6762 10.2 as the library
    implements them: a record is refreshed in place when it arrives again; a record with TTL 0 is removed; when a datagram carries a
    cache-flush record of a name / type, every OTHER cached record of that name / type received more than 1000 ms ago expires one
    second later; a record expires TTL seconds after it was last received.  -> {("srv", port) | ("txt", hex): last received}"""
    from zeroconf import DNSIncoming
    from zeroconf._dns import DNSService, DNSText

    ign = {x[0] for x in obs.get("ignored", [])}
    cache = {}  # key -> [last received, expires at]
    memo = obs.setdefault("_parsed", {})
    for pos, e in enumerate(obs["trace"]):
        if e[1] != "dlv" or e[4] != host or not _dlv_by(e, t_hi, seq_hi) or pos in ign:
            continue
        recs = memo.get(e[2])
        if recs is None:
            m = DNSIncoming(bytes.fromhex(obs["datagrams"][e[2]][4]))
            recs = memo[e[2]] = [] if (not m.valid or m.is_query()) else m.answers()
        t = e[0]
        mine = [(("srv", r.port) if isinstance(r, DNSService) else ("txt", r.text.hex()), r) for r in recs
                if isinstance(r, (DNSService, DNSText)) and r.name.lower() == name]
        for key, r in mine:  # refresh / insert / remove first (`async_updates_from_response` resets the TTL of a known record in its loop)
            if r.ttl == 0:
                cache.pop(key, None)
            else:
                cache[key] = [t, t + 1000 * r.ttl]
        for kind in {key[0] for key, r in mine if r.unique and r.ttl > 0}:  # then the cache-flush rule for the types that had a unique record
            present = {key for key, r in mine}
            for key, v in cache.items():
                if key[0] == kind and key not in present and t - v[0] > 1000:
                    v[0], v[1] = t, t + 1000
    return {key: v[0] for key, v in cache.items() if v[1] > t_hi}


def advertised_by_others(case, obs, s, server, t_hi):
    """addresses that services other than s advertised under host name `server` up to t_hi and that have not been withdrawn since:
    an unregister (explicit, or by the close) of a service at a moment when no other service is registered under that host name sends
    that service's addresses with TTL 0"""
    evs = []  # (t, order, kind, svc, addrs)
    for i, vv in enumerate(obs["versions"]):
        for x in vv:
            if x["server"].lower() == server and x["t"] <= t_hi:
                evs.append((x["t"], 1, "adv", i, tuple(x["addrs"])))
    for e in obs["trace"]:
        if e[1] == "unreg" and e[0] <= t_hi:
            evs.append((e[0], 0, "unreg", e[2], ()))
    evs.sort()
    cur = {}  # registered services under the name -> current addresses
    known = {}  # address -> services (other than s) that advertised it and whose advertisement has not been withdrawn
    for t, _o, kind, i, addrs in evs:
        if kind == "adv":
            cur[i] = addrs
            if i != s:
                for ad in addrs:
                    known.setdefault(ad, set()).add(i)
        elif i in cur:
            mine = cur.pop(i)
            if not cur:  # the last one under the name: its goodbye withdraws its addresses
                for ad in mine:
                    known.pop(ad, None)
    return set(known)


def shadow_addresses(obs, host, server, t_hi, seq_hi=None):
    """`shadow_cache` for the address records of host name `server`: {address hex: last received} of the records alive in `host`'s
    cache at t_hi by the cache rules applied to the deliveries its listener PROCESSED (flush per record type A / AAAA)"""
    from zeroconf import DNSIncoming
    from zeroconf._dns import DNSAddress

    ign = {x[0] for x in obs.get("ignored", [])}
    cache = {}
    memo = obs.setdefault("_parsed", {})
    for pos, e in enumerate(obs["trace"]):
        if e[1] != "dlv" or e[4] != host or not _dlv_by(e, t_hi, seq_hi) or pos in ign:
            continue
        recs = memo.get(e[2])
        if recs is None:
            m = DNSIncoming(bytes.fromhex(obs["datagrams"][e[2]][4]))
            recs = memo[e[2]] = [] if (not m.valid or m.is_query()) else m.answers()
        t = e[0]
        mine = [((r.type, r.address.hex()), r) for r in recs if isinstance(r, DNSAddress) and r.name.lower() == server]
        for key, r in mine:
            if r.ttl == 0:
                cache.pop(key, None)
            else:
                cache[key] = [t, t + 1000 * r.ttl]
        for kind in {key[0] for key, r in mine if r.unique and r.ttl > 0}:
            present = {key for key, r in mine}
            for key, v in cache.items():
                if key[0] == kind and key not in present and t - v[0] > 1000:
                    v[0], v[1] = t, t + 1000
                    v.append("flushed")
    # (F5's class: a record the flush rule could NOT touch; one that is merely inside its last second after a flush is not in it)
    return {key[1]: v[0] for key, v in cache.items() if v[1] > t_hi and len(v) == 2}


def lookup_wrong_cause(case, obs, lk, vs, allv):
    """classify a wrong lookup result from the INPUT side (what reached the host), never from the library's state.

    success-without-txt: `async_request` returned True with an empty TXT although every advertised version has a non-empty one, and
    no unexpired TXT record of the instance had reached the host when it returned (TXT and SRV/address travelled in different
    datagrams, or the TXT had expired before the SRV): `ServiceInfo._is_complete` tests `self.text is not None`, and `text` is
    `b''` from the constructor on -- a lookup is "complete" as soon as it knows an address.  Everything else about the result must
    still be right."""
    from zeroconf._dns import DNSService, DNSText

    bh = obs["browsers"][lk["b"]]["host"]
    name = svc_name(lk["s"], case["svcs"][lk["s"]]["ty"]).lower()
    fewer = [x for x in vs if x["port"] == lk["port"] and x["server"] == lk["server"] and x["txt"] == lk["txt"] and lk["addrs"]
             and set(lk["addrs"]) < set(x["addrs"])]
    if fewer:
        # the advertised version, but an address of it is missing.  Known finding F6 when the input shows the race: ANOTHER service
        # under the same host name was unregistered while this one was still probing (so it was the last one registered under the
        # name and its goodbye, built once, carries the shared address with TTL 0), this one then announced the address, and the
        # goodbye's repeats (+125, +250 ms) withdrew it again at the host; the next announcement heals it
        from zeroconf import DNSIncoming
        from zeroconf._dns import DNSAddress

        si = lk["s"]
        owner = case["svcs"][si]["owner"]
        missing = set(fewer[-1]["addrs"]) - set(lk["addrs"])
        regs = [e for e in obs["trace"] if e[1] == "reg" and e[2] == si and e[0] <= lk["t1"]]
        racing = [u for u in obs["trace"] if u[1] == "unreg" and u[2] != si and case["svcs"][u[2]]["owner"] == owner
                  and any(r[0] <= u[0] <= (r[3] if len(r) > 3 else r[0] + 350) for r in regs)]
        if racing:
            last = {}
            ign = {x[0] for x in obs.get("ignored", [])}
            for pos, e in enumerate(obs["trace"]):
                if e[1] == "dlv" and e[4] == bh and _dlv_by(e, lk["t1"], lk.get("seq1")) and pos not in ign:
                    m = DNSIncoming(bytes.fromhex(obs["datagrams"][e[2]][4]))
                    if m.valid and not m.is_query():
                        for r in m.answers():
                            if isinstance(r, DNSAddress) and r.name.lower() == (lk["server"] or "").lower():
                                last[r.address.hex()] = (r.ttl, obs["datagrams"][e[2]][0])
            if all(ad in last and last[ad][0] == 0 and any(u[0] <= last[ad][1] <= u[0] + 250 for u in racing) for ad in missing):
                return "address-withdrawn-by-the-goodbye-of-a-service-unregistered-while-this-one-was-probing"
        return ""
    cur_ok = [x for x in vs if x["port"] == lk["port"] and x["server"] == lk["server"] and x["txt"] == lk["txt"] and set(x["addrs"]) <= set(lk["addrs"])]
    if cur_ok:
        # everything is the advertised version's except that addresses the service has moved away from are still returned.  Known
        # finding F5 when, by the shadow of the host's cache, those address records are legitimately alive: received less than a
        # second before the update (so its first announcement must not flush them, RFC 6762 10.2) while the announcements that
        # would have flushed them a second later -- verbatim repeats -- were dropped by the duplicate-packet guard.  A tree that
        # skips the flush rule for address records is not covered: the shadow cache has flushed them
        own_old = {ad for x in allv for ad in x["addrs"]}
        extra = set(lk["addrs"]) - {ad for x in cur_ok for ad in x["addrs"]}
        alive = shadow_addresses(obs, bh, (lk["server"] or "").lower(), lk["t1"], lk.get("seq1"))
        if extra and extra <= own_old and all(ad in alive for ad in extra):
            return "withdrawn-address-outlives-the-flush-rule"
        return ""
    old = [k for k, x in enumerate(allv) if x not in vs and x["t"] <= lk["t1"] and x["port"] == lk["port"] and x["server"] == lk["server"]
           and x["txt"] == lk["txt"]]
    if old:
        # the result is exactly a superseded version k.  Known finding F3 when -- by the harness's own account of what the host
        # PROCESSED -- the records of version k and of the advertised version are both alive in its cache when the lookup ends and
        # the advertised one was received more recently: `_load_from_cache` takes the LAST INSERTED unexpired SRV / TXT instead.
        # How both can be alive: RFC 6762 10.2 flushes nothing younger than one second, so the old record survives when it
        # overtook the update on the link, or when a query answer refreshed it less than a second before the update and the
        # update's third announcement -- a verbatim repeat of the second -- was dropped by the duplicate-packet guard
        k = old[-1]
        cur = vs[-1] if vs else None
        if cur is None:
            return ""
        alive = shadow_cache(obs, bh, name, lk["t1"], lk.get("seq1"))
        need = []
        if allv[k]["port"] != cur["port"]:
            need.append((("srv", allv[k]["port"]), ("srv", cur["port"])))
        if allv[k]["txt"] != cur["txt"]:
            need.append((("txt", allv[k]["txt"]), ("txt", cur["txt"])))
        if need and all(ko in alive and kc in alive and alive[kc] > alive[ko] for ko, kc in need):
            return "last-inserted-record-preferred-to-the-most-recently-received"
        return ""
    if lk["txt"] == "" and all(x["txt"] for x in allv) and any(
            x["port"] == lk["port"] and x["server"] == lk["server"] for x in vs):
        held_txt = [(t, r) for (t, r) in records_seen(obs, bh, lk["t1"], lk.get("seq1")) if isinstance(r, DNSText) and r.name.lower() == name]
        # the last TXT handed over decides (a goodbye or an expired one leaves the host without a TXT)
        if not held_txt or held_txt[-1][1].ttl == 0 or held_txt[-1][0] + 1000 * held_txt[-1][1].ttl <= lk["t1"]:
            # F1's input class does NOT include an announcer that orders its own message so that a lookup completes before the TXT
            # is there: in a broadcast of the service (SRV in the answer section) the TXT precedes the addresses of the SRV target, so
            # that -- whatever `packets()` splits -- the datagram that completes {SRV, address} never precedes the TXT's datagram.
            # When the host was handed the SRV and the address from such a message whose TXT sits in a LATER datagram, the empty
            # TXT is the announcer's doing: a fresh violation (seeded defect C07-w5-seed2), not the known finding
            why = announcement_completes_before_its_txt(case, obs, lk["s"], bh, lk["t1"], lk.get("seq1"))
            if why:
                return "announcement-completes-before-its-txt"
            # ... and INCLUDES only what the link, the TTLs or a split the unchanged record order can produce did to a TXT the owner
            # really advertised (third review, point 1: "no TXT reached the host" alone describes the wire, and a sender that
            # transmits its TXT with TTL 0, or not at all, produces the same wire)
            if f1_input_class(case, obs, lk, bh, name, held_txt):
                return "success-without-txt"
            return "txt-not-sent-as-registered"
    return ""


def f1_input_class(case, obs, lk, host, name, held_txt):
    """F1's input class, judged on the owner's SENDS against its registration.  Either (TTL asymmetry) the host had been handed the
    TXT as registered -- positive TTL = the registered other_ttl, text of an advertised version -- and it has run out while the SRV /
    address have not; or (split / loss / order) the owner did put such a TXT on the link, in the same message (the datagrams it sent
    at one instant to one destination) as a datagram of that message the host had processed, and the TXT's own datagram had not been
    processed by the host when the lookup returned"""
    from zeroconf import DNSIncoming
    from zeroconf._dns import DNSText

    s = lk["s"]
    sv = case["svcs"][s]
    ttls = {sv.get("other_ttl") or 4500} | {o[3]["other_ttl"] for o in case["ops"] if o[1] == "update" and o[2] == s and len(o) > 3
                                             and isinstance(o[3], dict) and o[3].get("other_ttl")}
    texts = {x["txt"] for x in obs["versions"][s] if x["t"] <= lk["t1"]}

    def as_registered(r):
        return isinstance(r, DNSText) and r.name.lower() == name and r.ttl in ttls and r.text.hex() in texts

    if held_txt and as_registered(held_txt[-1][1]) and held_txt[-1][0] + 1000 * held_txt[-1][1].ttl <= lk["t1"]:
        return True
    ign = {x[0] for x in obs.get("ignored", [])}
    processed = {e[2] for pos, e in enumerate(obs["trace"]) if e[1] == "dlv" and e[4] == host and _dlv_by(e, lk["t1"], lk.get("seq1")) and pos not in ign}
    owner = sv["owner"]
    trains = {}
    for e in obs["trace"]:
        if e[1] == "send" and e[2] == owner and e[0] <= lk["t1"]:
            trains.setdefault((e[0], e[4], obs["datagrams"][e[3]][2]), []).append(e[3])
    memo = obs.setdefault("_parsed", {})
    for ds in trains.values():
        if not any(d in processed for d in ds):
            continue
        for d in ds:
            if d in processed:
                continue
            recs = memo.get(d)
            if recs is None:
                m = DNSIncoming(bytes.fromhex(obs["datagrams"][d][4]))
                recs = memo[d] = [] if (not m.valid or m.is_query()) else m.answers()
            if any(as_registered(r) for r in recs):
                return True
    return False


def announcement_completes_before_its_txt(case, obs, s, host, t_hi, seq_hi=None):
    """is there a broadcast message of service s (the response datagrams its owner multicast at one instant, SRV(s) in the ANSWER
    section of one of them) in which the TXT of s sits in a later datagram than both the SRV and the first address record of the SRV
    target, and of which the SRV and address datagrams had been handed to `host` by t_hi?  -> [send time, srv, addr, txt datagram] or None"""
    from zeroconf import DNSIncoming
    from zeroconf._dns import DNSAddress, DNSService, DNSText

    name = svc_name(s, case["svcs"][s]["ty"]).lower()
    owner = case["svcs"][s]["owner"]
    got = {e[2] for e in obs["trace"] if e[1] == "dlv" and e[4] == host and _dlv_by(e, t_hi, seq_hi)}
    trains = {}
    for e in obs["trace"]:
        if e[1] == "send" and e[2] == owner and e[4] is None and e[0] <= t_hi:
            trains.setdefault((e[0], obs["datagrams"][e[3]][2]), []).append(e[3])
    for (t, _grp), ds in sorted(trains.items()):
        srv = adr = txt = None
        target = None
        in_answers = False
        for d in sorted(ds):
            m = DNSIncoming(bytes.fromhex(obs["datagrams"][d][4]))
            if not m.valid or m.is_query():
                continue
            recs = m.answers()
            for j, r in enumerate(recs):
                if isinstance(r, DNSService) and r.name.lower() == name and r.ttl > 0 and srv is None:
                    srv, target = d, r.server.lower()
                    in_answers = j < m.num_answers
                elif isinstance(r, DNSText) and r.name.lower() == name and txt is None:
                    txt = d
            for r in recs:
                if isinstance(r, DNSAddress) and target is not None and r.name.lower() == target and adr is None:
                    adr = d
        if srv is not None and in_answers and adr is not None and (txt is None or txt > max(srv, adr)) and srv in got and adr in got:
            return [t, srv, adr, txt]
    return None


def not_added_cause(case, obs, b, s):
    """the browser was started after the host's cached PTR(s) had expired but before the 10 s cache cleanup purged it: the replay skips
    the expired record, and the answer to the browser's question finds the unpurged entry (`async_get_unique`), refreshes it and is
    reported to the browser as a refresh of a known record, never as Added"""
    br = obs["browsers"][b]
    if br.get("tcase", 0) != case["svcs"][s].get("case", 0) & 1:
        # known finding: `_ServiceBrowserBase` intersects its set of types, as spelled by the application, with the owner name of the
        # pointer record as spelled on the wire -- a browser for `_a._tcp.local.` never reports an instance registered under
        # `_A._tcp.local.` (the responder, the cache and the question history all compare case-insensitively)
        return "type-spelled-in-another-case"
    last = None
    later = False
    for e in obs["trace"]:
        if e[1] == "dlv" and e[4] == br["host"]:
            for it in e[6]:
                if it[0] == "p" and it[1] == s:
                    if e[0] <= br["t"]:
                        last = (it[2], e[0])
                    elif it[2] > 0:
                        later = True
    if last and last[0] > 0 and later:
        exp = last[1] + eff_ttl(last[0])
        if exp <= br["t"] < exp + CFG["cleanup"]:
            return "browser-started-between-expiry-and-purge"
    return ""


def lookup_failure_cause(case, obs, lk):
    """D22: the lookup learnt the SRV (server, port) but no address, and during the lookup its host processed a response in
    which an address record of that server came *before* the SRV of the service (packet order): `async_update_records` ignores
    the address (server unknown), the SRV branch reloads addresses from the cache, which does not hold them yet, and later
    questions list the address as a known answer"""
    from zeroconf import DNSIncoming
    from zeroconf._dns import DNSAddress, DNSService

    if not lk.get("server") or lk.get("addrs"):
        return ""
    bh = obs["browsers"][lk["b"]]["host"]
    sv = case["svcs"][lk["s"]]
    name = svc_name(lk["s"], sv["ty"]).lower()
    for e in obs["trace"]:
        if e[1] == "dlv" and e[4] == bh and lk["t0"] <= e[0] <= lk["t1"]:
            m = DNSIncoming(bytes.fromhex(obs["datagrams"][e[2]][4]))
            if m.is_query():
                continue
            recs = m.answers()
            srv = [i for i, r in enumerate(recs) if isinstance(r, DNSService) and r.name.lower() == name]
            adr = [i for i, r in enumerate(recs) if isinstance(r, DNSAddress) and r.name.lower() == lk["server"].lower()]
            if srv and adr and min(adr) < min(srv):
                return "address-before-srv"
    return ""


def cut_by_close(case, obs, s, tu):
    """the known finding, decided from the INPUT alone: service s was withdrawn at tu by an explicit `async_unregister_service` call
    (this harness never awaits the task it returns), its host was closed at tc with tu <= tc <= tu + 250 (before the third goodbye
    was due), and nothing was registered on the host at the close (`async_close` then has no goodbye of its own to send, so `_close`
    sets `done` at once and the pending goodbyes of the unregister become no-ops).  Returns tc or None.  A service that is
    withdrawn BY the close (still registered when `async_close` is called) is never covered: its goodbyes are the close's own"""
    if [tu, s] not in [list(x) for x in obs.get("unreg_calls", [])]:
        return None
    owner = case["svcs"][s]["owner"]
    for e in obs["trace"]:
        if e[1] == "close" and e[2] == owner and tu <= e[0] <= tu + 250:
            if not any(c[0] == e[0] and c[2] == owner for c in obs.get("close_unregs", [])):
                return e[0]
    return None


def guard_suppressed(case, obs, host):
    """the deliveries to `host` that its duplicate-packet guard ignores, recomputed from the harness's own delivery log (never from
    the library's state): every receiving socket has its own listener object, and a listener ignores a datagram that is
    byte-identical to the previous one IT processed less than 1000 ms ago, unless that is a query with a QU question.
    Returns the set of positions (index into obs["trace"]) of ignored `dlv` events"""
    from zeroconf import DNSIncoming

    listen = bool(case.get("listen"))
    last = {}  # socket -> (bytes, time)
    out = set()
    for i, e in enumerate(obs["trace"]):
        if e[1] != "dlv" or e[4] != host:
            continue
        data = obs["datagrams"][e[2]][4]
        fam = 6 if ":" in obs["datagrams"][e[2]][2] else 4
        sock = "listen" if (listen and e[5]) else fam
        prev = last.get(sock)
        if prev is not None and prev[0] == data and e[0] - 1000 < prev[1]:
            m = DNSIncoming(bytes.fromhex(data))
            if not (m.is_query() and m.has_qu_question()):
                out.add(i)
                continue
        last[sock] = (data, e[0])
    return out


def repeats_ignored_on_other_socket(case, obs, s, host):
    """known finding, decided from the input: `host` has more than one receiving socket (a dedicated listen socket, or one per address
    family).  After the unregister it processed a positive PTR(s) on one socket (a unicast answer on the respond socket, sent before
    the unregister and delayed on the link) later than the first goodbye on another, and every later goodbye it was handed was a
    verbatim repeat that the duplicate guard of the socket it arrived on ignored -- that guard's state is per socket, so it never
    saw the answer in between.  Nothing is lost on the link; the instance stays Added until its TTL runs out"""
    if not (case.get("listen") or case.get("stack", "4") == "46"):
        return False
    ignored = guard_suppressed(case, obs, host)
    tr = obs["trace"]
    last_pos = None
    for i, e in enumerate(tr):
        if e[1] == "dlv" and e[4] == host and i not in ignored and any(it[0] == "p" and it[1] == s and it[2] > 0 for it in e[6]):
            last_pos = i
    if last_pos is None:
        return False
    later_byes = [i for i, e in enumerate(tr) if i > last_pos and e[1] == "dlv" and e[4] == host
                  and any(it[0] == "p" and it[1] == s and it[2] == 0 for it in e[6])]
    return bool(later_byes) and all(i in ignored for i in later_byes)


def resurrection_cause(case, obs, s, host=None):
    """attribute a never-removed service to the positive PTR sent after its withdrawal (C08's D5 / D6)"""
    tr = obs["trace"]
    unreg = [e[0] for e in tr if e[1] == "unreg" and e[2] == s]
    regt = [e[0] for e in tr if e[1] == "reg" and e[2] == s]
    if not unreg:
        return "never-unregistered"
    tu = unreg[-1]
    late = []
    pos_unreg = max(i for i, e in enumerate(tr) if e[1] == "unreg" and e[2] == s)
    for i, e in enumerate(tr):
        if i > pos_unreg and e[1] == "send" and any(it[0] == "p" and it[1] == s and it[2] > 0 for it in e[5]):
            late.append(e[0])
    if not late:
        if cut_by_close(case, obs, s, tu) is not None:
            return "goodbyes-cut-by-close"
        if host is not None and repeats_ignored_on_other_socket(case, obs, s, host):
            return "goodbye-repeats-ignored-by-the-other-sockets-duplicate-guard"
        return "no-positive-ptr-after-unregister"
    if any(t - r in (575, 800) for t in late for r in regt) or any(t - u[0] in (225, 450) for t in late for u in tr if u[1] == "upd" and u[2] == s):
        return "D6-announcement-after-unregister"
    return "D5-queued-answer-after-unregister"


# ------------------------------------------------------------------------------------------
# running


KNOWN_SIGS = {"C07:goodbyes-cut-by-close", "C07:not-removed:goodbyes-cut-by-close", "C07:lookup-from-added-wrong:success-without-txt",
              "C07:not-added:type-spelled-in-another-case", "C07:lookup-from-added-wrong:last-inserted-record-preferred-to-the-most-recently-received",
              "C07:not-removed:goodbye-repeats-ignored-by-the-other-sockets-duplicate-guard",
              "C07:lookup-from-added-wrong:withdrawn-address-outlives-the-flush-rule",
              "C07:lookup-from-added-wrong:address-withdrawn-by-the-goodbye-of-a-service-unregistered-while-this-one-was-probing"}


def train_of(obs, t, h, dst_of=None):
    """raw datagrams host h put on the link at instant t (to the destination of datagram `dst_of`, if given)"""
    ds = [e for e in obs["trace"] if e[1] == "send" and e[0] == t and e[2] == h]
    if dst_of is not None:
        ds = [e for e in ds if e[4] == dst_of]
    return ds


def train_complete(case, obs, t, h, s, dst="any"):
    """do the response datagrams host h sent at instant t (one message split by `DNSOutgoing.packets()`) together carry a positive
    PTR of service s, its SRV, its TXT and an address record of the SRV target?"""
    from zeroconf import DNSIncoming
    from zeroconf._dns import DNSAddress, DNSPointer, DNSService, DNSText

    name = svc_name(s, case["svcs"][s]["ty"]).lower()
    for grp in ({e[4] for e in train_of(obs, t, h)} if dst == "any" else [dst]):
        ptr = srv = txt = False
        targets, addrs = set(), set()
        for e in train_of(obs, t, h):
            if e[4] != grp:
                continue
            m = DNSIncoming(bytes.fromhex(obs["datagrams"][e[3]][4]))
            if not m.valid or m.is_query():
                continue
            for r in m.answers():
                if isinstance(r, DNSPointer) and r.alias.lower() == name and r.ttl > 0:
                    ptr = True
                elif isinstance(r, DNSService) and r.name.lower() == name:
                    srv = True
                    targets.add(r.server.lower())
                elif isinstance(r, DNSText) and r.name.lower() == name:
                    txt = True
                elif isinstance(r, DNSAddress):
                    addrs.add(r.name.lower())
        if ptr and srv and txt and targets & addrs and len([e for e in train_of(obs, t, h) if e[4] == grp]) > 1:
            return True
    return False


def k4_answered_by_train(case, obs, tr, w):
    """K4 witness [query-unanswered, a, h, s, qu]: is there, in K4's window, a message of several packets from h -- multicast, or
    unicast to anybody if the question was QU -- that is complete for s?"""
    _, a, h, s, qu = w
    askers = {e[3] for e in obs["trace"] if e[1] == "dlv" and e[0] == a and e[4] == h
              and any(it[0] == "q" and it[1] == s[1] and bool(it[3]) == bool(qu) and s[2] not in it[2] for it in e[6])}
    for e in obs["trace"]:
        if e[1] == "send" and e[2] == h and a - CFG["respBefore"] <= e[0] <= a + CFG["respAfter"] and (e[4] is None or (qu and e[4] in askers)):
            if any(it[0] == "p" and it[1] == s[2] and it[2] > 0 for it in e[5]) and train_complete(case, obs, e[0], h, s[2], e[4]):
                return True
    return False


def check_case(case, res, ctx, tag, lean_jobs, proj=False):
    """run + oracle + Python monitors; queue the Lean evaluation"""
    obs = run_case(case, proj)
    res.evaluations += 1
    tr = norm_trace(case, obs)
    endT = obs["endT"]
    vio = oracle(case, obs)
    mon = monitors(tr, endT)
    mon_all = mon
    if case.get("listen") or case.get("stack", "4") == "46":
        # a host with two receiving sockets (the library's DEFAULT topology) has two listener objects, each with its own duplicate-packet
        # guard: on one listener an ignored verbatim repeat is a no-op (C16) and "arrived" = "processed"; on two it is not (finding F4).
        # Third review, point 4: these runs are judged like all others, on the trace of what the hosts PROCESSED -- the deliveries a
        # listener did not parse (`obs["ignored"]`, observed) are left out for every contract that speaks about processing (K1-K6, K3b,
        # K5a, K6f, KF); the link's own contract K7 and WF are judged on the full trace.  What F4 explains needs no blanking: the
        # record the unicast answer re-added IS the last pointer the host processed, so K5 holds, and the end-to-end consequence
        # carries F4's own signature
        res.count("runs-on-hosts-with-two-listeners(contracts judged on the processed deliveries)")
        ign = {x[0] for x in obs.get("ignored", [])}
        tr_proc = norm_trace(case, dict(obs, trace=[e for k, e in enumerate(obs["trace"]) if k not in ign]))
        mon = dict(monitors(tr_proc, endT), WF=mon["WF"], K7=mon["K7"])
    conc = conclusion(tr, endT)
    conc_all = conc
    brief = {"case": case, "tag": tag}
    failed0 = sorted(k for k, w in mon.items() if w)
    for sig, what in vio:
        # name the contracts that the same run violates (e.g. a false Removed after a missed refresh: K3b, KF)
        res.violate(sig, what + (" [contracts violated on this run: %s]" % ", ".join(
            "%s (%s)" % (k, mon[k][0][0]) for k in failed0) if failed0 else ""), brief)
    if obs["inflight"]:
        res.notes.append("registration still in flight at the end: %s" % tag)
    if obs["errors"]:
        res.count("loop-errors", len(obs["errors"]))
        if len(res.notes) < 5:
            res.notes.append("loop exception handler: %s" % obs["errors"][:2])
    # known finding (review F2; second review, point 2: decided from the input, see `cut_by_close`): a close less than 250 ms after
    # an un-awaited unregister with nothing else registered drops that unregister's remaining goodbyes.  Only K2 witnesses of
    # exactly that shape -- the goodbye of an explicitly unregistered service that was due at or after such a close -- are the
    # library's known behaviour; a missing goodbye of a service withdrawn by the close itself is a contract violation like any other
    cut = []
    for w in mon["K2"]:
        if w[0] == "goodbye-missing":
            tc = cut_by_close(case, obs, w[3][2], w[1])
            if tc is not None and w[1] + w[2] >= tc:
                cut.append(w)
    if cut:
        res.violate("C07:goodbyes-cut-by-close",
                    "unregister at %d ms (not awaited), close of the same host at %s with nothing else registered: the goodbye due at +%d ms is never "
                    "sent (async_send is a no-op once done)"
                    % (cut[0][1], [e[0] for e in tr if e[1] == "close" and e[2] == cut[0][3][0]], cut[0][2]), brief)
        mon = dict(mon, K2=[w for w in mon["K2"] if w not in cut])
        res.count("goodbyes-cut-by-close")
    # messages of more than one datagram (second review, escape 5): `full` is a per-datagram flag; a response that does not fit 1460
    # bytes cannot carry every PTR together with its SRV / TXT / address.  K6f and K4 witnesses are dropped when the packets the
    # host sent at the same instant to the same destination (one `async_send`) carry the missing records: complete per MESSAGE
    if mon["K6f"] or mon["K4"] or mon["K1"]:
        k6f = [w for w in mon["K6f"] if not train_complete(case, obs, w[1], w[2], w[3][2])]
        k4 = [w for w in mon["K4"] if not k4_answered_by_train(case, obs, tr, w)]
        # (an announcement of a service whose TXT exceeds a datagram is a train too: K1 witness [announcement-missing, t, off, s])
        k1 = [w for w in mon["K1"] if not train_complete(case, obs, w[1] + w[2], w[3][0], w[3][2], None)]
        if len(k6f) != len(mon["K6f"]) or len(k4) != len(mon["K4"]) or len(k1) != len(mon["K1"]):
            res.count("runs-with-multi-packet-messages(completeness judged per message)")
            mon = dict(mon, K6f=k6f, K4=k4, K1=k1)
    # known finding "type spelled in another case": the browser does not report (live = false) what its host's cache holds
    k5 = [w for w in mon["K5"] if not (w[4] is False and w[3][2] < len(case["svcs"])
                                       and obs["browsers"][w[2][2]].get("tcase", 0) != case["svcs"][w[3][2]].get("case", 0) & 1)]
    if len(k5) != len(mon["K5"]):
        res.count("runs-with-a-type-spelled-in-two-cases")
        mon = dict(mon, K5=k5)
    failed = sorted(k for k, w in mon.items() if w)
    for k in failed:
        res.count("contract-violated:" + k)
    # a contract violation is "explained" (not a broken tie) only by a FRESH violation of the property on the same run; a known
    # finding explains nothing beyond the witnesses removed above (second review, gating defect i)
    fresh_vio = [x for x in vio if x[0] not in KNOWN_SIGS]
    if failed and not fresh_vio:
        # the real trace breaks a hypothesis of the theorem although the property's sentence holds on it
        res.disagree("contract", brief, {"violated": {k: mon[k][:2] for k in failed}}, "K1..K7 hold")
    if not failed and conc and not vio:
        res.disagree("conclusion", brief, {"not-converged": conc[:3]}, "theorem: converged")
    if not failed and not conc:
        res.count("traces-satisfying-all-contracts-and-converged")
    # coverage signature
    kinds = sorted({e[1] for e in tr})
    late_hosts = sum(1 for h in case["hosts"] if h["up"] > 0)
    sig = (len(case["hosts"]), len(case["svcs"]), case["types"], len(obs["browsers"]), late_hosts > 0, obs["dropped"] is not None,
           case["net"]["mode"], case["net"]["dups"], "close" in kinds, "upd" in kinds, "unreg" in kinds, "rem" in kinds,
           len(obs["regfail"]) > 0, case.get("stack", "4") + ("L" if case.get("listen") else ""),
           any(sv.get("case") for sv in case["svcs"]) or any(b.get("tcase") for b in obs["browsers"]),
           any(isinstance(o[3], list) and len(o[3]) > 1 for o in case["ops"] if o[1] == "browse"),
           _has_train(obs))
    res.nontriv(json.dumps(sig))
    res.count("stack=" + sig[13])
    res.count("hosts=%d" % len(case["hosts"]))
    res.count("dropped" if obs["dropped"] is not None else "no-drop")
    res.count("lookups", len(obs["lookups"]))
    res.count("events", len(tr))
    if obs["regfail"]:
        res.count("register-refused(NonUnique)", len(obs["regfail"]))
    if len(res.samples) < 3:
        res.sample({"tag": tag, "hosts": len(case["hosts"]), "events": len(tr), "deliveries": obs["ndeliveries"], "dropped": obs["dropped"],
                    "final": [{k: f[k] for k in ("b", "host", "ty", "live")} for f in obs["final"]], "registered": obs["registered"]})
    lean_jobs.append((brief, tr, endT, mon_all, conc_all))
    return obs


def lean_compare(res, lean_jobs):
    lines = [lean_line(tr, endT) for (_, tr, endT, _, _) in lean_jobs]
    try:
        # the driver is a pure line-by-line function: four processes on interleaved quarters of the lines (about 0.03 s per trace)
        from concurrent.futures import ThreadPoolExecutor

        k = 4 if len(lines) >= 40 else 1
        with ThreadPoolExecutor(k) as ex:
            parts = list(ex.map(C.run_driver, [lines[j::k] for j in range(k)]))
        outs = [None] * len(lines)
        for j, part in enumerate(parts):
            outs[j::k] = part
    except C.DriverUnavailable as ex:
        res.notes.append("driver unavailable: %s" % ex)
        return
    names = ["WF", "K1", "K2", "K3", "K4", "K5", "K6", "K7", "K5a", "K6f", "K3b", "KF"]
    for (brief, tr, endT, mon, conc), out in zip(lean_jobs, outs):
        py = " ".join("%s=%s" % (k, C.b01(not mon[k])) for k in names) + " conv=%s" % C.b01(not conc)
        py += " lastChange=%d" % last_change(tr)
        st = []
        closes = {e[2] for e in tr if e[1] == "close"}
        svcs = []
        for e in tr:
            if e[1] in ("reg", "add", "rem"):
                s = e[2] if e[1] == "reg" else e[3]
                if s not in svcs:
                    svcs.append(s)
        for e in tr:
            if e[1] == "browse" and e[2][0] not in closes:
                for s in svcs:
                    st.append("%d.%d:%s%s%s" % (e[2][2], s[2], C.b01(live(tr, e[2], s)), C.b01(held(tr, e[2][0], s)), C.b01(registered(tr, s))))
        py += " state=" + (",".join(st) if st else "-")
        if out != py:
            res.disagree("lean-monitors", brief, py, out)


def proj_report(res, proj_jobs):
    """side report (statistics, never a verdict): the projection hypotheses of `C07_convergence_from_models_partial` evaluated by the
    driver on the block logs of the un-dropped run of every scenario (hosts with one IPv4 socket)"""
    from concurrent.futures import ThreadPoolExecutor

    from . import c07proj

    if not proj_jobs:
        return
    lines = [j[3] for j in proj_jobs]
    try:
        k = 4 if len(lines) >= 16 else 1
        with ThreadPoolExecutor(k) as ex:
            parts = list(ex.map(C.run_driver, [lines[j::k] for j in range(k)]))
    except C.DriverUnavailable as ex:
        res.notes.append("projection report: driver unavailable: %s" % ex)
        return
    outs = [None] * len(lines)
    for j, part in enumerate(parts):
        outs[j::k] = part
    shown = {}
    for (tag, cmd, key, _line), ans in zip(proj_jobs, outs):
        if not c07proj.tally(res, cmd, ans):
            failing = " ".join(t for t in (ans or "").split() if t.endswith("=0") or t.startswith("rej=") and not t.endswith("-")) or (ans or "")[:40]
            if shown.setdefault((cmd, failing), 0) < 1:
                shown[(cmd, failing)] += 1
                if len([n for n in res.notes if n.startswith("projection report")]) < 12:
                    res.notes.append("projection report (statistics only): %s %s %s -> %s" % (cmd, tag, key, failing))
    res.count("proj:lines", len(lines))


def drop_choices(rng, n, k):
    if n <= 0:
        return []
    if k >= n:
        return list(range(n))
    return sorted(rng.sample(range(n), k))


def run_inner(ctx):
    res = C.Result("C07")
    seed = ctx["seed"]
    rng = C.rng_for(seed, "c07")
    lrng = C.rng_for(seed, "c07-lean-sample")
    tier = ctx["tier"]
    thorough = tier == "thorough"
    n_scen = C.Budget(tier, 95, 200).n
    n_sweep = 0 if not thorough else max(1, n_scen // 10)  # scenarios whose every delivery / datagram is dropped in turn
    drops_per = 6 if not thorough else 20
    dgram_per = 4 if not thorough else 10
    # the theorem is about the Lean monitors: both tiers run EVERY trace through them (second review, point 7; measured: 1 300 quick
    # traces cost about 40 s of zcdriver, 12-15 s on four processes).  Only the widened search (three times the scenarios, entered when
    # the tree already failed T or P or drifted) samples: 30 % + all corpus cases + every run on which anything failed
    lean_frac = float(os.environ.get("VERIF_C07_LEAN_FRAC", "1.0"))
    if ctx.get("widened"):
        n_scen *= 3
        lean_frac = min(lean_frac, 0.3)
    lean_jobs = []
    counts = {"runs": 0, "sampled": 0, "failed": 0}

    proj_jobs = []

    def one(case, tag, force_lean=False, proj=False):
        jobs = []
        nv = len(res.violations)
        obs = check_case(case, res, ctx, tag, jobs, proj)
        brief, tr, endT, mon, conc = jobs[0]
        counts["runs"] += 1
        if proj and obs.get("proj") and case.get("stack", "4") == "4" and not case.get("listen"):
            from . import c07proj

            try:
                ign = {x[0] for x in obs.get("ignored", [])}
                tr_proc = norm_trace(case, dict(obs, trace=[e for k, e in enumerate(obs["trace"]) if k not in ign]))
                proj_jobs.extend((tag,) + x for x in c07proj.lines_for(case, obs, lean_line(tr, endT), lean_line(tr_proc, endT), spell_type, svc_name))
            except Exception as ex:  # a side report must never break the check
                res.count("proj:line-builder-error:%s" % type(ex).__name__)
        interesting = any(mon.values()) or bool(conc) or len(res.violations) > nv
        if interesting:
            counts["failed"] += 1
        if force_lean or (interesting and counts["failed"] <= 400) or lrng.random() < lean_frac:
            counts["sampled"] += 1
            lean_jobs.append(jobs[0])
        return obs

    for name, body in C.load_corpus("C07"):
        case = body.get("case", body)
        case = case.get("case", case)
        one(case, "corpus/" + name, True)
        res.count("corpus")
    for i in range(n_scen):
        case = gen_case(rng, i, 0.04 if not thorough else 0.12)
        base = one(case, "gen/%d" % i, proj=ctx.get("driver_ok") and not ctx.get("widened") or bool(os.environ.get("VERIF_C07_PROJ")))
        res.count("family:" + case.get("family", "short"))
        n = base["ndeliveries"]
        # "the loss of any single datagram": (1) one delivery of it (one receiver misses it) -- swept for the first scenarios of the
        # thorough tier, sampled otherwise, biased to PTR-carrying datagrams (announcements / goodbyes / answers: the ones the
        # argument rests on); (2) the datagram itself -- every receiver misses it ("all": loop-back included; "remote": all others)
        tg = base["targets"]
        important = [x[0] for x in tg if any(it[0] == "p" for it in _items_of(base, x[1]))]
        sends_ptr = sorted({x[1] for x in tg if any(it[0] == "p" for it in _items_of(base, x[1]))})
        sends_q = sorted({x[1] for x in tg if any(it[0] == "q" for it in _items_of(base, x[1]))})
        nsend = base["nsend"]
        if i < n_sweep and n <= 800:  # (a many-services scenario has thousands of deliveries: sampled like the rest)
            cand = list(range(n))
            dcand = [(d, m) for d in range(nsend) for m in ("all", "remote")]
            res.count("scenarios-with-every-single-drop-swept")
        else:
            cand = drop_choices(rng, n, drops_per)
            if important:
                cand = sorted(set(cand) | set(rng.sample(important, min(len(important), max(2, drops_per // 2)))))
            ds = set(drop_choices(rng, nsend, dgram_per // 2))
            for pool in (sends_ptr, sends_q):
                if pool:
                    ds |= set(rng.sample(pool, min(len(pool), max(1, dgram_per // 4))))
            dcand = [(d, rng.choice(["all", "all", "remote"])) for d in sorted(ds)]
        for d in cand:
            c2 = json.loads(json.dumps(case))
            c2["net"]["drop"] = d
            one(c2, "gen/%d/drop%d" % (i, d))
        for d, m in dcand:
            c2 = json.loads(json.dumps(case))
            c2["net"]["drop"] = {"dgram": d, "mode": m}
            one(c2, "gen/%d/dgram%d-%s" % (i, d, m))
            res.count("whole-datagram-drops")
    res.count("traces-evaluated-by-lean-monitors", len(lean_jobs))
    res.notes.append("Lean monitors (zcdriver c07) evaluated on %d of %d traces (%s: %s); the Python monitors and the oracle on all %d"
                     % (len(lean_jobs), counts["runs"], tier,
                        "every trace" if lean_frac >= 1.0 else "widened search: uniform sample p=%.2f + all corpus cases + every run with a failed "
                        "monitor/conclusion/oracle" % lean_frac, counts["runs"]))
    if ctx.get("driver_ok"):
        lean_compare(res, lean_jobs)
        proj_report(res, proj_jobs)
    res.rule = ("random scenarios (2-5 hosts, up to 30% started late; 1-6 services of 1-3 types, IPv4 / IPv6-only / dual, default and non-default "
                "TTLs, with register / update / unregister / re-register at boundary-biased gaps; 1-4 browsers before/during/after, 30% of them one "
                "browser object for several types; types / instance labels / host names in mixed case; optional close; hosts with one IPv4 socket, one "
                "IPv6 socket (4-tuple deliveries, ff02::fb), both, or a dedicated listen socket; families: long horizons up to 2.5 h, "
                "unregister-then-close, vocabulary (late host, multi-type browser, mixed case), multi-packet (2-6 services with 300-900 byte TXT or "
                "21-32 services of one type on one host: answers and the close's goodbye are trains of packets)) x delivery schedules (0..100 ms uniform / extremes / mixed, duplication none/some/many) x the "
                "loss of one datagram: one of its deliveries (sampled, biased to PTR-carrying datagrams) or the whole datagram (every receiver, "
                "with or without the sender's loop-back); both swept exhaustively for the first tenth of the thorough scenarios; every run is "
                "observed at lastChange+16 s (the proven bound), +16.001 s, +30 s and then periodically; oracle and Python contract monitors on every "
                "run, compiled Lean monitors on every run (both tiers; a 30% sample plus corpus plus all failures only in the widened search); "
                "non-trivial = distinct (hosts, services, types, browsers, late host, drop, delay mode, dups, close, update, unregister, Removed seen, refused "
                "registration, socket topology, mixed case, multi-type browser, multi-packet message)")
    return res


def _has_train(obs):
    """did some host put two response datagrams with PTR items on the link at one instant for one destination (a split message)?"""
    seen = set()
    for e in obs["trace"]:
        if e[1] == "send" and any(it[0] == "p" for it in e[5]):
            k = (e[0], e[2], e[4], obs["datagrams"][e[3]][2])
            if k in seen:
                return True
            seen.add(k)
    return False


def _items_of(obs, d):
    for e in obs["trace"]:
        if e[1] == "send" and e[3] == d:
            return e[5]
    return []


def res_to_json(res):
    return {"evaluations": res.evaluations, "nontrivial": sorted(res.nontrivial), "samples": res.samples, "disagreements": res.disagreements,
            "violations": res.violations, "dist": res.dist, "rule": res.rule, "exhaustive": res.exhaustive, "notes": res.notes}


def res_from_json(j):
    res = C.Result("C07")
    res.evaluations = j["evaluations"]
    res.nontrivial = set(j["nontrivial"])
    res.samples = j["samples"]
    res.disagreements = j["disagreements"]
    res.violations = j["violations"]
    res.dist = j["dist"]
    res.rule = j["rule"]
    res.exhaustive = j["exhaustive"]
    res.notes = j["notes"]
    return res


def _subprocess(args, payload):
    """re-execute under PYTHONHASHSEED=0: record sets are iterated in string-hash order, which decides the bytes of
    emitted packets and therefore the delivery indices; replays must be reproducible"""
    env = dict(os.environ, PYTHONHASHSEED="0", PYTHONDONTWRITEBYTECODE="1")
    p = subprocess.run([sys.executable, "-m", "harness.c07"] + args, input=json.dumps(payload).encode(), stdout=subprocess.PIPE,
                       cwd=str(C.ROOT), env=env)
    if p.returncode != 0:
        raise RuntimeError("C07 worker failed (%d)" % p.returncode)
    return json.loads(p.stdout.decode())


def run(ctx):
    small = {k: ctx[k] for k in ("tier", "seed", "widened", "driver_ok")}
    if os.environ.get("PYTHONHASHSEED") == "0":
        return run_inner(small)
    return res_from_json(_subprocess(["run"], small))


def replay_inner(body):
    case = body.get("case", body)
    case = case.get("case", case)
    obs = run_case(case)
    tr = norm_trace(case, obs)
    vio = oracle(case, obs)
    mon = monitors(tr, obs["endT"])
    out = {"violates": bool(vio), "violations": vio, "contracts_violated": {k: w[:3] for k, w in mon.items() if w},
           "final": obs["final"], "registered": obs["registered"], "lastChange": obs["lastChange"], "endT": obs["endT"], "dropped": obs["dropped"],
           "callbacks": [e for e in obs["trace"] if e[1] in ("add", "rem")],
           "api": [e for e in obs["trace"] if e[1] in ("up", "close", "reg", "upd", "unreg", "browse")],
           "ptr_sends": [[e[0], "H%d" % e[2], e[5]] for e in obs["trace"] if e[1] == "send" and any(it[0] == "p" for it in e[5])]}
    try:
        out["model"] = C.run_driver([lean_line(tr, obs["endT"])])[0]
    except C.DriverUnavailable as ex:
        out["model"] = "driver unavailable: %s" % ex
    return out


def replay(body):
    if os.environ.get("PYTHONHASHSEED") == "0":
        return replay_inner(body)
    return _subprocess(["replay"], body)


if __name__ == "__main__":
    mode = sys.argv[1]
    payload = json.loads(sys.stdin.read())
    if mode == "run":
        print(json.dumps(res_to_json(run_inner(payload)), default=str))
    else:
        print(json.dumps(replay_inner(payload), default=str))
