"""C07 -- end-to-end discovery converges to the set of registered services.

Real `Zeroconf` instances (2-5 hosts, some started late) run under the virtual-time simulator
(`harness/vsim.py`) on a link that delays every delivery by 0..100 ms, reorders, duplicates and
drops one chosen delivery.  Every run is abstracted into a *link trace* (API calls, sends with the
PTR records / PTR questions they carry, deliveries, Added/Removed callbacks) and

  stage O  the property's own sentence is evaluated on the implementation: 30 s (>= settle = 16 s)
           after the last change every browser's live set equals the registered instances of its
           type, and a service-info lookup started from the Added callback resolves the advertised
           host, port, TXT and addresses;
  stage C  the seven single-host contracts K1..K7 (+ trace well-formedness) that are the hypotheses of
           `Zc.C07_convergence_partial` are evaluated on the real trace by an independent Python
           implementation and by the compiled Lean monitors (`zcdriver c07`); the verdicts, the derived
           state (held / live / registered per browser and service) and the conclusion are compared.  A
           contract that the real trace violates is reported by name.

Scenario JSON (`case`): see `gen_case`.  Times are ms since simulation start.
"""
from __future__ import annotations

import asyncio
import json
import os
import socket
import subprocess
import sys

from . import common as C
from . import vsim

TRACE = True
TRUSTED = [
    "C07: asyncio, sockets and the link are replaced by harness/vsim.py (integer-millisecond virtual clock, fake transports, "
    "multicast loops back to the sender); the abstraction of datagrams into PTR items (harness/c07.py:abstract) is trusted",
    "C07: the contracts K1-K7 are hypotheses of the Lean theorem; they are tied to the code only by being monitored on every simulated trace",
]
ASSUMPTIONS = [
    "link: every datagram reaches every host that is up within 100 ms at least once, except the deliveries of one chosen datagram (K7)",
    "API discipline: services have unique names and one owner; update/unregister are issued on registered services; a host is closed "
    "no earlier than 400 ms after its last register/update call (after the call returned) and 300 ms after its last unregister (an application "
    "awaiting the broadcast task that unregister returns); API calls on one service are at least 1 ms apart",
    "single loss = ONE datagram (any subset of its deliveries, up to all of them); observation horizons up to 2.5 virtual hours with "
    "PTR TTLs of 120-9000 s (expiry and refresh are in scope: K3b, KF)",
]

TYPES = ["_a._tcp.local.", "_b._tcp.local.", "_c._udp.local."]
SETTLE_MS = 16000  # the theorem's bound
WAIT_MS = 30000  # what the oracle waits (>= settle)
MDNS = vsim.MDNS_ADDR

CFG = dict(ann=[350, 575, 800], upd=[0, 225, 450], bye=[0, 125, 250], maxDelay=100, qLo=20, qHi=120,
           qOff=[0, 1000, 5000, 14000], dupQ=999, respBefore=1000, respAfter=1200, regDelay=350,
           ptrMinTtl=1125, cleanup=10000, refresh1=750, refresh2=850, refreshEarly=10000, refreshWin=30000)


# ------------------------------------------------------------------------------------------
# scenario generation


def gen_close_family(rng):
    """a browser that starts before a registration asks its second (QM) question just after the first announcement, so the
    answer waits a second in the protected multicast queue; the owner is closed (or the service unregistered) while it waits"""
    nh = rng.choice([2, 3])
    reg_t = rng.choice([650, 680, 700, 720, 740, rng.randint(600, 800)])
    end_t = reg_t + rng.choice([1250, 1300, 1350, rng.randint(1100, 1500)])
    ops = [[rng.choice([0, 1, rng.randint(0, 40)]), "browse", 1, 0], [reg_t, "register", 0]]
    if nh == 3:
        ops.append([rng.randint(0, 60), "browse", 2, 0])
    ops.append([end_t, rng.choice(["close", "close", "unregister"]), 0])
    ops.sort(key=lambda o: (o[0], o[1]))
    return {"simseed": rng.randrange(1 << 30), "hosts": [{"up": 0} for _ in range(nh)], "types": 1, "svcs": [{"owner": 0, "ty": 0}], "ops": ops,
            "net": {"seed": rng.randrange(1 << 30), "mode": rng.choice(["extreme", "extreme", "mixed"]), "drop": None, "dups": "none"}}


def gen_flap_family(rng):
    """long horizon (a): a service flaps (register / unregister / re-register within 0-15 s) in front of browsers that were
    already there, then nothing changes for more than two virtual hours; every browser is observed every few minutes: the
    refresh machinery (75 % / 85 % / 95 % of the 4500 s PTR TTL) has to keep the re-registered instance alive"""
    nh = rng.choice([2, 2, 3])
    nsvc = rng.choice([1, 1, 2])
    svcs = [{"owner": 0, "ty": 0} for _ in range(nsvc)]
    ops = [[rng.choice([0, 1, rng.randint(0, 300)]), "browse", 1, 0]]
    if nh == 3 and rng.random() < 0.7:
        ops.append([rng.choice([0, rng.randint(0, 2000), rng.randint(0, 20000)]), "browse", 2, 0])
    for i in range(nsvc):
        t = rng.choice([400, 1000, rng.randint(350, 3000)])
        ops.append([t, "register", i])
        cur = t + 350
        flaps = rng.choice([1, 1, 2]) if i == 0 else rng.choice([0, 1])
        for _ in range(flaps):
            cur += rng.choice([1, 300, 1000, 2500, rng.randint(1, 6000)])
            ops.append([cur, "unregister", i])
            cur += rng.choice([150, 400, 1000, 1100, 2000, rng.randint(101, 5000)])
            ops.append([cur, "register", i])
            cur += 350
    ops.sort(key=lambda o: (o[0], o[1]))
    return {"simseed": rng.randrange(1 << 30), "hosts": [{"up": 0} for _ in range(nh)], "types": 1, "svcs": svcs, "ops": ops,
            "horizon": rng.choice([7500000, 7500000, 9000000]), "every": rng.choice([240000, 300000, 420000]), "family": "flap-long",
            "net": {"seed": rng.randrange(1 << 30), "mode": rng.choice(["uniform", "extreme", "mixed"]), "drop": None,
                    "dups": rng.choice(["none", "none", "some"])}}


def gen_late_browser_family(rng):
    """long horizon (b): browsers started 1-80 virtual minutes after the last announcement, on a host that overheard it (the
    cached PTR is fresh, stale, or expired by then) and on a host that came up later and did not; optionally an early browser
    elsewhere whose refresh traffic everybody overhears"""
    nh = rng.choice([2, 3, 3, 4])
    minute = 60000
    hosts = [{"up": 0} for _ in range(nh)]
    nsvc = rng.choice([1, 1, 2])
    svcs = [{"owner": 0, "ty": 0} for _ in range(nsvc)]
    ops = [[rng.choice([0, 1, rng.randint(0, 2000)]), "register", i] for i in range(nsvc)]
    if rng.random() < 0.3:
        ops.append([rng.randint(3000, 20000), "update", 0] + ([{"other_ttl": rng.choice(PTR_TTLS)}] if rng.random() < 0.5 else []))
    m = rng.choice([1, 5, 10, 30, 37, 38, 40, 45, 50, 56, 57, 60, 65, 70, 74, 75, 76, 80]) * minute + rng.choice([0, 1, rng.randint(0, minute)])
    if rng.random() < 0.25:
        # around the 75 % point of the default TTL (announcements at ~0.35-0.8 s + 3375 s): the browser starts after it, or so
        # shortly before it that the 75 % point falls into its start-up phase (K3b's start-up branch: the boundary is 24.12 s)
        m = 3375000 + rng.choice([-40000, -30000, -26000, -25000, -24200, -24000, -23000, -15000, -5000, -1000, 0, 500, 1000, 5000]) \
            + rng.choice([0, 350, 800, rng.randint(0, 1000)])
    ops.append([m, "browse", 1, 0])
    if nh >= 3:
        if rng.random() < 0.6:  # a host that did not overhear anything
            hosts[2]["up"] = rng.choice([rng.randint(2, 70) * minute, m + rng.randint(-minute, minute)])
            ops.append([hosts[2]["up"] + rng.choice([0, 1, rng.randint(0, 5000)]), "browse", 2, 0])
        else:
            ops.append([rng.randint(1, 75) * minute, "browse", 2, 0])
    if nh == 4 and rng.random() < 0.5:  # an early browser: its 75 % refresh question is answered by multicast
        ops.append([rng.choice([0, rng.randint(0, 5000)]), "browse", 3, 0])
    ops.sort(key=lambda o: (o[0], o[1]))
    return {"simseed": rng.randrange(1 << 30), "hosts": hosts, "types": 1, "svcs": svcs, "ops": ops,
            "horizon": rng.choice([120000, 600000, 3600000]), "every": rng.choice([60000, 120000, 300000]), "family": "late-browser",
            "net": {"seed": rng.randrange(1 << 30), "mode": rng.choice(["uniform", "extreme", "mixed"]), "drop": None,
                    "dups": rng.choice(["none", "none", "some"])}}


PTR_TTLS = [120, 600, 1125, 1126, 1200, 1500, 2000, 3000, 4500, 9000]   # other_ttl; below 1125 the cache raises it to the floor
HOST_TTLS = [None, None, 30, 120, 600]


def mixed_ttls(rng, svcs, p=0.6):
    """non-default TTLs per service (PTR/TXT: other_ttl, SRV/address: host_ttl), mixed within one type"""
    for sv in svcs:
        if rng.random() < p:
            sv["other_ttl"] = rng.choice(PTR_TTLS)
        if rng.random() < 0.3:
            sv["host_ttl"] = rng.choice(HOST_TTLS)
    return svcs


def gen_mixed_ttl_family(rng):
    """long horizon (c): a browser that has finished its start-up queries (asleep until the earliest refresh it knows) learns
    services of its type with different PTR TTLs, registered in either order (long TTL first then a shorter one: the armed wake-up
    has to move earlier; or the short one first), 1-120 s apart; observed every few minutes for 1.5-2.5 virtual hours"""
    nh = rng.choice([2, 2, 3])
    nsvc = rng.choice([2, 2, 3])
    ttls = [rng.choice(PTR_TTLS) for _ in range(nsvc)]
    if rng.random() < 0.7:  # make sure long and short are both present
        ttls[0], ttls[1] = rng.choice([4500, 9000, 3000]), rng.choice([120, 1125, 1200, 1500, 2000])
        if rng.random() < 0.5:
            ttls[0], ttls[1] = ttls[1], ttls[0]
    svcs = [{"owner": rng.choice([0, 0, nh - 1]) if nh == 3 else 0, "ty": 0, "other_ttl": ttls[i]} for i in range(nsvc)]
    for sv in svcs:
        if rng.random() < 0.3:
            sv["host_ttl"] = rng.choice(HOST_TTLS)
    ops = [[rng.choice([0, 1, rng.randint(0, 300)]), "browse", 1, 0]]
    if nh == 3 and rng.random() < 0.5:
        ops.append([rng.choice([0, rng.randint(0, 60000)]), "browse", 2, 0])
    t = rng.choice([1000, rng.randint(0, 3000), rng.randint(16000, 40000)])
    for i in range(nsvc):
        ops.append([t, "register", i])
        t += rng.choice([1000, 5000, 16000, 29000, 60000, rng.randint(400, 120000)])
    if rng.random() < 0.25:
        ops.append([t + rng.randint(0, 600000), "update", rng.randrange(nsvc)])
    if rng.random() < 0.4:  # an update that changes the PTR TTL (shorter -> longer and longer -> shorter)
        ops.append([t + rng.choice([2000, 30000, rng.randint(0, 900000)]), "update", rng.randrange(nsvc), {"other_ttl": rng.choice(PTR_TTLS)}])
    ops.sort(key=lambda o: (o[0], o[1]))
    return {"simseed": rng.randrange(1 << 30), "hosts": [{"up": 0} for _ in range(nh)], "types": 1, "svcs": svcs, "ops": ops,
            "horizon": rng.choice([5400000, 7500000, 9000000]), "every": rng.choice([120000, 240000, 300000]), "family": "mixed-ttl-long",
            "net": {"seed": rng.randrange(1 << 30), "mode": rng.choice(["uniform", "extreme", "mixed"]), "drop": None,
                    "dups": rng.choice(["none", "none", "some"])}}


def gen_unreg_close_family(rng):
    """review F2: the schedule the API discipline used to exclude -- a host unregisters its (only) service and is closed before the
    unregister's second / third goodbye is due (what the synchronous `unregister_service(info); close()` of the library's own
    example does): `_close` sets `done`, the remaining goodbyes are silently dropped"""
    nh = rng.choice([2, 3])
    nsvc = rng.choice([1, 1, 2])  # with a second service still registered the close takes 250 ms and the goodbyes usually get out
    svcs = [{"owner": 0, "ty": 0} for _ in range(nsvc)]
    ops = [[rng.choice([0, rng.randint(0, 300)]), "browse", 1, 0]]
    if nh == 3:
        ops.append([rng.randint(0, 2500), "browse", 2, 0])
    for i in range(nsvc):
        ops.append([rng.randint(300, 1200), "register", i])
    tu = rng.randint(2600, 5000)
    ops.append([tu, "unregister", 0])
    ops.append([tu + rng.choice([1, 2, 50, 124, 125, 126, 200, 249, 250, 251]), "close", 0])
    ops.sort(key=lambda o: (o[0], o[1]))
    return {"simseed": rng.randrange(1 << 30), "hosts": [{"up": 0} for _ in range(nh)], "types": 1, "svcs": svcs, "ops": ops,
            "family": "unregister-then-close",
            "net": {"seed": rng.randrange(1 << 30), "mode": rng.choice(["uniform", "extreme", "mixed"]), "drop": None, "dups": "none"}}


def gen_case(rng, idx=0, long_p=0.05):
    if idx == 6 or (idx > 6 and rng.random() < 0.02):
        return gen_unreg_close_family(rng)
    # the first scenarios of every run are long-horizon ones (cycling through the families), then each with probability long_p
    if idx < 6:
        c = [gen_flap_family, gen_late_browser_family, gen_mixed_ttl_family][idx % 3](rng)
        if idx >= 3 and c["family"] != "mixed-ttl-long":
            mixed_ttls(rng, c["svcs"])
        return c
    r = rng.random()
    if r < 3 * long_p:
        c = [gen_flap_family, gen_late_browser_family, gen_mixed_ttl_family][int(r / long_p)](rng)
        if c["family"] != "mixed-ttl-long" and rng.random() < 0.5:
            mixed_ttls(rng, c["svcs"])
        return c
    if rng.random() < 0.12:
        return gen_close_family(rng)
    nh = rng.choice([2, 2, 3, 3, 4, 5])
    ntypes = rng.choice([1, 1, 2, 3])
    nsvc = rng.randint(1, 6)
    hosts = []
    for i in range(nh):
        up = 0
        if i >= 1 and rng.random() < 0.3:
            up = rng.choice([rng.randint(1, 3000), rng.randint(300, 1500), rng.randint(2000, 8000)])
        hosts.append({"up": up})
    ops = []
    last_reg_on_host = {}
    last_unreg_on_host = {}
    svcs = []
    for s in range(nsvc):
        owner = rng.randrange(nh)
        ty = rng.randrange(ntypes)
        svcs.append({"owner": owner, "ty": ty})
        if rng.random() < 0.25:
            svcs[-1]["ip"] = rng.choice(["v6", "v6", "dual"])  # IPv6-only / dual-stack services
        t = hosts[owner]["up"] + rng.choice([0, 1, rng.randint(0, 400), rng.randint(0, 4000), rng.randint(0, 8000)])
        ops.append([t, "register", s])
        last_reg_on_host[owner] = max(last_reg_on_host.get(owner, 0), t)
        # follow-ups: any mix of update / unregister / re-register at boundary-biased gaps after the call returns (t+350)
        k = rng.random()
        cur = t + 350
        n_follow = 0 if k < 0.3 else (1 if k < 0.7 else (2 if k < 0.9 else 3))
        registered = True
        for _ in range(n_follow):
            gap = rng.choice([1, 2, 30, 224, 225, 226, 449, 450, 451, rng.randint(1, 500), rng.randint(1, 1500), rng.randint(1, 6000)])
            cur += gap
            if registered:
                if rng.random() < 0.55:
                    ops.append([cur, "unregister", s])
                    last_unreg_on_host[owner] = max(last_unreg_on_host.get(owner, 0), cur)
                    registered = False
                else:
                    ops.append([cur, "update", s])
                    last_reg_on_host[owner] = max(last_reg_on_host.get(owner, 0), cur)
            else:
                cur += rng.choice([0, 1, 100, 350, 1001, rng.randint(0, 1500)])  # (gap >= 1 already added)
                ops.append([cur, "register", s])
                last_reg_on_host[owner] = max(last_reg_on_host.get(owner, 0), cur)
                registered = True
                cur += 350
    nb = rng.randint(1, 4)
    for b in range(nb):
        h = rng.randrange(nh)
        ty = rng.randrange(ntypes)
        t = hosts[h]["up"] + rng.choice([0, 0, rng.randint(0, 300), rng.randint(0, 2000), rng.randint(0, 9000)])
        ops.append([t, "browse", h, ty])
    if nh > 2 and rng.random() < 0.35:
        h = rng.randrange(nh)
        t = max(hosts[h]["up"] + rng.randint(500, 7000), last_reg_on_host.get(h, -400) + 400 + rng.choice([0, 1, rng.randint(0, 3000)]),
                last_unreg_on_host.get(h, 0) + 300 + rng.choice([0, 1, rng.randint(0, 3000)]))
        ops = [o for o in ops if not (_op_host(o, svcs) == h and o[0] >= t)]
        ops.append([t, "close", h])
    ops.sort(key=lambda o: (o[0], o[1]))
    mode = rng.choice(["uniform", "extreme", "mixed", "mixed"])
    net = {"seed": rng.randrange(1 << 30), "mode": mode, "drop": None, "dups": "none" if rng.random() < 0.5 else rng.choice(["some", "many"])}
    return {"simseed": rng.randrange(1 << 30), "hosts": hosts, "types": ntypes, "svcs": svcs, "ops": ops, "net": net}


def _op_host(o, svcs):
    if o[1] in ("register", "update", "unregister"):
        return svcs[o[2]]["owner"]
    return o[2]


# ------------------------------------------------------------------------------------------
# link


class Plan:
    """per-delivery delay / duplication, a pure function of (net seed, delivery index)"""

    def __init__(self, net):
        self.net = net

    def _r(self, i, salt):
        return C.rng_for(self.net["seed"], salt, i)

    def delay(self, i, salt="d"):
        r = self._r(i, salt)
        m = self.net["mode"]
        if m == "uniform":
            return r.randint(0, 100)
        if m == "extreme":
            return r.choice([0, 100])
        return r.choice([0, 0, 1, 50, 99, 100, 100, r.randint(0, 100)])

    def dup(self, i):
        d = self.net["dups"]
        if d == "none":
            return False
        return self._r(i, "dup").random() < (0.08 if d == "some" else 0.4)


def abstract(data, names):
    """datagram -> list of items: ["p", svcidx, ttl, full] / ["q", tyidx, [known svcidx...], qu]"""
    from zeroconf import DNSIncoming, const
    from zeroconf._dns import DNSAddress, DNSPointer, DNSService, DNSText

    m = DNSIncoming(data)
    if not m.valid:
        return []
    items = []
    recs = m.answers()
    if m.is_query():
        known = sorted({names[r.alias.lower()] for r in recs
                        if isinstance(r, DNSPointer) and r.type == const._TYPE_PTR and r.alias.lower() in names})
        for q in m.questions:
            if q.type == const._TYPE_PTR and q.name.lower() in TYPE_IDX:
                ty = TYPE_IDX[q.name.lower()]
                items.append(["q", ty, [k for k in known if SVC_TY[k] == ty], bool(q.unique)])
        return items
    have = {}
    for r in recs:
        key = r.name.lower()
        if isinstance(r, DNSService):
            have.setdefault(key, {})["srv"] = r.server.lower()
        elif isinstance(r, DNSText):
            have.setdefault(key, {})["txt"] = True
    addr_names = {r.name.lower() for r in recs if isinstance(r, DNSAddress)}
    for r in recs:
        if isinstance(r, DNSPointer) and r.type == const._TYPE_PTR and r.alias.lower() in names and r.name.lower() in TYPE_IDX:
            s = names[r.alias.lower()]
            hv = have.get(r.alias.lower(), {})
            full = bool("srv" in hv and "txt" in hv and hv["srv"] in addr_names)
            it = ["p", s, int(r.ttl), full]
            if it not in items:
                items.append(it)
    return items


TYPE_IDX = {t: i for i, t in enumerate(TYPES)}
SVC_TY = {}


def svc_name(i, ty):
    return "s%d.%s" % (i, TYPES[ty])


def all_addresses(info):
    from zeroconf import IPVersion

    return info.addresses_by_version(IPVersion.All)


def run_case(case):
    """run one scenario on the real code; returns the observation dict"""
    from zeroconf import ServiceInfo, ServiceListener
    from zeroconf.asyncio import AsyncServiceBrowser, AsyncServiceInfo

    sim = vsim.Sim(case["simseed"], maxdelay=100)
    plan = Plan(case["net"])
    svcs = [dict(sv) for sv in case["svcs"]]  # (an `update` op may change a service's TTLs)
    names = {svc_name(i, s["ty"]).lower(): i for i, s in enumerate(svcs)}
    SVC_TY.clear()
    SVC_TY.update({i: s["ty"] for i, s in enumerate(svcs)})
    trace = []  # abstract events
    memo = {}
    net = sim.net
    net.n = 0
    net.targets = []
    net.dropped = None
    hosts = [None] * len(case["hosts"])
    hstate = ["down"] * len(hosts)  # down | up | closed
    sstate = ["idle"] * len(svcs)  # idle | registering | registered
    versions = [[] for _ in svcs]  # advertised (t, port, txt, server, addr)
    cur_info = [None] * len(svcs)
    browsers = []
    lookups = []
    skipped = []
    api_times = []
    drop = case["net"].get("drop")
    drop_dgram = None
    if isinstance(drop, dict):  # {"dgram": send index, "mode": "all" | "remote"}
        drop_dgram, drop = drop, None

    def now():
        return sim.now()

    def ab(data):
        it = memo.get(data)
        if it is None:
            it = memo[data] = abstract(data, names)
        return it

    def net_send(src, data, addr):
        t = now()
        d = len(net.log)
        net.log.append((t, src.name, addr[0], addr[1], data))
        items = ab(data)
        mc = addr[0] == MDNS
        dst = None
        if not mc:
            for h in net.hosts:
                if h.ip == addr[0]:
                    dst = h.idx
            if dst is None:
                dst = 99
        trace.append([t, "send", src.idx, d, dst, items])
        for h in net.hosts:
            if mc or h.ip == addr[0]:
                i = net.n
                net.n += 1
                net.targets.append([i, d, h.idx, t])
                if i == drop:
                    net.dropped = [d, h.idx]
                    continue
                if drop_dgram is not None and drop_dgram["dgram"] == d and (drop_dgram.get("mode", "all") == "all" or h is not src):
                    # the datagram itself is lost: for every receiver ("all": at the sender, loop-back included) or for every
                    # other host ("remote": on the wire, the sender still hears itself)
                    net.dropped = ["dgram", d, drop_dgram.get("mode", "all")]
                    continue
                sim.loop.call_later(plan.delay(i) / 1000.0, deliver, h, d, src, mc, data, items)
                if plan.dup(i):
                    sim.loop.call_later(plan.delay(i, "d2") / 1000.0, deliver, h, d, src, mc, data, items)

    def deliver(h, d, src, mc, data, items):
        if h.transport is None or h.transport.closed or hstate[h.idx] != "up":
            return
        trace.append([now(), "dlv", d, src.idx, h.idx, 1 if mc else 0, items])
        h.transport.protocol.datagram_received(data, (src.ip, src.port))

    net.send = net_send

    class L(ServiceListener):
        def __init__(self, b, zc):
            self.b = b
            self.zc = zc
            self.live = set()
            self.bad = []

        def add_service(self, zc, t, n):
            s = names.get(n.lower())
            if n in self.live:
                self.bad.append(["double-add", n, now()])
            self.live.add(n)
            trace.append([now(), "add", self.b, s if s is not None else -1])
            if s is not None:
                asyncio.ensure_future(lookup(self.b, zc, t, n, s))

        def remove_service(self, zc, t, n):
            s = names.get(n.lower())
            if n not in self.live:
                self.bad.append(["remove-without-add", n, now()])
            self.live.discard(n)
            trace.append([now(), "rem", self.b, s if s is not None else -1])

        def update_service(self, zc, t, n):
            pass

    async def lookup(b, zc, ty, name, s):
        t0 = now()
        info = AsyncServiceInfo(ty, name)
        try:
            ok = await info.async_request(zc, 3000)
        except Exception as ex:  # a closed instance raises; judged by the oracle only when the host stayed up
            ok = "exc:" + type(ex).__name__
        lookups.append({"b": b, "s": s, "t0": t0, "t1": now(), "ok": ok, "port": info.port, "server": info.server,
                        "txt": (info.text or b"").hex(), "addrs": sorted(a.hex() for a in all_addresses(info))})

    def make_info(i, ver):
        s = svcs[i]
        h = hosts[s["owner"]]
        ty = TYPES[s["ty"]]
        kw = {}
        if s.get("other_ttl") is not None:
            kw["other_ttl"] = s["other_ttl"]  # TTL of the PTR (and TXT) record
        if s.get("host_ttl") is not None:
            kw["host_ttl"] = s["host_ttl"]  # TTL of SRV / address records
        addrs = [socket.inet_aton(h.ip)]
        if s.get("ip") == "v6":
            addrs = [socket.inet_pton(socket.AF_INET6, "2001:db8::%x" % (s["owner"] + 1))]
        elif s.get("ip") == "dual":
            addrs.append(socket.inet_pton(socket.AF_INET6, "2001:db8::%x" % (s["owner"] + 1)))
        return ServiceInfo(ty, svc_name(i, s["ty"]), 8000 + 10 * i + ver, addresses=addrs,
                           server="h%d.local." % s["owner"], properties={"k": "v%d" % ver, "i": str(i)}, **kw)

    def advertise(i, info):
        versions[i].append({"t": now(), "port": info.port, "server": info.server, "txt": info.text.hex(),
                            "addrs": sorted(a.hex() for a in all_addresses(info))})

    async def host_up(i):
        await sim.sleep_until(case["hosts"][i]["up"])
        h = sim.make_host("H%d" % i, "10.0.0.%d" % (i + 1))
        h.idx = i
        hosts[i] = h
        await h.zc.async_wait_for_start()
        hstate[i] = "up"
        trace.append([now(), "up", i])
        api_times.append(now())

    async def do_op(op):
        t, kind = op[0], op[1]
        await sim.sleep_until(t)
        oh = _op_host(op, svcs)
        for _ in range(40):  # an op scheduled at the very instant its host comes up runs after the host has started
            if hstate[oh] != "down" or case["hosts"][oh]["up"] > t:
                break
            await asyncio.sleep(0)
        if kind == "browse":
            h, ty = op[2], op[3]
            if hstate[h] != "up":
                skipped.append(op)
                return
            b = len(browsers)
            lst = L(b, hosts[h].zc)
            browsers.append({"host": h, "ty": ty, "listener": lst, "t": now()})
            trace.append([now(), "browse", b])
            api_times.append(now())
            browsers[b]["br"] = AsyncServiceBrowser(hosts[h].zc, [TYPES[ty]], listener=lst)
            return
        if kind == "close":
            h = op[2]
            if hstate[h] != "up" or any(sstate[i] == "registering" and svcs[i]["owner"] == h for i in range(len(svcs))):
                skipped.append(op)
                return
            for i, s in enumerate(svcs):
                if s["owner"] == h and sstate[i] == "registered":
                    trace.append([now(), "unreg", i])
                    sstate[i] = "idle"
            trace.append([now(), "close", h])
            api_times.append(now())
            hstate[h] = "closed"
            await vsim.close_host(hosts[h])
            return
        i = op[2]
        h = svcs[i]["owner"]
        if hstate[h] != "up":
            skipped.append(op)
            return
        zc = hosts[h].zc
        if kind == "register":
            if sstate[i] != "idle":
                skipped.append(op)
                return
            ver = len(versions[i])
            info = make_info(i, ver)
            sstate[i] = "registering"
            ev = [now(), "reg?", i]
            trace.append(ev)
            api_times.append(now())
            try:
                await zc.async_register_service(info)
            except Exception as ex:
                ev[1] = "regfail:" + type(ex).__name__
                sstate[i] = "idle"
                return
            ev[1] = "reg"
            ev.append(now())
            sstate[i] = "registered"
            cur_info[i] = info
            advertise(i, info)
        elif kind == "update":
            if sstate[i] != "registered":
                skipped.append(op)
                return
            if len(op) > 3 and isinstance(op[3], dict):  # update with new TTLs: [t, "update", i, {"other_ttl": ..}]
                svcs[i].update(op[3])
            info = make_info(i, len(versions[i]))
            trace.append([now(), "upd", i])
            api_times.append(now())
            cur_info[i] = info
            advertise(i, info)
            await zc.async_update_service(info)
        elif kind == "unregister":
            if sstate[i] != "registered":
                skipped.append(op)
                return
            trace.append([now(), "unreg", i])
            api_times.append(now())
            sstate[i] = "idle"
            await zc.async_unregister_service(cur_info[i])

    out = {}

    async def main(sim_):
        tasks = [asyncio.ensure_future(host_up(i)) for i in range(len(hosts))]
        await asyncio.sleep(0)
        tasks += [asyncio.ensure_future(do_op(op)) for op in case["ops"]]
        await asyncio.gather(*tasks)
        last = max(api_times) if api_times else 0
        out["lastChange"] = last
        # observations: once WAIT_MS after the last change, then (long-horizon cases) every `every` ms until `horizon`
        obs_times = [last + SETTLE_MS, last + SETTLE_MS + 1, last + WAIT_MS]  # exactly at the proven bound, 1 ms later, and at 30 s
        if case.get("horizon"):
            t = last + WAIT_MS
            while t < last + case["horizon"]:
                t += case.get("every", 300000)
                obs_times.append(t)
        out["observations"] = []
        for ot in obs_times:
            await sim.sleep_until(ot)
            trace.append([now(), "obs"])
            out["observations"].append({"t": now(), "final": [
                {"b": b, "host": br["host"], "ty": br["ty"], "closed": hstate[br["host"]] != "up",
                 "live": sorted(names[n.lower()] for n in br["listener"].live if n.lower() in names),
                 "bad": list(br["listener"].bad)} for b, br in enumerate(browsers)]})
        out["endT"] = now()
        out["final"] = out["observations"][-1]["final"]
        out["registered"] = [i for i in range(len(svcs)) if sstate[i] == "registered"]
        out["inflight"] = [i for i in range(len(svcs)) if sstate[i] == "registering"]
        for br in browsers:
            if hstate[br["host"]] == "up":
                await br["br"].async_cancel()
        for i, h in enumerate(hosts):
            if h is not None and hstate[i] == "up":
                hstate[i] = "closed"
                await h.zc._async_close()

    sim.run(main)
    out["trace"] = [e for e in trace if not e[1].startswith("regfail") and e[1] != "reg?"]
    out["regfail"] = [e for e in trace if e[1].startswith("regfail") or e[1] == "reg?"]
    out["lookups"] = lookups
    out["versions"] = versions
    out["skipped"] = skipped
    out["errors"] = [str(e.get("exception") or e.get("message"))[:200] for e in sim.errors]
    out["ndeliveries"] = net.n
    out["targets"] = net.targets
    out["dropped"] = net.dropped
    out["browsers"] = [{"host": b["host"], "ty": b["ty"], "t": b["t"]} for b in browsers]
    out["nsend"] = len(net.log)
    out["datagrams"] = [[t, src, ip, port, data.hex()] for (t, src, ip, port, data) in net.log]
    return out


# ------------------------------------------------------------------------------------------
# abstract trace (shared by the Python monitors and the Lean line)
#
# events (t first):  up h | close h | reg s | upd s | unreg s | browse b | send h d dst items | dlv d src h mc items
#                    add b s | rem b s        with s, b indices into case["svcs"], obs["browsers"]


def svc_of(case, i):
    if i < 0 or i >= len(case["svcs"]):
        return (98, 98, i & 0xFFFF)
    s = case["svcs"][i]
    return (s["owner"], s["ty"], i)


def norm_trace(case, obs):
    """trace with services / browsers expanded to (owner, ty, idx) / (host, ty, idx) triples"""
    brs = obs["browsers"]

    def B(b):
        return (brs[b]["host"], brs[b]["ty"], b)

    def S(i):
        return svc_of(case, i)

    def items(its):
        o = []
        for it in its:
            if it[0] == "p":
                o.append(("p", S(it[1]), it[2], bool(it[3])))
            else:
                o.append(("q", it[1], tuple(S(k) for k in it[2]), bool(it[3])))
        return tuple(o)

    tr = []
    for e in obs["trace"]:
        t, k = e[0], e[1]
        if k in ("up", "close"):
            tr.append((t, k, e[2]))
        elif k in ("reg", "upd", "unreg"):
            tr.append((t, k, S(e[2])))
        elif k == "browse":
            tr.append((t, k, B(e[2])))
        elif k == "send":
            tr.append((t, k, e[2], e[3], e[4], items(e[5])))
        elif k == "dlv":
            tr.append((t, k, e[2], e[3], e[4], bool(e[5]), items(e[6])))
        elif k in ("add", "rem"):
            tr.append((t, k, B(e[2]), S(e[3])))
        elif k == "obs":
            tr.append((t, k))
    return tr


def lean_line(tr, endT):
    def S(s):
        return "%d %d %d" % s

    def its(items):
        o = [str(len(items))]
        for it in items:
            if it[0] == "p":
                o.append("p %s %d %s" % (S(it[1]), it[2], C.b01(it[3])))
            else:
                o.append("q %d %d %s %s" % (it[1], len(it[2]), " ".join(S(k) for k in it[2]) if it[2] else "", C.b01(it[3])))
        return " ".join(x for x in o if x != "")

    out = ["c07", str(endT), str(len(tr))]
    for e in tr:
        t, k = e[0], e[1]
        if k in ("up", "close"):
            out.append("%s %d %d" % (k, t, e[2]))
        elif k in ("reg", "upd", "unreg", "browse"):
            out.append("%s %d %s" % (k, t, S(e[2])))
        elif k == "send":
            out.append("send %d %d %d %s %s" % (t, e[2], e[3], "-" if e[4] is None else str(e[4]), its(e[5])))
        elif k == "dlv":
            out.append("dlv %d %d %d %d %s %s" % (t, e[2], e[3], e[4], C.b01(e[5]), its(e[6])))
        elif k == "obs":
            out.append("obs %d" % t)
        else:
            out.append("%s %d %s %s" % (k, t, S(e[2]), S(e[3])))
    return " ".join(" ".join(out).split())


# ------------------------------------------------------------------------------------------
# Python reference implementation of the contracts (mirrors lean/Zc/Model/Link.lean; written independently)


def ptr_of(items, s):
    for it in items:
        if it[0] == "p" and it[1] == s:
            return it[2]
    return None


def pos_full(items, s):
    for it in items:
        if it[0] == "p" and it[1] == s:
            return it[2] > 0 and it[3]
    return False


def held(tr, h, s):
    v = False
    for e in tr:
        if e[1] == "dlv" and e[4] == h:
            p = ptr_of(e[6], s)
            if p is not None:
                v = p > 0
    return v


def last_ptr(tr, h, s):
    """(ttl, time) of the last PTR(s) processed by h, or None"""
    v = None
    for e in tr:
        if e[1] == "dlv" and e[4] == h:
            p = ptr_of(e[6], s)
            if p is not None:
                v = (p, e[0])
    return v


def eff_ttl(ttl, cfg=None):
    return max(ttl, (cfg or CFG)["ptrMinTtl"]) * 1000


def unexpired(tr, h, s, T, grace, cfg=None):
    v = last_ptr(tr, h, s)
    return True if v is None else T < v[1] + eff_ttl(v[0], cfg) + grace


def live(tr, b, s):
    v = False
    for e in tr:
        if e[1] in ("add", "rem") and e[2] == b and e[3] == s:
            v = e[1] == "add"
    return v


def registered(tr, s):
    v = False
    for e in tr:
        if e[1] in ("reg", "upd") and e[2] == s:
            v = True
        elif e[1] == "unreg" and e[2] == s:
            v = False
    return v


def last_change(tr):
    ts = [e[0] for e in tr if e[1] in ("up", "close", "reg", "upd", "unreg", "browse")]
    return max(ts) if ts else 0


def monitors(tr, endT, cfg=CFG):
    """name -> list of witnesses of violation (empty = contract holds on this trace)"""
    bad = {k: [] for k in ("WF", "K1", "K2", "K3", "K4", "K5", "K6", "K7", "K5a", "K6f", "K3b", "KF")}
    ev = lambda k: [e for e in tr if e[1] == k]
    ups, closes, regs, upds, unregs, browses, sends, dlvs = (ev(k) for k in ("up", "close", "reg", "upd", "unreg", "browse", "send", "dlv"))
    D = cfg["maxDelay"]

    def up_at(h, t):
        return any(u[2] == h and u[0] <= t for u in ups)

    def up_before(h, t):
        return any(u[2] == h and u[0] < t for u in ups)

    def closed_by(h, t):
        return any(c[2] == h and c[0] <= t for c in closes)

    def never_closed(h):
        return not any(c[2] == h for c in closes)

    # ---- WF
    for a, b in zip(tr, tr[1:]):
        if a[0] > b[0]:
            bad["WF"].append(["unsorted", a[0], b[0]])
    for e in tr:
        if e[0] > endT:
            bad["WF"].append(["after-end", e[0]])
    for r in regs:
        s = r[2]
        if not up_at(s[0], r[0]):
            bad["WF"].append(["register-on-down-host", r[0], s])
        for c in closes:
            if c[2] == s[0] and not (r[0] < c[0] and any(u[2] == s and r[0] < u[0] <= c[0] for u in unregs)):
                bad["WF"].append(["register-vs-close", r[0], c[0], s])
    for b in browses:
        if not up_at(b[2][0], b[0]):
            bad["WF"].append(["browse-on-down-host", b[0], b[2]])
    for u in upds:
        s = u[2]
        if not any(r[2] == s and r[0] + cfg["regDelay"] <= u[0] and not any(x[2] == s and r[0] <= x[0] <= u[0] for x in unregs) for r in regs):  # noqa
            bad["WF"].append(["update-unregistered", u[0], s])
    regevs = regs + upds + unregs
    for i, a in enumerate(regevs):
        for b in regevs[i + 1:]:
            if a[2] == b[2] and a[0] == b[0]:
                bad["WF"].append(["same-instant-api-calls-on-one-service", a[0], a[2]])

    # ---- K7
    for e in dlvs:
        t, _, d, src, h, mc, items = e
        ok = any(s[3] == d and s[2] == src and s[5] == items and s[0] <= t <= s[0] + D
                 and ((s[4] is None) == mc) and (s[4] is None or s[4] == h) for s in sends)
        if not ok or not up_at(h, t):
            bad["K7"].append(["delivery-without-send-in-100ms", t, d, h])
    hostset = []
    for u in ups:
        if u[2] not in hostset:
            hostset.append(u[2])
    missing = []
    for s in sends:
        t, _, src, d, dst, items = s
        if t + D > endT:
            continue
        for h in hostset:
            if (dst is None or dst == h) and up_before(h, t) and not closed_by(h, t + D):
                if not any(e[2] == d and e[4] == h and e[6] == items and t <= e[0] <= t + D for e in dlvs):
                    missing.append((d, t, h))
    if any((a[0], a[1]) != (b[0], b[1]) for a in missing for b in missing):  # all missing deliveries are of ONE datagram
        bad["K7"].append(["deliveries-of-more-than-one-datagram-missing", missing[:4]])

    # ---- K6 / K2 safety
    def reg_since(s, x, y_excl=None, y_incl=None):
        for r in regs:
            if r[2] == s and r[0] + cfg["regDelay"] <= x:
                if y_excl is not None and not any(u[2] == s and r[0] <= u[0] < y_excl for u in unregs):
                    return True
                if y_incl is not None and not any(u[2] == s and r[0] < u[0] <= y_incl for u in unregs):
                    return True
        return False

    def ptr_svcs(items):
        return [it[1] for it in items if it[0] == "p"]

    for sd in sends:
        t, _, h, d, dst, items = sd
        for s in ptr_svcs(items):
            ttl = ptr_of(items, s)  # the first PTR item for s decides (a datagram never carries two)
            if ttl > 0:
                if s[0] != h or not reg_since(s, t, y_excl=t):
                    bad["K6"].append(["positive-ptr-while-not-registered", t, h, s])
            else:
                if s[0] != h or not any(u[2] == s and u[0] <= t <= u[0] + cfg["bye"][-1] for u in unregs):
                    bad["K2"].append(["goodbye-without-unregister", t, h, s])

    # ---- K6full / K5added (the lookup from Added)
    for sd in sends:
        for s in ptr_svcs(sd[5]):
            if ptr_of(sd[5], s) > 0 and not pos_full(sd[5], s):
                bad["K6f"].append(["positive-ptr-without-srv-txt-address", sd[0], sd[2], s])
    for e in tr:
        if e[1] == "add":
            b, s = e[2], e[3]
            if not any(x[4] == b[0] and x[0] <= e[0] and (ptr_of(x[6], s) or 0) > 0 for x in dlvs):
                bad["K5a"].append(["added-without-processed-ptr", e[0], b, s])

    def has_send(h, t, pred, mc_only=True):
        return any(sd[2] == h and sd[0] == t and (sd[4] is None or not mc_only) and pred(sd[5]) for sd in sends)

    # ---- K2 liveness
    for u in unregs:
        s = u[2]
        for off in cfg["bye"]:
            if u[0] + off <= endT and not has_send(s[0], u[0] + off, lambda items: ptr_of(items, s) == 0):
                bad["K2"].append(["goodbye-missing", u[0], off, s])

    # ---- K1
    def later_regev(s, t, t2, pos):
        # another register/update/unregister event of s at a time in (t, t2]  (W5: such events have distinct times)
        return any(e[1] in ("reg", "upd", "unreg") and e[2] == s and t < e[0] <= t2 for e in tr)

    for pos, e in enumerate(tr):
        if e[1] not in ("reg", "upd"):
            continue
        s = e[2]
        offs = cfg["ann"] if e[1] == "reg" else cfg["upd"]
        if e[0] + offs[-1] > endT or later_regev(s, e[0], e[0] + offs[-1], pos):
            continue
        for off in offs:
            if not has_send(s[0], e[0] + off, lambda items: pos_full(items, s)):
                bad["K1"].append(["announcement-missing", e[0], off, s])

    # ---- K3
    def received(h, s, t):
        return any(e[4] == h and e[0] <= t and (ptr_of(e[6], s) or 0) > 0 for e in dlvs)

    def qm_item(items, ty, h, t, qu):
        return any(it[0] == "q" and it[1] == ty and it[3] == qu and all(received(h, k, t) for k in it[2]) for it in items)

    for b in browses:
        t, _, br = b
        h, ty, _ = br
        if not never_closed(h):
            continue
        for k, off in enumerate(cfg["qOff"]):
            lo, hi = t + cfg["qLo"] + off, t + cfg["qHi"] + off
            if hi > endT:
                continue
            if k == 0:
                ok = any(sd[2] == h and sd[4] is None and lo <= sd[0] <= hi and qm_item(sd[5], ty, h, sd[0], True) for sd in sends)
            else:
                ok = any(sd[2] == h and sd[4] is None and lo - cfg["dupQ"] <= sd[0] <= hi and qm_item(sd[5], ty, h, sd[0], False) for sd in sends) \
                    or any(e[4] == h and e[5] and lo - cfg["dupQ"] <= e[0] <= hi and qm_item(e[6], ty, h, e[0], False) for e in dlvs)
            if not ok:
                bad["K3"].append(["query-opportunity-missing", t, k, br])

    # ---- K4
    svcset = []
    for r in regs:
        if r[2] not in svcset:
            svcset.append(r[2])
    for e in dlvs:
        a, _, d, src, h, mc, items = e
        if a + cfg["respAfter"] > endT:
            continue
        for it in items:
            if it[0] != "q":
                continue
            for s in svcset:
                if s[0] == h and s[1] == it[1] and s not in it[2] and reg_since(s, a - cfg["respBefore"], y_incl=a + cfg["respAfter"]):
                    ok = any(sd[2] == h and a - cfg["respBefore"] <= sd[0] <= a + cfg["respAfter"]
                             and (sd[4] is None or (it[3] and sd[4] == src))
                             and pos_full(sd[5], s) for sd in sends)
                    if not ok:
                        bad["K4"].append(["query-unanswered", a, h, s, it[3]])

    # ---- K5: at every instant at which something relevant happened or the observer looked (and at the end), for browsers on
    # hosts not closed so far: heldFresh /\ type -> live -> heldGrace /\ type   (held = last PTR positive; Fresh = unexpired;
    # Grace = expired less than one cache-cleanup period ago: the Removed callback fires at the cleanup)
    def relevant(e):
        return (e[1] == "dlv" and any(it[0] == "p" for it in e[6])) or e[1] in ("add", "rem", "browse", "close", "obs")

    cuts = sorted({e[0] for e in tr if relevant(e)} | {endT})
    lastm, livem, brs, closed, universe = {}, {}, [], set(), []
    i = 0
    for T in cuts:
        while i < len(tr) and tr[i][0] <= T:
            e = tr[i]
            i += 1
            if e[1] == "dlv":
                for sv in ptr_svcs(e[6]):
                    if sv not in universe:
                        universe.append(sv)
                    lastm[(e[4], sv)] = (ptr_of(e[6], sv), e[0])
            elif e[1] in ("add", "rem"):
                livem[(e[2], e[3])] = e[1] == "add"
                if e[3] not in universe:
                    universe.append(e[3])
            elif e[1] == "browse":
                brs.append(e[2])
            elif e[1] == "close":
                closed.add(e[2])
        for b in brs:
            if b[0] in closed:
                continue
            for sv in universe:
                lp = lastm.get((b[0], sv))
                heldv = lp is not None and lp[0] > 0
                fresh = heldv and T < lp[1] + eff_ttl(lp[0], cfg)
                grace = heldv and T < lp[1] + eff_ttl(lp[0], cfg) + cfg["cleanup"]
                lv = livem.get((b, sv), False)
                if (fresh and sv[1] == b[1] and not lv) or (lv and not (grace and sv[1] == b[1])):
                    bad["K5"].append(["live-differs-from-cache", T, b, sv, lv, [heldv, fresh, grace]])

    # ---- K3b: refresh.  A browsing host that processed PTR(s) TTL>0 at t (and no PTR(s) since, up to the end of the window)
    # asks for the type again without listing s, within refreshWin of t + 75% / 85% TTL (or of the browser's start if later)
    def asks_without(items, ty, sv):
        return any(it[0] == "q" and it[1] == ty and not it[3] and sv not in it[2] for it in items)

    for bw in browses:
        tb, _, br = bw
        h, ty, _ = br
        if not never_closed(h):
            continue
        for x in dlvs:
            if x[4] != h:
                continue
            for sv in ptr_svcs(x[6]):
                ttl = ptr_of(x[6], sv)
                if sv[1] != ty or not ttl > 0:
                    continue
                e_s = eff_ttl(ttl, cfg) // 1000
                for second in (False, True):
                    # the browser had finished its start-up phase before the earliest possible schedule of the 75 % query
                    # (75 % - 10 s): windows around 75 % / 85 % (10 s + 999 ms early: "avoid churn" keeps a schedule within 10 s
                    # of the new 75 % point — on either side; 30 s late: kept schedule + two passes each at most 10 s late);
                    # it started later, or so shortly before that the 75 % point falls into its start-up phase (no refresh pass
                    # runs then): its 3rd / 4th start-up question (the record is stale by then and is not listed)
                    if tb + cfg["qHi"] + cfg["qOff"][3] + cfg["refreshEarly"] <= x[0] + cfg["refresh1"] * e_s:
                        due = x[0] + (cfg["refresh2"] if second else cfg["refresh1"]) * e_s
                        a, hi = due - cfg["refreshEarly"] - cfg["dupQ"], due + cfg["refreshWin"]
                    else:
                        off = cfg["qOff"][3 if second else 2]
                        a, hi = tb + cfg["qLo"] + off - cfg["dupQ"], tb + cfg["qHi"] + off
                    if hi > endT:
                        continue
                    if any(e[4] == h and ptr_of(e[6], sv) is not None and x[0] < e[0] <= hi for e in dlvs):
                        continue
                    ok = any(sd[2] == h and sd[4] is None and a <= sd[0] <= hi and asks_without(sd[5], ty, sv) for sd in sends) \
                        or any(e[4] == h and e[5] and a <= e[0] <= hi and asks_without(e[6], ty, sv) for e in dlvs)
                    if not ok:
                        bad["K3b"].append(["held-ptr-not-requeried", x[0], "85%" if second else "75%", br, sv])

    # ---- KF: on a browsing host the PTR of a registered instance of its type is unexpired at the end of the window
    dlv_svcs = []
    for e in dlvs:
        for sv in ptr_svcs(e[6]):
            if sv not in dlv_svcs:
                dlv_svcs.append(sv)
    for bw in browses:
        br = bw[2]
        if not never_closed(br[0]):
            continue
        for sv in dlv_svcs:
            if sv[1] == br[1] and registered(tr, sv) and not unexpired(tr, br[0], sv, endT, 0, cfg):
                bad["KF"].append(["registered-instance-expired-on-browsing-host", endT, br, sv])
    return bad


def conclusion(tr, endT=None):
    """the theorem's conclusion at every observation instant >= lastChange + settle and at the end of the window: list of
    (T, browser, svc) where live != registered-of-type on the prefix up to T"""
    closes = {e[2] for e in tr if e[1] == "close"}
    svcs = []
    for e in tr:
        if e[1] in ("reg", "add", "rem"):
            s = e[2] if e[1] == "reg" else e[3]
            if s not in svcs:
                svcs.append(s)
    if endT is None:
        endT = tr[-1][0] if tr else 0
    lc = last_change(tr)
    out = []
    brs = [e[2] for e in tr if e[1] == "browse" and e[2][0] not in closes]
    for T in [e[0] for e in tr if e[1] == "obs"] + [endT]:
        if T < lc + SETTLE_MS:
            continue
        p = [e for e in tr if e[0] <= T]
        for b in brs:
            for s in svcs:
                if live(p, b, s) != (registered(p, s) and s[1] == b[1]):
                    out.append((T, b, s))
    return out


# ------------------------------------------------------------------------------------------
# oracle (stage O) on the implementation's own observations


def oracle(case, obs):
    """list of (sig, what)"""
    v = []
    svcs = case["svcs"]
    reg = set(obs["registered"])
    tr = obs["trace"]
    seen = set()
    for ob in obs.get("observations") or [{"t": obs["endT"], "final": obs["final"]}]:
        after = ob["t"] - obs["lastChange"]
        for f in ob["final"]:
            if f["closed"]:
                continue
            want = sorted(i for i in reg if svcs[i]["ty"] == f["ty"])
            got = f["live"]
            if got != want:
                extra = sorted(set(got) - set(want))
                miss = sorted(set(want) - set(got))
                if extra and ("x", f["b"], extra[0]) not in seen:
                    seen.add(("x", f["b"], extra[0]))
                    cause = resurrection_cause(case, obs, extra[0])
                    v.append(("C07:not-removed:" + cause,
                              "browser %d on H%d still reports s%d %d ms after the last change although it is not registered (%s)"
                              % (f["b"], f["host"], extra[0], after, cause)))
                if miss and ("m", f["b"], miss[0]) not in seen:
                    seen.add(("m", f["b"], miss[0]))
                    # was it reported (Added, after its last registration) and taken away again, or never reported?
                    last_reg = max([e[0] for e in tr if e[1] == "reg" and e[2] == miss[0]] or [0])
                    cbs = [e for e in tr if e[1] in ("add", "rem") and e[2] == f["b"] and e[3] == miss[0] and e[0] >= last_reg and e[0] <= ob["t"]]
                    if cbs and cbs[-1][1] == "rem" and any(c[1] == "add" for c in cbs):
                        v.append(("C07:removed-while-registered",
                                  "browser %d on H%d reported registered s%d and then Removed it at %d ms (%d ms after the last change); "
                                  "it is still missing %d ms after the last change"
                                  % (f["b"], f["host"], miss[0], cbs[-1][0], cbs[-1][0] - obs["lastChange"], after)))
                    else:
                        cause = not_added_cause(case, obs, f["b"], miss[0])
                        v.append(("C07:not-added" + (":" + cause if cause else ""),
                                  "browser %d on H%d does not report registered s%d %d ms after the last change%s"
                                  % (f["b"], f["host"], miss[0], after, " (%s)" % cause if cause else "")))
            for b in f["bad"]:
                if ("b", f["b"], tuple(b)) not in seen:
                    seen.add(("b", f["b"], tuple(b)))
                    v.append(("C07:callback-" + b[0], "listener of browser %d got %s for %s at %d" % (f["b"], b[0], b[1], b[2])))
    # lookups from Added: judged when the instance was registered when Added fired and stayed so until the lookup ended
    # (an Added for an instance that is not registered is the resurrection reported above, not a lookup failure)
    unreg_times = {}
    reg_times = {}
    for e in tr:
        if e[1] == "unreg":
            unreg_times.setdefault(e[2], []).append(e[0])
        elif e[1] == "reg":
            reg_times.setdefault(e[2], []).append(e[3] if len(e) > 3 else e[0] + 350)
    close_times = {e[2]: e[0] for e in tr if e[1] == "close"}
    for lk in obs["lookups"]:
        s = lk["s"]
        bh = obs["browsers"][lk["b"]]["host"]
        done = [t for t in reg_times.get(s, []) if t <= lk["t0"]]
        if not done or any(max(done) - 350 <= t <= lk["t1"] + 200 for t in unreg_times.get(s, [])):
            continue  # not registered at Added, or withdrawn around the lookup: nothing is promised
        if bh in close_times and close_times[bh] <= lk["t1"] + 300:
            continue
        if lk["ok"] is not True:
            cause = lookup_failure_cause(case, obs, lk)
            v.append(("C07:lookup-from-added-failed" + (":" + cause if cause else ""),
                      "lookup of s%d from the Added callback at %d returned %s%s" % (s, lk["t0"], lk["ok"], " (%s)" % cause if cause else "")))
            continue
        vs = [x for x in obs["versions"][s] if x["t"] <= lk["t1"]]
        # addresses belong to the host name: the lookup returns the service's own addresses, possibly together with addresses that
        # other services advertised for the same host name
        host_addrs = {ad for vv in obs["versions"] for x in vv if x["server"] == lk["server"] for ad in x["addrs"]}
        if not any(x["port"] == lk["port"] and x["server"] == lk["server"] and x["txt"] == lk["txt"]
                   and set(x["addrs"]) <= set(lk["addrs"]) <= host_addrs for x in vs):
            v.append(("C07:lookup-from-added-wrong", "lookup of s%d from the Added callback at %d resolved port %s server %s txt %s addrs %s, advertised %s"
                      % (s, lk["t0"], lk["port"], lk["server"], lk["txt"], lk["addrs"], vs)))
    return v


def not_added_cause(case, obs, b, s):
    """the browser was started after the host's cached PTR(s) had expired but before the 10 s cache cleanup purged it: the replay skips
    the expired record, and the answer to the browser's question finds the unpurged entry (`async_get_unique`), refreshes it and is
    reported to the browser as a refresh of a known record, never as Added"""
    br = obs["browsers"][b]
    last = None
    later = False
    for e in obs["trace"]:
        if e[1] == "dlv" and e[4] == br["host"]:
            for it in e[6]:
                if it[0] == "p" and it[1] == s:
                    if e[0] <= br["t"]:
                        last = (it[2], e[0])
                    elif it[2] > 0:
                        later = True
    if last and last[0] > 0 and later:
        exp = last[1] + eff_ttl(last[0])
        if exp <= br["t"] < exp + CFG["cleanup"]:
            return "browser-started-between-expiry-and-purge"
    return ""


def lookup_failure_cause(case, obs, lk):
    """D22: the lookup learnt the SRV (server, port) but no address, and during the lookup its host processed a response in
    which an address record of that server came *before* the SRV of the service (packet order): `async_update_records` ignores
    the address (server unknown), the SRV branch reloads addresses from the cache, which does not hold them yet, and later
    questions list the address as a known answer"""
    from zeroconf import DNSIncoming
    from zeroconf._dns import DNSAddress, DNSService

    if not lk.get("server") or lk.get("addrs"):
        return ""
    bh = obs["browsers"][lk["b"]]["host"]
    sv = case["svcs"][lk["s"]]
    name = svc_name(lk["s"], sv["ty"]).lower()
    for e in obs["trace"]:
        if e[1] == "dlv" and e[4] == bh and lk["t0"] <= e[0] <= lk["t1"]:
            m = DNSIncoming(bytes.fromhex(obs["datagrams"][e[2]][4]))
            if m.is_query():
                continue
            recs = m.answers()
            srv = [i for i, r in enumerate(recs) if isinstance(r, DNSService) and r.name.lower() == name]
            adr = [i for i, r in enumerate(recs) if isinstance(r, DNSAddress) and r.name.lower() == lk["server"].lower()]
            if srv and adr and min(adr) < min(srv):
                return "address-before-srv"
    return ""


def resurrection_cause(case, obs, s):
    """attribute a never-removed service to the positive PTR sent after its withdrawal (C08's D5 / D6)"""
    tr = obs["trace"]
    unreg = [e[0] for e in tr if e[1] == "unreg" and e[2] == s]
    regt = [e[0] for e in tr if e[1] == "reg" and e[2] == s]
    if not unreg:
        return "never-unregistered"
    tu = unreg[-1]
    late = []
    pos_unreg = max(i for i, e in enumerate(tr) if e[1] == "unreg" and e[2] == s)
    for i, e in enumerate(tr):
        if i > pos_unreg and e[1] == "send" and any(it[0] == "p" and it[1] == s and it[2] > 0 for it in e[5]):
            late.append(e[0])
    if not late:
        owner = case["svcs"][s]["owner"]
        if any(e[1] == "close" and e[2] == owner and tu <= e[0] <= tu + 250 for e in tr):
            return "goodbyes-cut-by-close"
        return "no-positive-ptr-after-unregister"
    if any(t - r in (575, 800) for t in late for r in regt) or any(t - u[0] in (225, 450) for t in late for u in tr if u[1] == "upd" and u[2] == s):
        return "D6-announcement-after-unregister"
    return "D5-queued-answer-after-unregister"


# ------------------------------------------------------------------------------------------
# running


def check_case(case, res, ctx, tag, lean_jobs):
    """run + oracle + Python monitors; queue the Lean evaluation"""
    obs = run_case(case)
    res.evaluations += 1
    tr = norm_trace(case, obs)
    endT = obs["endT"]
    vio = oracle(case, obs)
    mon = monitors(tr, endT)
    mon_all = mon
    conc = conclusion(tr, endT)
    brief = {"case": case, "tag": tag}
    failed0 = sorted(k for k, w in mon.items() if w)
    for sig, what in vio:
        # name the contracts that the same run violates (e.g. a false Removed after a missed refresh: K3b, KF)
        res.violate(sig, what + (" [contracts violated on this run: %s]" % ", ".join(
            "%s (%s)" % (k, mon[k][0][0]) for k in failed0) if failed0 else ""), brief)
    if obs["inflight"]:
        res.notes.append("registration still in flight at the end: %s" % tag)
    if obs["errors"]:
        res.count("loop-errors", len(obs["errors"]))
        if len(res.notes) < 5:
            res.notes.append("loop exception handler: %s" % obs["errors"][:2])
    # review F2 / known finding: a close less than 250 ms after an unregister drops that unregister's remaining goodbyes.  On such
    # a run "K2: goodbye missing" is the library's behaviour, reported under its own signature, not a broken tie
    cut = [w for w in mon["K2"] if w[0] == "goodbye-missing" and any(
        e[1] == "close" and e[2] == w[3][0] and w[1] <= e[0] <= w[1] + 250 for e in tr)]
    if cut:
        res.violate("C07:goodbyes-cut-by-close",
                    "unregister at %d ms, close of the same host %s: the goodbye due at +%d ms is never sent (async_send is a no-op once done)"
                    % (cut[0][1], [e[0] for e in tr if e[1] == "close" and e[2] == cut[0][3][0]], cut[0][2]), brief)
        mon = dict(mon, K2=[w for w in mon["K2"] if w not in cut])
        res.count("goodbyes-cut-by-close")
    failed = sorted(k for k, w in mon.items() if w)
    for k in failed:
        res.count("contract-violated:" + k)
    if failed and not vio:
        # the real trace breaks a hypothesis of the theorem although the property's sentence holds on it
        res.disagree("contract", brief, {"violated": {k: mon[k][:2] for k in failed}}, "K1..K7 hold")
    if not failed and conc and not vio:
        res.disagree("conclusion", brief, {"not-converged": conc[:3]}, "theorem: converged")
    if not failed and not conc:
        res.count("traces-satisfying-all-contracts-and-converged")
    # coverage signature
    kinds = sorted({e[1] for e in tr})
    late_hosts = sum(1 for h in case["hosts"] if h["up"] > 0)
    sig = (len(case["hosts"]), len(case["svcs"]), case["types"], len(obs["browsers"]), late_hosts > 0, obs["dropped"] is not None,
           case["net"]["mode"], case["net"]["dups"], "close" in kinds, "upd" in kinds, "unreg" in kinds, "rem" in kinds,
           len(obs["regfail"]) > 0)
    res.nontriv(json.dumps(sig))
    res.count("hosts=%d" % len(case["hosts"]))
    res.count("dropped" if obs["dropped"] is not None else "no-drop")
    res.count("lookups", len(obs["lookups"]))
    res.count("events", len(tr))
    if obs["regfail"]:
        res.count("register-refused(NonUnique)", len(obs["regfail"]))
    if len(res.samples) < 3:
        res.sample({"tag": tag, "hosts": len(case["hosts"]), "events": len(tr), "deliveries": obs["ndeliveries"], "dropped": obs["dropped"],
                    "final": [{k: f[k] for k in ("b", "host", "ty", "live")} for f in obs["final"]], "registered": obs["registered"]})
    lean_jobs.append((brief, tr, endT, mon_all, conc))
    return obs


def lean_compare(res, lean_jobs):
    lines = [lean_line(tr, endT) for (_, tr, endT, _, _) in lean_jobs]
    try:
        outs = C.run_driver(lines)
    except C.DriverUnavailable as ex:
        res.notes.append("driver unavailable: %s" % ex)
        return
    names = ["WF", "K1", "K2", "K3", "K4", "K5", "K6", "K7", "K5a", "K6f", "K3b", "KF"]
    for (brief, tr, endT, mon, conc), out in zip(lean_jobs, outs):
        py = " ".join("%s=%s" % (k, C.b01(not mon[k])) for k in names) + " conv=%s" % C.b01(not conc)
        py += " lastChange=%d" % last_change(tr)
        st = []
        closes = {e[2] for e in tr if e[1] == "close"}
        svcs = []
        for e in tr:
            if e[1] in ("reg", "add", "rem"):
                s = e[2] if e[1] == "reg" else e[3]
                if s not in svcs:
                    svcs.append(s)
        for e in tr:
            if e[1] == "browse" and e[2][0] not in closes:
                for s in svcs:
                    st.append("%d.%d:%s%s%s" % (e[2][2], s[2], C.b01(live(tr, e[2], s)), C.b01(held(tr, e[2][0], s)), C.b01(registered(tr, s))))
        py += " state=" + (",".join(st) if st else "-")
        if out != py:
            res.disagree("lean-monitors", brief, py, out)


def drop_choices(rng, n, k):
    if n <= 0:
        return []
    if k >= n:
        return list(range(n))
    return sorted(rng.sample(range(n), k))


def run_inner(ctx):
    res = C.Result("C07")
    seed = ctx["seed"]
    rng = C.rng_for(seed, "c07")
    lrng = C.rng_for(seed, "c07-lean-sample")
    tier = ctx["tier"]
    thorough = tier == "thorough"
    n_scen = C.Budget(tier, 95, 200).n
    n_sweep = 0 if not thorough else max(1, n_scen // 10)  # scenarios whose every delivery / datagram is dropped in turn
    drops_per = 6 if not thorough else 20
    dgram_per = 4 if not thorough else 10
    # the theorem is about the Lean monitors: thorough runs EVERY trace through them; quick (budget) a uniform sample of the runs
    # plus all corpus cases and every run on which a Python monitor, the conclusion or the oracle failed
    lean_frac = 1.0 if thorough else 0.3
    if ctx.get("widened"):
        n_scen *= 3
        lean_frac = min(lean_frac, 0.15)
    lean_jobs = []
    counts = {"runs": 0, "sampled": 0, "failed": 0}

    def one(case, tag, force_lean=False):
        jobs = []
        nv = len(res.violations)
        obs = check_case(case, res, ctx, tag, jobs)
        brief, tr, endT, mon, conc = jobs[0]
        counts["runs"] += 1
        interesting = any(mon.values()) or bool(conc) or len(res.violations) > nv
        if interesting:
            counts["failed"] += 1
        if force_lean or (interesting and counts["failed"] <= 400) or lrng.random() < lean_frac:
            counts["sampled"] += 1
            lean_jobs.append(jobs[0])
        return obs

    for name, body in C.load_corpus("C07"):
        case = body.get("case", body)
        case = case.get("case", case)
        one(case, "corpus/" + name, True)
        res.count("corpus")
    for i in range(n_scen):
        case = gen_case(rng, i, 0.04 if not thorough else 0.12)
        base = one(case, "gen/%d" % i)
        res.count("family:" + case.get("family", "short"))
        n = base["ndeliveries"]
        # "the loss of any single datagram": (1) one delivery of it (one receiver misses it) -- swept for the first scenarios of the
        # thorough tier, sampled otherwise, biased to PTR-carrying datagrams (announcements / goodbyes / answers: the ones the
        # argument rests on); (2) the datagram itself -- every receiver misses it ("all": loop-back included; "remote": all others)
        tg = base["targets"]
        important = [x[0] for x in tg if any(it[0] == "p" for it in _items_of(base, x[1]))]
        sends_ptr = sorted({x[1] for x in tg if any(it[0] == "p" for it in _items_of(base, x[1]))})
        sends_q = sorted({x[1] for x in tg if any(it[0] == "q" for it in _items_of(base, x[1]))})
        nsend = base["nsend"]
        if i < n_sweep:
            cand = list(range(n))
            dcand = [(d, m) for d in range(nsend) for m in ("all", "remote")]
            res.count("scenarios-with-every-single-drop-swept")
        else:
            cand = drop_choices(rng, n, drops_per)
            if important:
                cand = sorted(set(cand) | set(rng.sample(important, min(len(important), max(2, drops_per // 2)))))
            ds = set(drop_choices(rng, nsend, dgram_per // 2))
            for pool in (sends_ptr, sends_q):
                if pool:
                    ds |= set(rng.sample(pool, min(len(pool), max(1, dgram_per // 4))))
            dcand = [(d, rng.choice(["all", "all", "remote"])) for d in sorted(ds)]
        for d in cand:
            c2 = json.loads(json.dumps(case))
            c2["net"]["drop"] = d
            one(c2, "gen/%d/drop%d" % (i, d))
        for d, m in dcand:
            c2 = json.loads(json.dumps(case))
            c2["net"]["drop"] = {"dgram": d, "mode": m}
            one(c2, "gen/%d/dgram%d-%s" % (i, d, m))
            res.count("whole-datagram-drops")
    res.count("traces-evaluated-by-lean-monitors", len(lean_jobs))
    res.notes.append("Lean monitors (zcdriver c07) evaluated on %d of %d traces (%s: %s); the Python monitors and the oracle on all %d"
                     % (len(lean_jobs), counts["runs"], tier,
                        "every trace" if lean_frac >= 1.0 else "uniform sample p=%.2f + all corpus cases + every run with a failed monitor/conclusion/oracle; "
                        "the rest is skipped for the quick budget (about 0.03 s per trace)" % lean_frac, counts["runs"]))
    if ctx.get("driver_ok"):
        lean_compare(res, lean_jobs)
    res.rule = ("random scenarios (2-5 hosts, up to 30% started late; 1-6 services of 1-3 types, IPv4 / IPv6-only / dual, default and non-default "
                "TTLs, with register / update / unregister / re-register at boundary-biased gaps; 1-4 browsers before/during/after; optional close; "
                "long-horizon families up to 2.5 h) x delivery schedules (0..100 ms uniform / extremes / mixed, duplication none/some/many) x the "
                "loss of one datagram: one of its deliveries (sampled, biased to PTR-carrying datagrams) or the whole datagram (every receiver, "
                "with or without the sender's loop-back); both swept exhaustively for the first tenth of the thorough scenarios; every run is "
                "observed at lastChange+16 s (the proven bound), +16.001 s, +30 s and then periodically; oracle and Python contract monitors on every "
                "run, compiled Lean monitors on every run (thorough) or a uniform 30% sample plus corpus plus all failures (quick); "
                "non-trivial = distinct (hosts, services, types, browsers, late host, drop, delay mode, dups, close, update, unregister, Removed seen, refused registration)")
    return res


def _items_of(obs, d):
    for e in obs["trace"]:
        if e[1] == "send" and e[3] == d:
            return e[5]
    return []


def res_to_json(res):
    return {"evaluations": res.evaluations, "nontrivial": sorted(res.nontrivial), "samples": res.samples, "disagreements": res.disagreements,
            "violations": res.violations, "dist": res.dist, "rule": res.rule, "exhaustive": res.exhaustive, "notes": res.notes}


def res_from_json(j):
    res = C.Result("C07")
    res.evaluations = j["evaluations"]
    res.nontrivial = set(j["nontrivial"])
    res.samples = j["samples"]
    res.disagreements = j["disagreements"]
    res.violations = j["violations"]
    res.dist = j["dist"]
    res.rule = j["rule"]
    res.exhaustive = j["exhaustive"]
    res.notes = j["notes"]
    return res


def _subprocess(args, payload):
    """re-execute under PYTHONHASHSEED=0: record sets are iterated in string-hash order, which decides the bytes of
    emitted packets and therefore the delivery indices; replays must be reproducible"""
    env = dict(os.environ, PYTHONHASHSEED="0", PYTHONDONTWRITEBYTECODE="1")
    p = subprocess.run([sys.executable, "-m", "harness.c07"] + args, input=json.dumps(payload).encode(), stdout=subprocess.PIPE,
                       cwd=str(C.ROOT), env=env)
    if p.returncode != 0:
        raise RuntimeError("C07 worker failed (%d)" % p.returncode)
    return json.loads(p.stdout.decode())


def run(ctx):
    small = {k: ctx[k] for k in ("tier", "seed", "widened", "driver_ok")}
    if os.environ.get("PYTHONHASHSEED") == "0":
        return run_inner(small)
    return res_from_json(_subprocess(["run"], small))


def replay_inner(body):
    case = body.get("case", body)
    case = case.get("case", case)
    obs = run_case(case)
    tr = norm_trace(case, obs)
    vio = oracle(case, obs)
    mon = monitors(tr, obs["endT"])
    out = {"violates": bool(vio), "violations": vio, "contracts_violated": {k: w[:3] for k, w in mon.items() if w},
           "final": obs["final"], "registered": obs["registered"], "lastChange": obs["lastChange"], "endT": obs["endT"], "dropped": obs["dropped"],
           "callbacks": [e for e in obs["trace"] if e[1] in ("add", "rem")],
           "api": [e for e in obs["trace"] if e[1] in ("up", "close", "reg", "upd", "unreg", "browse")],
           "ptr_sends": [[e[0], "H%d" % e[2], e[5]] for e in obs["trace"] if e[1] == "send" and any(it[0] == "p" for it in e[5])]}
    try:
        out["model"] = C.run_driver([lean_line(tr, obs["endT"])])[0]
    except C.DriverUnavailable as ex:
        out["model"] = "driver unavailable: %s" % ex
    return out


def replay(body):
    if os.environ.get("PYTHONHASHSEED") == "0":
        return replay_inner(body)
    return _subprocess(["replay"], body)


if __name__ == "__main__":
    mode = sys.argv[1]
    payload = json.loads(sys.stdin.read())
    if mode == "run":
        print(json.dumps(res_to_json(run_inner(payload)), default=str))
    else:
        print(json.dumps(replay_inner(payload), default=str))
