"""Shared machinery of the correspondence harness (DESIGN §2.4, §2.5, §7a).

Runs under /venv/bin/python (3.12, zeroconf's own environment); stdlib only.
"""
from __future__ import annotations

import hashlib
import json
import os
import pathlib
import random
import subprocess
import sys
import time

ROOT = pathlib.Path(__file__).resolve().parent.parent
REPO = pathlib.Path(os.environ.get("VERIF_REPO", "/repo"))
LEAN = ROOT / "lean"
DRIVER = LEAN / ".lake" / "build" / "bin" / "zcdriver"

sys.dont_write_bytecode = True
if str(REPO / "src") not in sys.path:
    sys.path.insert(0, str(REPO / "src"))


# ------------------------------------------------------------------------------------------
# line protocol


def hx(b: bytes) -> str:
    return b.hex() if b else "-"


def hs(s: str) -> str:
    return hx(s.encode("utf-8", "surrogatepass"))


def b01(b) -> str:
    return "1" if b else "0"


def natlist(l) -> str:
    return ",".join(str(x) for x in l) if l else "-"


def rec_line(r, created=None) -> str:
    """serialise a zeroconf DNSRecord the way `Zc.Rec.parse` reads it"""
    from zeroconf import _dns as d

    c = r.created if created is None else created
    head = "%s %d %d %s %d %d" % (hs(r.name), r.type, r.class_, b01(r.unique), int(r.ttl), int(c))
    if isinstance(r, d.DNSAddress):
        return "a %s %s %s" % (head, hx(r.address), "-" if r.scope_id is None else str(r.scope_id))
    if isinstance(r, d.DNSHinfo):
        return "h %s %s %s" % (head, hs(r.cpu), hs(r.os))
    if isinstance(r, d.DNSPointer):
        return "p %s %s" % (head, hs(r.alias))
    if isinstance(r, d.DNSText):
        return "t %s %s" % (head, hx(r.text))
    if isinstance(r, d.DNSService):
        return "s %s %d %d %d %s" % (head, r.priority, r.weight, r.port, hs(r.server))
    if isinstance(r, d.DNSNsec):
        return "n %s %s %s" % (head, hs(r.next_name), natlist(r.rdtypes))
    raise TypeError(type(r))


def question_line(q) -> str:
    return "%s %d %d %s" % (hs(q.name), q.type, q.class_, b01(q.unique))


def run_driver(lines, timeout=1800):
    """Feed all lines to the compiled model driver, return its output lines (same length)."""
    if not lines:
        return []
    if not DRIVER.exists():
        raise DriverUnavailable("zcdriver is not built")
    data = ("\n".join(lines) + "\n").encode()
    p = subprocess.run([str(DRIVER)], input=data, stdout=subprocess.PIPE, stderr=subprocess.PIPE, timeout=timeout)
    if p.returncode != 0:
        raise DriverUnavailable("zcdriver exited %d: %s" % (p.returncode, p.stderr.decode()[-400:]))
    out = p.stdout.decode().split("\n")
    if out and out[-1] == "":
        out.pop()
    if len(out) != len(lines):
        raise DriverUnavailable("zcdriver answered %d lines for %d" % (len(out), len(lines)))
    return out


class DriverUnavailable(Exception):
    pass


# ------------------------------------------------------------------------------------------
# results


class Result:
    """What a harness run found.  `disagreements` are model/implementation differences
    (stage C); `violations` are implementation behaviours that falsify the property
    predicate (stage O)."""

    def __init__(self, prop):
        self.prop = prop
        self.evaluations = 0
        self.nontrivial = set()
        self.samples = []
        self.disagreements = []
        self.violations = []  # dicts: {sig, what, case}
        self.dist = {}
        self.rule = ""
        self.streams = {}
        self.exhaustive = False
        self.notes = []

    def count(self, key, n=1):
        self.dist[key] = self.dist.get(key, 0) + n

    def nontriv(self, key):
        self.nontrivial.add(key if isinstance(key, (str, int, tuple)) else json.dumps(key, sort_keys=True, default=str))

    def sample(self, s, limit=4):
        if len(self.samples) < limit:
            self.samples.append(s)

    def disagree(self, stream, case, impl, model):
        if len(self.disagreements) < 50:
            self.disagreements.append({"stream": stream, "case": case, "impl": impl, "model": model})
        self.count("disagreements")

    def violate(self, sig, what, case):
        # capped per signature, so that a frequent (e.g. known) finding cannot crowd a different violation out
        n = self._per_sig.get(sig, 0) if hasattr(self, "_per_sig") else 0
        if not hasattr(self, "_per_sig"):
            self._per_sig = {}
        self._per_sig[sig] = n + 1
        if n < 25 and len(self.violations) < 5000:
            self.violations.append({"sig": sig, "what": what, "case": case})
        self.count("violations")


def digest(obj) -> str:
    return hashlib.sha1(json.dumps(obj, sort_keys=True, default=str).encode()).hexdigest()[:12]


def rng_for(seed, *salt) -> random.Random:
    return random.Random("%s/%s" % (seed, "/".join(str(s) for s in salt)))


class Budget:
    """time/count budget helper: quick vs thorough"""

    def __init__(self, tier, quick, thorough):
        self.n = thorough if tier == "thorough" else quick
        scale = os.environ.get("VERIF_SCALE")
        if scale:
            self.n = max(1, int(self.n * float(scale)))


def load_corpus(prop):
    d = ROOT / "corpus" / prop
    out = []
    if d.is_dir():
        for p in sorted(d.glob("*.json")):
            try:
                out.append((p.name, json.loads(p.read_text())))
            except Exception as ex:  # a broken corpus file is my bug, not a violation
                raise RuntimeError("corpus file %s unreadable: %s" % (p, ex))
    return out
