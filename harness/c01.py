"""C01 / C14 -- wire codec: byte-exact correspondence of the encoder model with DNSOutgoing.packets(),
and the round-trip / size / accounting predicates evaluated on the implementation's packets with the
independent strict decoder (Lean `Wire.Strict`) and the library's own DNSIncoming."""
from __future__ import annotations

import json

from . import common as C
from . import textlayer as T
from . import wiregen as W

TRUSTED = ["text layer of names: modelled (Zc.NameText: strip one trailing dot, split('.'), per-label UTF-8, '.'.join, str-keyed names table) and "
           "proved against the label-list encoder model (C01_names_table_text_keys, C01_roundtrip_text); the driver is fed the *text* of every name "
           "(`=<hex of its UTF-8>`) and splits/encodes itself; CPython's str.split / str.encode / bytes.decode are the reference it is compared with",
           "lone surrogates in names (UnicodeEncodeError) are not text and are not generated",
           "remaining-TTL arithmetic on integer milliseconds only"]
ASSUMPTIONS = ["names are handed to the builder as str; what must come back is the same str (with its trailing dot) from the library's decoder and from "
               "the strict decoder's labels read as _read_name reads them (model: textOfLabels), and the same labels from the strict decoder"]

EXC = {"NamePartTooLongException": "NamePartTooLongException", "IndexError": "IndexError", "error": "struct.error", "ValueError": "ValueError"}


def impl_packets(gm):
    try:
        out = gm.to_lib()
        pk = out.packets()
        again = out.packets()
        if again != pk:
            # "none duplicated": a message sent twice must not grow
            return ("twice", [len(p) for p in again][:50])
        if any(len(p) > 8966 for p in pk):
            # keep the evidence small: a builder that emits oversized datagrams can emit megabytes of them
            return ("oversize", [len(p) for p in pk][:50])
        return ("ok", pk)
    except Exception as ex:  # noqa: BLE001  every exception class is an observation
        n = type(ex).__name__
        return ("err", EXC.get(n, n))


def lib_decode(pkt):
    from zeroconf import DNSIncoming

    try:
        inc = DNSIncoming(pkt, now=1.0)
        if not inc.valid:
            return None
        qs = [W.lib_question_tuple(q) for q in inc.questions]
        recs = [W.lib_record_tuple(r) for r in inc.answers()]
        tqs = [W.lib_question_tuple_text(q) for q in inc.questions]
        trecs = [W.lib_record_tuple_text(r) for r in inc.answers()]
        return (inc.id, inc.flags, qs, recs, (inc.num_questions, inc.num_answers, inc.num_authorities, inc.num_additionals), tqs, trecs)
    except Exception as ex:  # noqa: BLE001
        return ("exc", type(ex).__name__)


def boundary_seek(gm, rng):
    """nudge one TXT payload so that a packet lands on the 1460 / 8966 boundary (±2)"""
    kind, pk = impl_packets(gm)
    if kind != "ok" or not pk:
        return gm
    txts = [e for e in gm.an + gm.ad if e.kind == "t"]
    if not txts:
        return gm
    e = rng.choice(txts)
    tgt = rng.choice([1460, 1460, 8966])
    L = max(len(p) for p in pk) if tgt == 8966 else len(pk[0])
    delta = tgt - L + rng.choice([-2, -1, 0, 0, 1, 2])
    n = len(e.rd[0]) + delta
    if 0 <= n <= 9000:
        e.rd = (bytes(rng.randrange(256) for _ in range(n)),)
    return gm


def predicates(res, gm, pk, strict_lines, prop, text_lines=None):
    """the property's own sentences on the implementation's packets. Returns (sig, what) or None"""
    inq = gm.in_quantifier()
    if not inq:
        return None
    maxlab = gm.max_label()
    # decode every packet with the independent decoder and with the library
    dec = []
    for p, sl in zip(pk, strict_lines):
        if len(p) > 8966:
            return ("%s:oversized-packet" % prop, "a datagram of %d bytes was produced" % len(p))
        if sl is None:
            continue
        if not sl.startswith("ok "):
            if maxlab > 63:
                return ("%s:label-%s-encodes-undecodable" % (prop, "64" if maxlab == 64 else "gt64"),
                        "a %d-byte label was encoded instead of being rejected; the strict decoder rejects the datagram" % maxlab)
            if gm.max_wire_len() > 255:
                if prop != "C01":
                    return None  # C14 is about sizes and accounting; over-long names are C01's finding D21
                return ("C01:name-over-255-octets-emitted",
                        "a name of %d wire octets (<= 253 characters of non-ASCII text) was neither rejected nor can any RFC 1035 "
                        "decoder recover it: the builder never checks the total encoded length of a name" % gm.max_wire_len())
            return ("%s:strict-decoder-rejects" % prop, "the independent RFC 1035 decoder rejects an emitted datagram")
        dec.append(W.parse_wmsg(sl[3:]))
    if strict_lines and strict_lines[0] is not None:
        exq, exan, exau, exad = gm.expect()
        gq = [x for d in dec for x in d[2]]
        gan = [x for d in dec for x in d[3]]
        gau = [x for d in dec for x in d[4]]
        gad = [x for d in dec for x in d[5]]
        if (gq, gan, gau, gad) != (exq, exan, exau, exad):
            which = [n for n, a, b in (("questions", gq, exq), ("answers", gan, exan), ("authorities", gau, exau), ("additionals", gad, exad)) if a != b]
            lost = sum(len(b) - len(a) for n, a, b in (("q", gq, exq), ("an", gan, exan), ("au", gau, exau), ("ad", gad, exad)))
            return ("%s:roundtrip-strict:%s:%s" % (prop, ",".join(which), "count" if lost else "content"),
                    "decoding the emitted datagrams with the strict decoder does not give back the %s handed to the builder" % "/".join(which))
        # the same on the *strings*: the strict decoder's labels read back as _read_name reads them (model: textOfLabels)
        if text_lines and all(tl is not None and tl.startswith("ok ") for tl in text_lines):
            tdec = [W.parse_wmsg(tl[3:], text=True) for tl in text_lines]
            tq = [x for d in tdec for x in d[2]]
            tsec = [[x for d in tdec for x in d[i]] for i in (3, 4, 5)]
            txq, txan, txau, txad = gm.expect_text()
            res.count("text:strict-names-read-as-text-compared")
            if (tq, tsec[0], tsec[1], tsec[2]) != (txq, txan, txau, txad):
                which = [n for n, a, b in (("questions", tq, txq), ("answers", tsec[0], txan), ("authorities", tsec[1], txau), ("additionals", tsec[2], txad)) if a != b]
                return ("%s:roundtrip-strict-text:%s" % (prop, ",".join(which)),
                        "the names the strict decoder recovers, read as text, are not the strings handed to the builder (%s)" % "/".join(which))
        # header flags / id / TC
        want_id = 0 if gm.multicast else gm.id
        is_query = (gm.flags & 0x8000) == 0
        for i, d in enumerate(dec):
            last = i == len(dec) - 1
            if d[0] != want_id:
                return ("%s:id" % prop, "message id %d transmitted as %d" % (want_id, d[0]))
            want_flags = gm.flags | (0x0200 if (is_query and not last) else 0)
            if d[1] != want_flags:
                return ("%s:tc-flag:%s" % (prop, "query" if is_query else "response"), "flags %#x on packet %d of %d, expected %#x" % (d[1], i + 1, len(dec), want_flags))
        # size rule
        for p, d in zip(pk, dec):
            n = len(d[2]) + len(d[3]) + len(d[4]) + len(d[5])
            if len(p) > 1460 and n != 1:
                return ("%s:over-1460-with-%d-entries" % (prop, n), "a %d-byte datagram carries %d entries" % (len(p), n))
    # the library's own decoder
    exq, exan, exau, exad = gm.expect()
    txq, txan, txau, txad = gm.expect_text()
    lq, lan, lau, lad = [], [], [], []
    ltq, ltan, ltau, ltad = [], [], [], []
    for p in pk:
        d = lib_decode(p)
        if d is None or d[0] == "exc":
            if maxlab > 63:
                return ("%s:label-%s-encodes-undecodable" % (prop, "64" if maxlab == 64 else "gt64"), "the library cannot decode its own datagram (label of %d bytes)" % maxlab)
            if gm.max_wire_len() > 255 and prop != "C01":
                return None
            return ("%s:lib-decoder-rejects" % prop, "DNSIncoming marks an emitted datagram invalid: %r" % (d,))
        lq += d[2]
        # the library returns answers+authorities+additionals of a packet as one list in wire order: split it by the
        # header counts so that order and section membership are compared, not only the multiset
        nq_, na, nu, nd = d[4]
        recs = d[3]
        if len(recs) != na + nu + nd or len(d[2]) != nq_:
            return ("%s:roundtrip-lib:counts" % prop, "DNSIncoming returns %d questions / %d records for header counts %r" % (len(d[2]), len(recs), d[4]))
        lan += recs[:na]
        lau += recs[na:na + nu]
        lad += recs[na + nu:]
        ltq += d[5]
        ltan += d[6][:na]
        ltau += d[6][na:na + nu]
        ltad += d[6][na + nu:]
    # the strings themselves, as the library shows them (no splitting by the harness)
    res.count("text:library-names-compared-as-str")
    for nm, got, want in (("questions", ltq, txq), ("answers", ltan, txan), ("authorities", ltau, txau), ("additionals", ltad, txad)):
        if list(map(repr, got)) != list(map(repr, want)):
            return ("%s:roundtrip-lib-text:%s" % (prop, nm), "DNSIncoming does not give back the %s with the names spelled as handed to the builder" % nm)
    if lq != exq:
        return ("%s:roundtrip-lib:questions" % prop, "DNSIncoming does not give back the questions")
    for nm, got, want in (("answers", lan, exan), ("authorities", lau, exau), ("additionals", lad, exad)):
        if list(map(repr, got)) != list(map(repr, want)):
            return ("%s:roundtrip-lib:%s" % (prop, nm), "DNSIncoming does not give back the %s, in order" % nm)
    return None


def run_prop(ctx, prop, size_bias=None):
    res = C.Result(prop)
    seed = ctx["seed"]
    rng = C.rng_for(seed, "wire", prop)
    n = C.Budget(ctx["tier"], 2500, 40000).n
    if ctx["widened"]:
        n *= 3
    cases = []
    # corpus first
    for name, body in C.load_corpus("C01"):
        cases.append(("corpus:" + name, corpus_msg(body)))
    g = W.Gen(rng)
    gm_ = W.Gen(rng, malformed=True)
    for i in range(n):
        if i % 10 == 9:
            m = gm_.message(size_class=rng.choice(["tiny", "small"]))
            kind = "malformed"
        else:
            m = g.message(size_class=rng.choice(size_bias) if size_bias else None)
            kind = "valid"
            if i % 4 == 0:
                m = boundary_seek(m, rng)
            if i % 50 == 7:
                # label lengths around the limit, inside an otherwise valid message
                L = rng.choice([63, 64, 64, 65])
                m.qs.append(W.Ent("q", "a" * L + "." + rng.choice(["_http._tcp.local.", "local."]), 12, 1, False))
        cases.append((kind, m))
    # implementation
    impl = [impl_packets(m) for _, m in cases]
    lines = []
    idx = []
    for k, ((kind, m), (ik, iv)) in enumerate(zip(cases, impl)):
        lines.append("enc " + m.tok())
        idx.append(("enc", k, None))
        if ik == "ok":
            for j, p in enumerate(iv):
                if len(p) <= 9000:
                    lines.append("strict " + p.hex())
                    idx.append(("strict", k, j))
                    lines.append("stricttext " + p.hex())
                    idx.append(("stricttext", k, j))
    model = None
    if ctx["driver_ok"]:
        try:
            model = C.run_driver(lines)
        except C.DriverUnavailable as ex:
            res.notes.append("driver unavailable: %s" % ex)
    enc_out = {}
    strict_out = {}
    text_out = {}
    if model is not None:
        for (what, k, j), out in zip(idx, model):
            if what == "enc":
                enc_out[k] = out
            elif what == "strict":
                strict_out[(k, j)] = out
            else:
                text_out[(k, j)] = out
    res.rule = ("names are given to the model as text (it splits and encodes); seeded messages from a vocabulary of names with shared suffixes / case variants / non-ASCII incl. U+FFFD / dotted labels / no trailing dot / labels of 62-65 bytes, all 7 record "
                "kinds, classes incl. 256/0x0101/0x7FFF, flags incl. a caller-set TC, TTL incl. 0 and 2^32-1, remaining-TTL answers around expiry, 0-400 entries per section (authorities 0-300, any kind), TXT payloads steered onto the 1460 and 8966 "
                "boundaries (second pass using the implementation's own packet length), plus a malformed stream (labels 64-300, strings 256+, bad NSEC, the names '', '.', '..', 'a..b', '.a', 'a.b..'), plus sequences of write_name calls with the names table compared; "
                "non-trivial = distinct (size class, #packets, kinds present, multicast, query, outcome) signatures")
    for k, ((kind, m), (ik, iv)) in enumerate(zip(cases, impl)):
        res.evaluations += 1
        npk = len(iv) if ik in ("ok", "oversize", "twice") else 0
        kinds = "".join(sorted({e.kind for e in m.entries()}))
        res.nontriv((kind.split(":")[0], min(npk, 6), kinds, m.multicast, (m.flags & 0x8000) == 0, ik if ik in ("ok", "oversize", "twice") else iv,
                     max((len(p) for p in iv), default=0) > 1460 if ik == "ok" else None))
        res.count("outcome:" + (ik if ik in ("ok", "oversize", "twice") else iv))
        res.count("packets:%s" % ("1" if npk == 1 else "2-5" if 2 <= npk <= 5 else ">5" if npk > 5 else "0"))
        if ik == "ok":
            for p in iv:
                res.count("size:" + ("<=1460" if len(p) <= 1460 else "<=8966" if len(p) <= 8966 else ">8966"))
        if k < 2:
            res.sample({"kind": kind, "msg": m.tok()[:400], "packets": [p.hex()[:120] for p in iv] if ik == "ok" else iv})
        case = {"msg": m.tok(), "kind": kind}
        if ik == "oversize":
            res.violate("%s:oversized-packet" % prop, "datagrams of %s bytes were produced (limit 8966)" % iv[:8], case)
            continue
        if ik == "twice":
            res.violate("%s:second-packets-call-differs" % prop, "calling packets() again on the same message returns other datagrams (sizes %s)" % iv[:8], case)
            continue
        # C: byte-exact
        if model is not None:
            mo = enc_out[k]
            io = ("ok " + " ".join(C.hx(p) for p in iv)) if ik == "ok" else "err " + iv
            if io.strip() != mo.strip():
                res.disagree("encoder", case, io[:300], mo[:300])
        # O
        if ik == "err":
            if m.in_quantifier() and iv != "NamePartTooLongException":
                res.violate("%s:unexpected-exception:%s" % (prop, iv), "the builder raised %s on a message inside the quantifier" % iv, case)
            elif iv == "BuilderDoesNotTerminate":
                res.violate("%s:builder-does-not-terminate" % prop, "packets() keeps emitting datagrams without consuming entries", case)
            elif m.in_quantifier() and iv == "NamePartTooLongException" and m.max_label() <= 63:
                res.violate("%s:rejects-short-labels" % prop, "NamePartTooLongException although no label exceeds 63 bytes", case)
            continue
        sl = [strict_out.get((k, j)) for j in range(len(iv))] if model is not None else [None] * len(iv)
        tl = [text_out.get((k, j)) for j in range(len(iv))] if model is not None else None
        v = predicates(res, m, iv, sl, prop, tl)
        if v:
            res.violate(v[0], v[1], case)
    # the text layer on its own: sequences of write_name(str) on one packet, bytes and the str-keyed names table
    T.write_stream(res, rng, ctx["tier"], model is not None, g.name)
    return res


def corpus_msg(body):
    """corpus entries are stored as {'entries': [...], ...} built by msg_to_json"""
    return msg_from_json(body)


def msg_to_json(m):
    def e(x):
        rd = x.rd
        if rd is not None:
            rd = [v.hex() if isinstance(v, bytes) else v for v in rd]
        return {"kind": x.kind, "name": x.name, "type": x.type, "class": x.class_, "unique": x.unique, "ttl": x.ttl, "created": x.created, "now": x.now, "rd": rd}

    return {"flags": m.flags, "id": m.id, "multicast": m.multicast, "qs": [e(x) for x in m.qs], "an": [e(x) for x in m.an], "au": [e(x) for x in m.au], "ad": [e(x) for x in m.ad]}


def msg_from_json(b):
    def e(d):
        rd = d["rd"]
        if rd is not None:
            k = d["kind"]
            if k in "at":
                rd = (bytes.fromhex(rd[0]),)
            elif k == "n":
                rd = (rd[0], list(rd[1]))
            else:
                rd = tuple(rd)
        return W.Ent(d["kind"], d["name"], d["type"], d["class"], d["unique"], d["ttl"], d["created"], d["now"], rd)

    return W.GenMsg(b["flags"], b["id"], b["multicast"], [e(x) for x in b["qs"]], [e(x) for x in b["an"]], [e(x) for x in b["au"]], [e(x) for x in b["ad"]])


def run(ctx):
    return run_prop(ctx, "C01")


def replay(body):
    line = body["case"]["msg"]
    out = C.run_driver(["enc " + line, "onwire " + line])
    return {"model": out[0][:400], "onwire": out[1][:400], "violates": None, "note": "re-run ./check C01 quick to evaluate the predicates on the current tree"}
