"""C01 / C14 -- wire codec: byte-exact correspondence of the encoder model with DNSOutgoing.packets(),
and the round-trip / size / accounting predicates evaluated on the implementation's packets with two
independent strict decoders (Lean `Wire.Strict` and the Python `py_decode` below) and the library's own
DNSIncoming; C14 also follows the datagrams through `Zeroconf.async_send` (the size guard there)."""
from __future__ import annotations

import json
import logging
import struct
from types import SimpleNamespace

from . import common as C
from . import textlayer as T
from . import wiregen as W

TRUSTED = ["text layer of names: modelled (Zc.NameText: strip one trailing dot, split('.'), per-label UTF-8, '.'.join, str-keyed names table) and "
           "proved against the label-list encoder model (C01_names_table_text_keys, C01_roundtrip_text); the driver is fed the *text* of every name "
           "(`=<hex of its UTF-8>`) and splits/encodes itself; CPython's str.split / str.encode / bytes.decode are the reference it is compared with",
           "lone surrogates in names (UnicodeEncodeError) are not text and are not generated",
           "remaining-TTL arithmetic on integer milliseconds only",
           "the theorems are about messages as values; the library's entry objects are shared between messages: explored (every 5th message has a twin in the "
           "other mode built from the same objects), not modelled; likewise add_answer() and a second packets() call",
           "Zeroconf.async_send is driven with a recording transport on an object made by Zeroconf.__new__ (no sockets, no loop): only the loop over "
           "out.packets() and its size guard are exercised"]
ASSUMPTIONS = ["names are handed to the builder as str; what must come back is the same str (with its trailing dot) from the library's decoder and from "
               "the strict decoder's labels read as _read_name reads them (model: textOfLabels), and the same labels from the strict decoder",
               "a remaining TTL is asked for at a time not before the record's creation (Props/C01 NowNotBeforeCreated); otherwise it may exceed 2^32-1 "
               "(struct.error): outside the quantifier, compared byte-exactly only"]

# staged features (switched on by the commits that bring the model side / the known-findings entry)
SEND_PATH = True     # C14: follow the datagrams through Zeroconf.async_send (needs the driver command `sendlens`)
RETRY_CHECK = True   # packets() again on a builder that rejected the message (finding D32)

EXC = {"NamePartTooLongException": "NamePartTooLongException", "IndexError": "IndexError", "error": "struct.error", "ValueError": "ValueError"}


def impl_packets(gm, keep=None):
    """-> (kind, value).  `keep` (a dict) receives the library object under "out" (for the send path / the second call)"""
    try:
        out = gm.to_lib()
        if keep is not None:
            keep["out"] = out
        # a *copy*: packets() memoises and hands the very same list object back on the second call, so comparing the
        # two return values compares a list with itself
        pk = list(out.packets())
        again = list(out.packets())
        if again != pk:
            # "none duplicated": a message sent twice must not grow
            return ("twice", [len(p) for p in again][:50])
        if any(len(p) > 8966 for p in pk):
            # keep the evidence small: a builder that emits oversized datagrams can emit megabytes of them
            return ("oversize", [len(p) for p in pk][:50])
        return ("ok", pk)
    except Exception as ex:  # noqa: BLE001  every exception class is an observation
        n = type(ex).__name__
        return ("err", EXC.get(n, n))


def impl_again(out):
    """packets() once more on a builder whose first call raised: -> ("err", name) | ("ok", [datagrams])"""
    try:
        return ("ok", list(out.packets()))
    except Exception as ex:  # noqa: BLE001
        n = type(ex).__name__
        return ("err", EXC.get(n, n))


class _Recorder:
    def __init__(self):
        self.sent = []

    def sendto(self, data, addr=None):
        self.sent.append(bytes(data))


def impl_send(out):
    """the datagrams that leave `Zeroconf.async_send(out)` (recording transport, no sockets): -> ("ok", [bytes]) | ("err", name)"""
    try:
        from zeroconf import Zeroconf
        from zeroconf._transport import _WrappedTransport

        logging.getLogger("zeroconf").setLevel(logging.CRITICAL)
        rec = _Recorder()
        zc = Zeroconf.__new__(Zeroconf)  # no sockets, no loop: only what async_send() reads
        zc.done = False
        zc.engine = SimpleNamespace(senders=[_WrappedTransport(rec, False, None, 7, ("127.0.0.1", 5353))])
        zc.async_send(out)
        # the same to an explicit address (a unicast reply): `async_send_with_transport` picks the address and hands every
        # datagram to the transport -- none may be lost on that way either
        rec2 = _Recorder()
        zc.engine = SimpleNamespace(senders=[_WrappedTransport(rec2, False, None, 7, ("127.0.0.1", 5353))])
        zc.async_send(out, "192.168.1.9", 5353)
        return ("ok", rec.sent, rec2.sent)
    except Exception as ex:  # noqa: BLE001
        return ("err", type(ex).__name__, None)


def lib_decode(pkt):
    from zeroconf import DNSIncoming

    try:
        inc = DNSIncoming(pkt, now=1.0)
        if not inc.valid:
            return None
        qs = [W.lib_question_tuple(q) for q in inc.questions]
        recs = [W.lib_record_tuple(r) for r in inc.answers()]
        tqs = [W.lib_question_tuple_text(q) for q in inc.questions]
        trecs = [W.lib_record_tuple_text(r) for r in inc.answers()]
        return (inc.id, inc.flags, qs, recs, (inc.num_questions, inc.num_answers, inc.num_authorities, inc.num_additionals), tqs, trecs)
    except Exception as ex:  # noqa: BLE001
        return ("exc", type(ex).__name__)


# ------------------------------------------------------------------------------------------
# a second independent strict decoder (RFC 1035 §3.1, §4.1; RFC 2782; RFC 4034 §4.1.2), written on bytes, sharing nothing
# with the library or the Lean model.  Same strictness as `Wire.Strict` (exact counts, no trailing octets, labels 1..63,
# pointers only backwards to before the current name segment and not into the header, <= 128 pointers, rdlength exact per
# type) EXCEPT that it applies no rule on the total length of a name: it reports the longest name instead, so that a
# datagram carrying a name of more than 255 octets (finding D21) is still decoded and judged on everything else.


class PyReject(Exception):
    pass


def _py_name(b, off):
    labels = []
    cur, seg, hops, ret = off, off, 0, None
    n = len(b)
    while True:
        if cur >= n:
            raise PyReject("name runs off the datagram")
        c = b[cur]
        if c == 0:
            return tuple(labels), (cur + 1 if ret is None else ret)
        if c < 0x40:
            if cur + 1 + c > n:
                raise PyReject("label runs off the datagram")
            labels.append(bytes(b[cur + 1:cur + 1 + c]))
            cur += 1 + c
        elif c < 0xC0:
            raise PyReject("label length byte %#x" % c)
        else:
            if cur + 1 >= n:
                raise PyReject("truncated pointer")
            tgt = ((c & 0x3F) << 8) | b[cur + 1]
            if tgt < 12 or tgt >= seg:
                raise PyReject("pointer at %d to %d does not point backwards to a prior name" % (cur, tgt))
            hops += 1
            if hops > 128:
                raise PyReject("more than 128 pointers")
            if ret is None:
                ret = cur + 2
            cur = seg = tgt


def py_decode(b):
    """-> (id, flags, [q], [an], [au], [ad], longest name in wire octets), entries as the canonical tuples of
    `wiregen.parse_wmsg`; raises PyReject"""
    longest = [0]

    def name(off):
        ls, e = _py_name(b, off)
        longest[0] = max(longest[0], sum(len(l) + 1 for l in ls) + 1)
        return ls, e

    n = len(b)
    if n < 12:
        raise PyReject("short header")
    id_, flags, nq, nan, nau, nad = struct.unpack(">HHHHHH", b[:12])
    off = 12
    qs = []
    for _ in range(nq):
        nm, off = name(off)
        if off + 4 > n:
            raise PyReject("short question")
        t, c = struct.unpack(">HH", b[off:off + 4])
        off += 4
        qs.append(("q", nm, t, c))
    secs = []
    for cnt in (nan, nau, nad):
        s = []
        for _ in range(cnt):
            nm, off = name(off)
            if off + 10 > n:
                raise PyReject("short record")
            t, c, ttl, rl = struct.unpack(">HHIH", b[off:off + 10])
            off += 10
            end = off + rl
            if end > n:
                raise PyReject("rdata runs off the datagram")
            if t in (1, 28):
                if rl != (4 if t == 1 else 16):
                    raise PyReject("address length")
                rd = ("a", bytes(b[off:end]))
            elif t in (5, 12):
                tn, e = name(off)
                if e != end:
                    raise PyReject("rdlength (PTR)")
                rd = ("p", tn)
            elif t == 16:
                rd = ("t", bytes(b[off:end]))
            elif t == 33:
                if rl < 7:
                    raise PyReject("short SRV")
                p, w, port = struct.unpack(">HHH", b[off:off + 6])
                tn, e = name(off + 6)
                if e != end:
                    raise PyReject("rdlength (SRV)")
                rd = ("s", p, w, port, tn)
            elif t == 13:
                o = off
                ss = []
                for _i in range(2):
                    if o >= end or o + 1 + b[o] > end:
                        raise PyReject("HINFO")
                    ss.append(bytes(b[o + 1:o + 1 + b[o]]))
                    o += 1 + b[o]
                if o != end:
                    raise PyReject("rdlength (HINFO)")
                rd = ("h", ss[0], ss[1])
            elif t == 47:
                tn, o = name(off)
                if o > end:
                    raise PyReject("rdlength (NSEC)")
                types = []
                while o < end:
                    if o + 2 > end:
                        raise PyReject("NSEC window")
                    w, ln = b[o], b[o + 1]
                    if ln < 1 or ln > 32 or o + 2 + ln > end:
                        raise PyReject("NSEC bitmap length")
                    for i in range(ln):
                        by = b[o + 2 + i]
                        for bit in range(8):
                            if by & (0x80 >> bit):
                                types.append(w * 256 + i * 8 + bit)
                    o += 2 + ln
                rd = ("n", tn, tuple(types))
            else:
                rd = ("o", bytes(b[off:end]))
            off = end
            s.append(("r", nm, t, c, ttl, rd))
        secs.append(s)
    if off != n:
        raise PyReject("%d trailing octets" % (n - off))
    return id_, flags, qs, secs[0], secs[1], secs[2], longest[0]


def boundary_seek(gm, rng):
    """nudge one TXT payload so that a packet lands on the 1460 / 8966 boundary (±2)"""
    kind, pk = impl_packets(gm)
    if kind != "ok" or not pk:
        return gm
    txts = [e for e in gm.an + gm.ad if e.kind == "t"]
    if not txts:
        return gm
    e = rng.choice(txts)
    tgt = rng.choice([1460, 1460, 8966])
    L = max(len(p) for p in pk) if tgt == 8966 else len(pk[0])
    delta = tgt - L + rng.choice([-2, -1, 0, 0, 1, 2])
    n = len(e.rd[0]) + delta
    if 0 <= n <= 9000:
        e.rd = (rng.randbytes(n),)
    return gm


def inq(gm, prop):
    """inside the quantifier of `prop`: C14 says nothing about how names are spelled, so a name handed over without its trailing
    dot is judged too (C01: "fully-qualified names (trailing dot, ...)": byte-exact comparison only)"""
    return gm.in_quantifier(dotless_ok=(prop == "C14"))


def qsplit_seek(gm, rng):
    """steer the first datagram of a question-section split onto 1460 / 1461 octets by the length of the first label (second pass
    using the implementation's own first datagram)"""
    kind, pk = impl_packets(gm)
    if kind != "ok" or len(pk) < 2:
        return gm
    q0 = gm.qs[0]
    lab, rest = q0.name.split(".", 1)
    n = len(lab) + (1460 - len(pk[0])) + rng.choice([0, 1, 1, 1, 2, -1])
    if 1 <= n <= 63:
        q0.name = "x" * n + "." + rest
    return gm


def predicates(res, gm, pk, strict_lines, prop, case=None, text_lines=None):
    """the property's own sentences on the implementation's packets: -> list of (sig, what), every predicate that fails
    (a known finding about one datagram must not stop the judgement of the rest of the message)"""
    if not inq(gm, prop):
        res.count("oracle:skipped-outside-quantifier")
        return []
    res.count("oracle:judged")
    out = []
    maxlab = gm.max_label()
    long_in = gm.max_wire_len() > 255  # the *input* holds a name of more than 255 wire octets (the class of finding D21)
    # --- decode every datagram with the two independent strict decoders
    dec = []
    d21 = 0
    for j, p in enumerate(pk):
        if len(p) > 8966:
            return out + [("%s:oversized-packet" % prop, "a datagram of %d bytes was produced" % len(p))]
        sl = strict_lines[j] if j < len(strict_lines) else None
        lean_ok = None if sl is None else sl.startswith("ok ")
        try:
            py = py_decode(p)
        except PyReject as ex:
            py, why = None, str(ex)
        if py is None:
            if lean_ok:
                res.disagree("decoders", case, "python strict decoder rejects datagram %d: %s" % (j, why), sl[:200])
            if maxlab > 63:
                return out + [("%s:label-%s-encodes-undecodable" % (prop, "64" if maxlab == 64 else "gt64"),
                               "a %d-byte label was encoded instead of being rejected; no RFC 1035 decoder reads the datagram (%s)" % (maxlab, why))]
            return out + [("%s:strict-decoder-rejects" % prop, "the independent RFC 1035 decoders reject emitted datagram %d of %d: %s" % (j + 1, len(pk), why))]
        content = (py[0], py[1], py[2], py[3], py[4], py[5])
        if lean_ok:
            lw = W.parse_wmsg(sl[3:])
            if tuple(lw) != content:
                res.disagree("decoders", case, "python strict decoder reads datagram %d differently" % j, sl[:200])
        if py[6] > 255:
            # the datagram carries a name of more than 255 octets: unacceptable to an RFC 1035 decoder (and to `Wire.Strict`).
            # This is finding D21 exactly when the *input* holds such a name; the datagram is still judged on everything else.
            if lean_ok:
                res.disagree("decoders", case, "python strict decoder finds a name of %d octets in datagram %d" % (py[6], j), sl[:200])
            if not long_in:
                return out + [("%s:strict-decoder-rejects" % prop, "emitted datagram %d carries a name of %d octets although no name handed to the builder exceeds 255" % (j + 1, py[6]))]
            d21 += 1
        elif lean_ok is False:
            res.disagree("decoders", case, "python strict decoder accepts datagram %d (longest name %d octets)" % (j, py[6]), sl[:200])
        dec.append(content)
    if d21:
        res.count("oracle:datagrams-with-name-over-255-octets", d21)
        if prop == "C01":
            # C14 is about sizes and accounting; over-long names are C01's finding D21
            out.append(("C01:name-over-255-octets-emitted",
                        "a name of %d wire octets (<= 253 characters of non-ASCII text) was neither rejected nor can any RFC 1035 "
                        "decoder recover it: the builder never checks the total encoded length of a name" % gm.max_wire_len()))
    # --- round trip, per section, in order
    exq, exan, exau, exad = gm.expect()
    gq = [x for d in dec for x in d[2]]
    gan = [x for d in dec for x in d[3]]
    gau = [x for d in dec for x in d[4]]
    gad = [x for d in dec for x in d[5]]
    if (gq, gan, gau, gad) != (exq, exan, exau, exad):
        which = [n for n, a, b in (("questions", gq, exq), ("answers", gan, exan), ("authorities", gau, exau), ("additionals", gad, exad)) if a != b]
        lost = sum(len(b) - len(a) for n, a, b in (("q", gq, exq), ("an", gan, exan), ("au", gau, exau), ("ad", gad, exad)))
        out.append(("%s:roundtrip-strict:%s:%s" % (prop, ",".join(which), "count" if lost else "content"),
                    "decoding the emitted datagrams with the strict decoder does not give back the %s handed to the builder" % "/".join(which)))
    # --- the same on the *strings*: the strict decoder's labels read back as _read_name reads them (model: textOfLabels)
    if text_lines and all(tl is not None and tl.startswith("ok ") for tl in text_lines):
        tdec = [W.parse_wmsg(tl[3:], text=True) for tl in text_lines]
        tq = [x for d in tdec for x in d[2]]
        tsec = [[x for d in tdec for x in d[i]] for i in (3, 4, 5)]
        txq, txan, txau, txad = gm.expect_text()
        res.count("text:strict-names-read-as-text-compared")
        if (tq, tsec[0], tsec[1], tsec[2]) != (txq, txan, txau, txad):
            which = [n for n, a, b in (("questions", tq, txq), ("answers", tsec[0], txan), ("authorities", tsec[1], txau), ("additionals", tsec[2], txad)) if a != b]
            out.append(("%s:roundtrip-strict-text:%s" % (prop, ",".join(which)),
                        "the names the strict decoder recovers, read as text, are not the strings handed to the builder (%s)" % "/".join(which)))
    elif text_lines:
        res.count("text:strict-names-read-as-text-skipped (a datagram the Lean strict decoder rejects: D21)")
    # --- header: id, TC bit, the other flag bits
    want_id = 0 if gm.multicast else gm.id
    is_query = (gm.flags & 0x8000) == 0
    for i, d in enumerate(dec):
        last = i == len(dec) - 1
        if d[0] != want_id:
            out.append(("%s:id" % prop, "message id %d transmitted as %d" % (want_id, d[0])))
            break
        want_flags = gm.flags | (0x0200 if (is_query and not last) else 0)
        if (d[1] & 0x0200) != (want_flags & 0x0200):
            out.append(("%s:tc-flag:%s" % (prop, "query" if is_query else "response"),
                        "flags %#x on packet %d of %d, expected %#x (TC bit)" % (d[1], i + 1, len(dec), want_flags)))
            break
        if d[1] != want_flags:
            out.append(("%s:flags-word" % prop, "flags %#x on packet %d of %d, expected %#x" % (d[1], i + 1, len(dec), want_flags)))
            break
    # --- size rule
    for p, d in zip(pk, dec):
        n = len(d[2]) + len(d[3]) + len(d[4]) + len(d[5])
        if len(p) > 1460 and n != 1:
            out.append(("%s:over-1460-with-%d-entries" % (prop, n), "a %d-byte datagram carries %d entries" % (len(p), n)))
            break
    # --- the library's own decoder
    txq, txan, txau, txad = gm.expect_text()
    lq, lan, lau, lad = [], [], [], []
    ltq, ltan, ltau, ltad = [], [], [], []
    for p in pk:
        d = lib_decode(p)
        if d is None or d[0] == "exc":
            if maxlab > 63:
                return out + [("%s:label-%s-encodes-undecodable" % (prop, "64" if maxlab == 64 else "gt64"), "the library cannot decode its own datagram (label of %d bytes)" % maxlab)]
            return out + [("%s:lib-decoder-rejects" % prop, "DNSIncoming marks an emitted datagram invalid: %r" % (d,))]
        lq += d[2]
        # the library returns answers+authorities+additionals of a packet as one list in wire order: split it by the
        # header counts so that order and section membership are compared, not only the multiset
        nq_, na, nu, nd = d[4]
        recs = d[3]
        if len(recs) != na + nu + nd or len(d[2]) != nq_:
            return out + [("%s:roundtrip-lib:counts" % prop, "DNSIncoming returns %d questions / %d records for header counts %r" % (len(d[2]), len(recs), d[4]))]
        lan += recs[:na]
        lau += recs[na:na + nu]
        lad += recs[na + nu:]
        ltq += d[5]
        ltan += d[6][:na]
        ltau += d[6][na:na + nu]
        ltad += d[6][na + nu:]
    # the strings themselves, as the library shows them (no splitting by the harness)
    res.count("text:library-names-compared-as-str")
    for nm, got, want in (("questions", ltq, txq), ("answers", ltan, txan), ("authorities", ltau, txau), ("additionals", ltad, txad)):
        if list(map(repr, got)) != list(map(repr, want)):
            out.append(("%s:roundtrip-lib-text:%s" % (prop, nm), "DNSIncoming does not give back the %s with the names spelled as handed to the builder" % nm))
            break
    if lq != exq:
        out.append(("%s:roundtrip-lib:questions" % prop, "DNSIncoming does not give back the questions"))
    for nm, got, want in (("answers", lan, exan), ("authorities", lau, exau), ("additionals", lad, exad)):
        if list(map(repr, got)) != list(map(repr, want)):
            out.append(("%s:roundtrip-lib:%s" % (prop, nm), "DNSIncoming does not give back the %s, in order" % nm))
            break
    return out


def run_prop(ctx, prop, size_bias=None):
    res = C.Result(prop)
    seed = ctx["seed"]
    rng = C.rng_for(seed, "wire", prop)
    n = C.Budget(ctx["tier"], 2500, 40000).n
    if ctx["widened"]:
        n *= 3
    cases = []
    # corpus first
    for name, body in C.load_corpus("C01"):
        cases.append(("corpus:" + name, corpus_msg(body)))
    g = W.Gen(rng)
    gm_ = W.Gen(rng, malformed=True)
    for i in range(n):
        if i % 10 == 9:
            m = gm_.message(size_class=rng.choice(["tiny", "small"]))
            kind = "malformed"
        else:
            m = g.message(size_class=rng.choice(size_bias) if size_bias else None)
            kind = "valid"
            if i % 4 == 0:
                m = boundary_seek(m, rng)
            if i % 50 == 7:
                # label lengths around the limit, inside an otherwise valid message: behind everything else, or -- the label is
                # then the first thing write_name looks at in a fresh packet, nothing has been written when it raises -- as the
                # first label of the first entry
                L = rng.choice([63, 64, 64, 65])
                q = W.Ent("q", "a" * L + "." + rng.choice(["_http._tcp.local.", "local."]), 12, 1, False)
                if rng.random() < 0.5:
                    m.qs.insert(0, q)
                else:
                    m.qs.append(q)
            if i % 60 == 11:
                # a query that splits inside its question section, names without trailing dot, first datagram on 1460 / 1461
                m = qsplit_seek(g.qsplit_message(), rng)
                kind = "valid:qsplit"
        if kind.startswith("valid") and i % 5 == 1 and len(m.entries()) <= 120:
            # the message and its twin in the other mode are built from the SAME library entry objects
            m.objs = {}
            cases.append((kind, m))
            cases.append(("valid:twin", m.twin()))
            continue
        cases.append((kind, m))
    # implementation
    impl = []
    sent = []   # the send path (C14: `Zeroconf.async_send` is an anchored mechanism): what leaves for the datagrams the builder made
    again = []  # a rejected message, asked again
    for _, m in cases:
        keep = {}
        ik, iv = r = impl_packets(m, keep)
        o = keep.get("out")  # the library object is dropped at once: a thorough run holds > 100 000 messages
        impl.append(r)
        sent.append(impl_send(o) if (SEND_PATH and prop == "C14" and ik == "ok" and o is not None) else None)
        again.append(impl_again(o) if (RETRY_CHECK and ik == "err" and iv == "NamePartTooLongException" and o is not None
                                       and inq(m, prop)) else None)
        del o, keep
    lines = []
    idx = []
    for k, ((kind, m), (ik, iv)) in enumerate(zip(cases, impl)):
        lines.append("enc " + m.tok())
        idx.append(("enc", k, None))
        if ik == "ok":
            for j, p in enumerate(iv):
                if len(p) <= 9000:
                    lines.append("strict " + p.hex())
                    idx.append(("strict", k, j))
                    lines.append("stricttext " + p.hex())
                    idx.append(("stricttext", k, j))
            if sent[k] is not None:
                lines.append("sendlens " + (" ".join(str(len(p)) for p in iv) or "-"))
                idx.append(("send", k, None))
    model = None
    if ctx["driver_ok"]:
        try:
            model = C.run_driver(lines)
        except C.DriverUnavailable as ex:
            res.notes.append("driver unavailable: %s" % ex)
    enc_out = {}
    strict_out = {}
    send_out = {}
    text_out = {}
    if model is not None:
        for (what, k, j), out in zip(idx, model):
            if what == "enc":
                enc_out[k] = out
            elif what == "send":
                send_out[k] = out
            elif what == "strict":
                strict_out[(k, j)] = out
            else:
                text_out[(k, j)] = out
    res.rule = ("names are given to the model as text (it splits and encodes); seeded messages from a vocabulary of names with shared suffixes / case variants / non-ASCII incl. U+FFFD and 4-byte UTF-8 / dotted labels / no trailing dot / labels of 1-63 bytes "
                "(62-65 emphasised), names up to 253 characters / 255 octets, all 7 record kinds, 16-bit question types, 15-bit classes, 16-bit flags, SRV fields 0-65535, "
                "NSEC types 0-255 (up to 40 per record), TTL incl. 0 and 2^32-1, remaining-TTL answers around expiry (and `now` before `created`), 0-400 entries per section "
                "(authorities 0-300, any kind), TXT payloads steered onto the 1460 and 8966 boundaries (second pass using the implementation's own packet length), names of "
                "more than 255 octets (finding D21) in a minority of messages, plus a malformed stream (labels 64-300, strings 256+, bad NSEC, the names '', '.', '..', 'a..b', '.a', 'a.b..'), plus sequences of write_name calls with the names table compared; every datagram is decoded by two "
                "independent strict decoders (Lean and Python) and by the library; C14 also pushes every message through Zeroconf.async_send with a recording transport; "
                "non-trivial = distinct (size class, #packets, kinds present, multicast, query, outcome) signatures")
    for k, ((kind, m), (ik, iv)) in enumerate(zip(cases, impl)):
        res.evaluations += 1
        npk = len(iv) if ik in ("ok", "oversize", "twice") else 0
        kinds = "".join(sorted({e.kind for e in m.entries()}))
        res.nontriv((kind.split(":")[0], min(npk, 6), kinds, m.multicast, (m.flags & 0x8000) == 0, ik if ik in ("ok", "oversize", "twice") else iv,
                     max((len(p) for p in iv), default=0) > 1460 if ik == "ok" else None))
        res.count("outcome:" + (ik if ik in ("ok", "oversize", "twice") else iv))
        res.count("packets:%s" % ("1" if npk == 1 else "2-5" if 2 <= npk <= 5 else ">5" if npk > 5 else "0"))
        if kind == "valid:twin":
            res.count("entry-objects:message-built-from-the-objects-of-its-twin-in-the-other-mode")
        if getattr(m, "via_add_answer", False) and any(not r.now for r in m.an):
            res.count("api:answers-added-with-add_answer")
        nlab = max((len(W.labels_of(nm)) for e in m.entries() for nm in e.names()), default=0)
        res.count("labels-per-name:max-%s" % ("<=23" if nlab <= 23 else "24-64" if nlab <= 64 else ">64"))
        if ik == "ok":
            for p in iv:
                res.count("size:" + ("<=1460" if len(p) <= 1460 else "<=8966" if len(p) <= 8966 else ">8966"))
                if len(p) in (1459, 1460, 8965, 8966):
                    res.count("size:exactly-%d" % len(p))
        if k < 2:
            res.sample({"kind": kind, "msg": m.tok()[:400], "packets": [p.hex()[:120] for p in iv] if ik == "ok" else iv})
        case = {"msg": m.tok(), "kind": kind}
        if ik == "oversize":
            res.violate("%s:oversized-packet" % prop, "datagrams of %s bytes were produced (limit 8966)" % iv[:8], case)
            continue
        if ik == "twice":
            res.violate("%s:second-packets-call-differs" % prop, "calling packets() again on the same message returns other datagrams (sizes %s)" % iv[:8], case)
            continue
        # C: byte-exact
        if model is not None:
            mo = enc_out[k]
            io = ("ok " + " ".join(C.hx(p) for p in iv)) if ik == "ok" else "err " + iv
            if io.strip() != mo.strip():
                res.disagree("encoder", case, io[:300], mo[:300])
        else:
            res.count("correspondence:skipped-no-driver")
        # O
        if ik == "err":
            if inq(m, prop) and iv != "NamePartTooLongException":
                res.violate("%s:unexpected-exception:%s" % (prop, iv), "the builder raised %s on a message inside the quantifier" % iv, case)
            elif iv == "BuilderDoesNotTerminate":
                res.violate("%s:builder-does-not-terminate" % prop, "packets() keeps emitting datagrams without consuming entries", case)
            elif inq(m, prop) and iv == "NamePartTooLongException" and m.max_label() <= 63:
                res.violate("%s:rejects-short-labels" % prop, "NamePartTooLongException although no label exceeds 63 bytes", case)
            elif not inq(m, prop):
                res.count("oracle:skipped-outside-quantifier")
            if again[k] is not None and again[k] != ("err", "NamePartTooLongException"):
                # the message was rejected; asked again, the same builder must not hand out datagrams for it
                ak, av = again[k]
                res.violate("%s:packets-again-after-rejection" % prop,
                            "packets() raised NamePartTooLongException; called again on the same object it %s" %
                            ("returns %d datagram(s) (%s...) that do not carry the rejected entry" % (len(av), av[0].hex()[:80] if av else "") if ak == "ok" else "raises %s" % av), case)
            continue
        sl = [strict_out.get((k, j)) for j in range(len(iv))] if model is not None else [None] * len(iv)
        tl = [text_out.get((k, j)) for j in range(len(iv))] if model is not None else None
        for sig, what in predicates(res, m, iv, sl, prop, case, tl):
            res.violate(sig, what, case)
        # the send path: every datagram the builder made (all are <= 8966 here) leaves, once, in order
        if sent[k] is not None:
            sk, sv, sv2 = sent[k]
            if model is not None and k in send_out:
                for how, got in (("default address", sv), ("explicit address", sv2)):
                    io = str(len(got)) if sk == "ok" else "err " + sv
                    if io != send_out[k].strip():
                        res.disagree("send", case, io + " (" + how + ")", send_out[k][:100])
            if inq(m, prop):
                if sk != "ok":
                    res.violate("%s:send-path-raises:%s" % (prop, sv), "Zeroconf.async_send raised %s for a message the builder turned into datagrams" % sv, case)
                else:
                    for how, got in (("", sv), ("-to-explicit-address", sv2)):
                        if got != iv:
                            first = next((j for j, p in enumerate(iv) if j >= len(got) or got[j] != p), len(iv))
                            size = len(iv[first]) if first < len(iv) else -1
                            cls = "exactly-8966" if size == 8966 else "over-1460" if size > 1460 else "at-most-1460" if 0 <= size else "no"
                            res.violate("%s:send-path%s-drops-datagram-of-%s-bytes" % (prop, how, cls),
                                        "the builder made datagrams of %s bytes, async_send%s let %s bytes leave: datagram %d (%d bytes, within the 8966 limit) "
                                        "is not sent" % ([len(p) for p in iv][:8], " (addr 192.168.1.9, port 5353)" if how else "", [len(p) for p in got][:8], first + 1, size), case)
                            break
    # the text layer on its own: sequences of write_name(str) on one packet, bytes and the str-keyed names table
    T.write_stream(res, rng, ctx["tier"], model is not None, g.name)
    return res


def corpus_msg(body):
    """corpus entries are stored as {'entries': [...], ...} built by msg_to_json"""
    return msg_from_json(body)


def msg_to_json(m):
    def e(x):
        rd = x.rd
        if rd is not None:
            rd = [v.hex() if isinstance(v, bytes) else v for v in rd]
        return {"kind": x.kind, "name": x.name, "type": x.type, "class": x.class_, "unique": x.unique, "ttl": x.ttl, "created": x.created, "now": x.now, "rd": rd}

    return {"flags": m.flags, "id": m.id, "multicast": m.multicast, "qs": [e(x) for x in m.qs], "an": [e(x) for x in m.an], "au": [e(x) for x in m.au], "ad": [e(x) for x in m.ad]}


def msg_from_json(b):
    def e(d):
        rd = d["rd"]
        if rd is not None:
            k = d["kind"]
            if k in "at":
                rd = (bytes.fromhex(rd[0]),)
            elif k == "n":
                rd = (rd[0], list(rd[1]))
            else:
                rd = tuple(rd)
        return W.Ent(d["kind"], d["name"], d["type"], d["class"], d["unique"], d["ttl"], d["created"], d["now"], rd)

    return W.GenMsg(b["flags"], b["id"], b["multicast"], [e(x) for x in b["qs"]], [e(x) for x in b["an"]], [e(x) for x in b["au"]], [e(x) for x in b["ad"]])


def run(ctx):
    return run_prop(ctx, "C01")


def replay(body):
    line = body["case"]["msg"]
    out = C.run_driver(["enc " + line, "onwire " + line])
    return {"model": out[0][:400], "onwire": out[1][:400], "violates": None, "note": "re-run ./check C01 quick to evaluate the predicates on the current tree"}
