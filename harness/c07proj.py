"""C07 -- block logs of the real hosts of a C07 run, for the PROJECTION hypotheses of `C07_convergence_from_models_partial`.

The Lean theorem replaces the contracts K1..K6 by "this host's / this browser's part of the link trace is the projection of a run of
model X" (`Bridge.HostRun`: the C08/C09 machine; `BrowserRun` / `RefreshRun`: C10's scheduler; `CacheRun`: the C04 browser over
the C05/C06 cache).  wp-C07K4 made them evaluable (`lean/Zc/Proofs/LinkBridgeEval.lean`, driver commands `c07host`, `c07browser`,
`c07cache`); this module records, next to the link trace, the atomic blocks those models run on and builds the driver lines:

    c07host    <endT> <trace> <hid> <types> <svcs> <T0> <nblocks> (<t> <adst|-> <block of c08run>)...
    c07browser <endT> <trace> <tb> <bh bty bi> <ntypes> <typeHex>... <nameHex> <minDelay> <tS> <npre0> <op>... <d> <nevs> <op>... <nal> (<o ty i> <aliasHex>)...
    c07cache   <endT> <trace> <tb> <bh bty bi> <npre> <cev>... <nevs> <cev>...

(`c07resp` needs C12's block recorder and is not produced.)  A SIDE REPORT: the answers are counted, clause by clause, into the
evidence (`proj:<command>:<clause>=<0|1>`); a 0 is a modelling gap or a finding to be triaged, never a verdict of the check.

The recorders are class-level wrappers keyed by object identity, so one installation serves every host of the simulation:
`harness.c08.Tap` (registry / broadcast tasks / multicast queues / close, as C08's own harness records them), a scheduler recorder
in the manner of `harness.c10.Recorder` but for every `QueryScheduler`, and `DNSCache.async_expire` (every purge of a host's cache)."""
from __future__ import annotations

import functools

from . import common as C
from . import vsim

T0 = vsim.T0


class ProjTap:
    def __init__(self, sim, trace):
        from . import c08

        self.sim = sim
        self.trace = trace  # the raw link trace of harness.c07.run_case (positions order purges against deliveries)
        self.host = c08.Tap(sim)
        self.sched = {}  # id(QueryScheduler) -> {"zc": id, "types": [...], "ops": [[pos, line]...], "start": None | [pos, t, d]}
        self.purges = []  # [pos, t, id(cache)]
        self._saved = []
        self._busy = set()

    def now(self):
        return self.sim.now()

    def install(self):
        import zeroconf._cache as cache_mod
        import zeroconf._services.browser as B

        self.host.install()
        tap, sim = self, self.sim
        cls = B.QueryScheduler

        def wrap(name, mkline):
            orig = getattr(cls, name)

            @functools.wraps(orig)
            def w(self_, *a, **k):
                rec = tap.sched.get(id(self_))
                if rec is None or id(self_) in tap._busy:
                    return orig(self_, *a, **k)
                tap._busy.add(id(self_))
                try:
                    pre = mkline(rec, self_, *a, **k)
                    pos = len(tap.trace)
                    try:
                        return orig(self_, *a, **k)
                    finally:
                        line = pre() if callable(pre) else pre
                        if line is not None:
                            rec["ops"].append([pos, tap.now(), line])
                finally:
                    tap._busy.discard(id(self_))

            setattr(cls, name, w)
            tap._saved.append((cls, name, orig))

        orig_init = cls.__init__

        @functools.wraps(orig_init)
        def init(self_, *a, **k):
            orig_init(self_, *a, **k)
            tap.sched[id(self_)] = {"zc": id(self_._zc), "types": sorted(self_._types), "ops": [], "start": None, "t0": tap.now()}

        cls.__init__ = init
        tap._saved.append((cls, "__init__", orig_init))

        def start_line(rec, self_, loop):
            n = len(sim.draws)

            def fin():
                rec["start"] = [tap.now(), sim.draws[n][3] if len(sim.draws) > n else 0]
                return "S %d %d" % (rec["start"][0], rec["start"][1])  # (a marker in the op list; the driver line has no S op)
            return fin

        def ptr_line(rec, self_, pointer):
            return "P %d %s %s %d %d" % (tap.now(), C.hs(pointer.alias), C.hs(pointer.name), int(pointer.ttl), int(round(pointer.created)) - T0)

        wrap("start", start_line)
        wrap("stop", lambda rec, self_: "X %d" % tap.now())
        wrap("reschedule_ptr_first_refresh", ptr_line)
        wrap("cancel_ptr_refresh", lambda rec, self_, pointer: "C %d %s" % (tap.now(), C.hs(pointer.alias)))
        wrap("_process_startup_queries", lambda rec, self_: "F %d %s" % (tap.now(), C.b01(self_._zc.done)))
        wrap("_process_ready_types", lambda rec, self_: "F %d %s" % (tap.now(), C.b01(self_._zc.done)))

        DC = cache_mod.DNSCache
        orig_expire = DC.async_expire

        @functools.wraps(orig_expire)
        def expire(self_, now):
            tap.purges.append([len(tap.trace), tap.now(), id(self_)])
            return orig_expire(self_, now)

        DC.async_expire = expire
        tap._saved.append((DC, "async_expire", orig_expire))

    def remove(self):
        self.host.remove()
        for obj, name, orig in reversed(self._saved):
            setattr(obj, name, orig)
        self._saved = []

    def snapshot(self, hosts):
        """what run_case keeps (plain data): per host the c08 block list, per scheduler its ops, per cache its purges"""
        from . import c08

        out = {"hosts": {}, "sched": [], "purges": []}
        ip_to_host = {}
        zc_to_host, cache_to_host = {}, {}
        for h in hosts:
            if h is None:
                continue
            ip_to_host[h.ip] = h.idx
            ip_to_host[getattr(h, "ip6", None)] = h.idx
            zc_to_host[id(h.zc)] = h.idx
            cache_to_host[id(h.zc.cache)] = h.idx
        for h in hosts:
            if h is None:
                continue
            try:
                out["hosts"][h.idx] = host_blocks(self.host.ev, id(h.zc), id(h.zc.registry), ip_to_host)
            except Exception as ex:  # the recorder must never break a run
                out["hosts"][h.idx] = {"error": "%s: %s" % (type(ex).__name__, ex)}
        for rec in self.sched.values():
            if rec["zc"] in zc_to_host:
                out["sched"].append({"host": zc_to_host[rec["zc"]], "types": rec["types"], "ops": rec["ops"], "start": rec["start"], "t0": rec["t0"]})
        out["purges"] = [[pos, t, cache_to_host[c]] for pos, t, c in self.purges if c in cache_to_host]
        return out


def host_blocks(ev_all, zc, rid, ip_to_host):
    """the blocks of the C08 machine of ONE host, from `harness.c08.Tap` events: [[t, adst | None, "<op of c08run>"]...]
    (harness/c08.py:trace_ops without the bookkeeping ops `flush` / `stop`, plus the unicast destination of `ans` blocks)"""
    from . import c08, c09

    oids = {}

    def oid(i):
        return oids.setdefault(i, len(oids) + 1)

    ev = [e for e in ev_all if e[2] in (zc, rid)]
    blocks = []
    seen_all = set()
    i = 0
    while i < len(ev):
        e = ev[i]
        k, t = e[0], e[1]

        def sends_after(j):
            out = []
            j += 1
            while j < len(ev) and ev[j][0] == "send":
                out.append(ev[j])
                j += 1
            return out, j

        if k in ("reg", "upd", "unreg"):
            blocks.append([t, None, "%s %d %d %s" % (k, oid(e[3]), t, c08.svc_tokens(e[4]))])
        elif k == "close":
            blocks.append([t, None, "close"])
        elif k == "bdone" and e[6] < 3:
            # the broadcast coroutine woke at its due time, found its info no longer registered (D6 repair) and returned without
            # sending: a step of the task all the same (c08run's bookkeeping op `stop`)
            blocks.append([t, None, "task %d %s %s %d" % (oid(e[3]), "-" if e[4] is None else str(e[4]), C.b01(e[5]), t)])
        elif k == "allgen":
            if not e[3]:
                blocks.append([t, None, "all %d" % t])
        elif k == "enq":
            ents = " ".join("%s %d %s" % (kk, len(v), " ".join(v)) for kk, v in e[6])
            blocks.append([t, None, ("enq %s %d %d %d %s" % (C.b01(e[3]), e[4], e[5], len(e[6]), ents)).strip()])
        elif k == "rdy":
            j = i + 1
            while ev[j][0] != "rdy-end":
                j += 1
            blocks.append([t, None, "rdy %s %d" % (C.b01(e[3]), t)])
            i = j
        elif k == "asend":
            tag = e[3]
            sends, j = sends_after(i)
            if tag[0] == "bcast":
                blocks.append([t, None, "task %d %s %s %d" % (oid(tag[1]), "-" if tag[2] is None else str(tag[2]), C.b01(tag[3]), t)])
            elif tag[0] == "all":
                blocks.append([t, None, ("alls %d" % t) if tag[1] in seen_all else ("all %d" % t)])
                seen_all.add(tag[1])
            elif tag[0] == "ans":
                # probes, browser questions and lookup questions are queries: not blocks of this machine
                resp = [s for s in sends if not c09.decode(s[3])[0].is_query()]
                if resp:
                    recs = [r for s in resp for r in c08.all_recs(s[3])]
                    dst = resp[0][4][0]
                    adst = None if dst in (vsim.MDNS_ADDR, "ff02::fb") else ip_to_host.get(dst, 99)
                    blocks.append([t, adst, ("ans %d %s" % (len(recs), " ".join(C.rec_line(r, created=0) for r in recs))).strip()])
            i = j - 1
        i += 1
    return blocks


# ------------------------------------------------------------------------------------------
# driver lines


def _trace_tokens(lean_line_text):
    """`c07 <endT> <n> <event>...` -> (endT, "<n> <event>...")"""
    parts = lean_line_text.split(" ", 2)
    return int(parts[1]), parts[2]


def lines_for(case, obs, lean_line_text, lean_line_processed, spell_type, svc_name, processed_trace=False):
    """[(command, key, line)] for one run (hosts that registered something, every model browser on a never-closed host).
    Every line carries the FULL link trace (wp-C07K4, d703d5c: `Learned` places a delivery on the pointer block of the datagram
    the listener did parse up to 999 ms earlier; the cache line lists `D` events for parsed datagrams only).  processed_trace: give the
    browser / cache lines the trace without the deliveries the listener did not parse (`obs["ignored"]`) instead -- the first
    version of this report, kept for comparison"""
    proj = obs.get("proj")
    if not proj:
        return []
    endT, trace_toks = _trace_tokens(lean_line_text)
    _, trace_proc = _trace_tokens(lean_line_processed if processed_trace else lean_line_text)
    ign = {x[0] for x in obs.get("ignored", [])}
    closed = {e[2] for e in obs["trace"] if e[1] == "close"}
    ups = {e[2]: e[0] for e in obs["trace"] if e[1] == "up"}
    out = []
    svcs = case["svcs"]
    # ---- c07host
    for h, blocks in proj["hosts"].items():
        h = int(h)
        own = [i for i, s in enumerate(svcs) if s["owner"] == h]
        if not own or isinstance(blocks, dict) or h not in ups:
            continue
        tys = sorted({svcs[i]["ty"] for i in own})
        # (one spelling per type name and host: the table is keyed by the lower-cased name)
        ttab = " ".join("%s %d" % (C.hs(spell_type(ty, 0)), ty) for ty in tys)
        stab = " ".join("%s %d" % (C.hs(svc_name(i, svcs[i]["ty"], 0)), i) for i in own)
        bl = " ".join("%d %s %s" % (t, "-" if ad is None else str(ad), b) for t, ad, b in blocks)
        out.append(("c07host", "H%d" % h, " ".join(("c07host %d %s %d %d %s %d %s %d %d %s" % (
            endT, trace_toks, h, len(tys), ttab, len(own), stab, ups[h], len(blocks), bl)).split())))
    # ---- c07browser / c07cache: one per model browser
    scheds = proj["sched"]
    used = set()
    brs = obs["browsers"]
    browse_pos = {}
    for pos, e in enumerate(obs["trace"]):
        if e[1] == "browse":
            browse_pos[e[2]] = pos
    for b, br in enumerate(brs):
        if br["host"] in closed or b not in browse_pos:
            continue
        tb = br["t"]
        # the scheduler of the browser object this model browser belongs to: same host, types as spelled, created at tb
        tname = spell_type(br["ty"], br.get("tcase", 0))
        cand = [k for k, s in enumerate(scheds) if s["host"] == br["host"] and tname in s["types"] and s["start"] is not None and s["t0"] == tb]
        if not cand:
            continue
        # (several browser objects created on one host at one instant for the same type: take them in order)
        k = next((c for c in cand if (c, br["ty"]) not in used), cand[0])
        used.add((k, br["ty"]))
        s = scheds[k]
        lines = [o[2] for o in s["ops"]]
        si = next(i for i, l in enumerate(lines) if l.startswith("S "))
        pre0 = lines[:si]
        evs_b = [l for l in lines[si + 1:] if not l.startswith("X")]  # (the harness cancels every browser after the last observation)
        if not evs_b:
            continue
        # the history has to go beyond the window: evaluate for a window that ends before the scheduler's last block
        end_b = min(endT, int(evs_b[-1].split()[1]) - 1)
        same = [i for i, sv in enumerate(svcs) if sv["ty"] == br["ty"]]
        al = " ".join("%d %d %d %s" % (svcs[i]["owner"], svcs[i]["ty"], i, C.hs(svc_name(i, svcs[i]["ty"], svcs[i].get("case", 0)))) for i in same)
        out.append(("c07browser", "B%d" % b, " ".join(("c07browser %d %s %d %d %d %d %d %s %s 10000 %d %d %s %d %d %s %d %s" % (
            end_b, trace_proc, tb, br["host"], br["ty"], b, len(s["types"]), " ".join(C.hs(t) for t in s["types"]), C.hs(tname), tb,
            len(pre0), " ".join(pre0), s["start"][1], len(evs_b), " ".join(evs_b), len(same), al)).split())))
        # ---- c07cache: the deliveries with pointer items the host's cache processed, and its purges, before / after the creation
        bp = browse_pos[b]
        cev = []
        for pos, e in enumerate(obs["trace"]):
            if e[1] == "dlv" and e[4] == br["host"] and pos not in ign and any(it[0] == "p" for it in e[6]):
                cev.append((pos, 0, "D %d %d" % (e[0], e[2])))
        for pos, t, hh in proj["purges"]:
            if hh == br["host"]:
                cev.append((pos, -1, "P %d" % t))  # (a purge recorded at position pos ran before the event at that position)
        cev.sort(key=lambda x: (x[0], x[1]))
        pre = [c[2] for c in cev if c[0] <= bp]
        post = [c[2] for c in cev if c[0] > bp]
        out.append(("c07cache", "B%d" % b, " ".join(("c07cache %d %s %d %d %d %d %d %s %d %s" % (
            endT, trace_proc, tb, br["host"], br["ty"], b, len(pre), " ".join(pre), len(post), " ".join(post))).split())))
    return out


def tally(res, cmd, answer):
    """count an evaluator's answer clause by clause"""
    if answer in ("bad-op", "", None) or "=" not in answer:
        res.count("proj:%s:%s" % (cmd, answer or "no-answer"))
        return False
    ok = True
    for tok in answer.split():
        k, _, v = tok.partition("=")
        if k == "rej":
            continue
        if v in ("0", "1"):
            res.count("proj:%s:%s=%s" % (cmd, k, v))
            ok = ok and v == "1"
    res.count("proj:%s:%s" % (cmd, "all-clauses-hold" if ok else "some-clause-fails"))
    return ok
