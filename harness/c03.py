"""C03 -- the responder answers exactly what is registered, minus what the querier knows.

Stage C (correspondence): random register / update / unregister / attribute-write / query histories are applied to a
real `ServiceRegistry` + `QueryHandler.async_response` (queries are real datagrams: `DNSOutgoing.packets()` ->
`DNSIncoming`) and to the Lean model (`c03` driver command); after every op the three registry dicts, `has_entries`,
the merged answer -> additionals map and the memo-slot occupancy of every registered `ServiceInfo` are compared.
`_add_answers_additionals` is compared per routing bucket (`c03p`).

Stage O (oracle): the property's sentence is evaluated on the implementation's observation twice -- by the Lean
predicates the theorems conclude with (`RespSpec.soundAnswer / complete / additionalsOk / noRepeat`, `c03o`/`c03n`)
and by an independent Python oracle (used for shrinking and when the driver is unavailable).
"""
from __future__ import annotations

import json
import types as _types

from . import common as C

TRUSTED = [
    "str.lower() is an uninterpreted function in the theorems; the driver lowers ASCII and maps U+00C9 to U+00E9 (lowerD); generated names use "
    "ASCII, uncased CJK and the letters U+00C9 / U+00E9 / U+00DF (str.lower is compared with lowerD on every generated name); other non-ASCII "
    "cased letters (full case folding, characters whose lower-case form has another length) are not exercised",
    "C03 model scope: ServiceRegistry._add/_remove/async_update, ServiceInfo record builders + memo slots, QueryHandler._get_answer_strategies/"
    "_answer_question/_add_*_answers, DNSRRSet.suppresses, answers._add_answers_additionals; the routing of an answer to the unicast / multicast-now / "
    "aggregate / last-second bucket is not modelled (C11/C12) -- only the union of the buckets is observed; for a query mixing QU and QM questions the "
    "union is compared at record-identity level when the exact comparison fails (two buckets may keep different key objects of one identity)",
    "ServiceInfo construction/validation (service_type_name) and ipaddress parsing are driven, not modelled; interface_index (None or 3) is driven and the "
    "model hard-wires scope_id = None in address records (what _dns_addresses builds today); registered infos always have a server "
    "(set_server_if_missing) as _add asserts -- update and unregister with a server-less ServiceInfo are driven on the simulated host only (D26, repaired); "
    "queries are parsed with and without a scope id (IPv4 / IPv6 socket) and simulated hosts have one IPv4 or one IPv6 socket, never both",
    "wire order of answers (sorted by name) and of additionals (set iteration order) is not compared; sets are compared as sets",
    "the pending-reply layer of the Lean model (Zc.RHost: replies computed but not yet transmitted, C03_transmitted_current_*) is an abstraction of the "
    "two outgoing queues that the correspondence harness does not drive; the implementation's datagrams around an update/unregister are judged by the "
    "oracle directly (simulated-host change family)",
]
ASSUMPTIONS = [
    "CPython dict/set behave as maps for keys with congruent __eq__/__hash__ (C20)",
    "reading decisions (notes/agents/C03.md): the type-enumeration meta-query is a PTR question (RFC 6763 s9), ANY on the enumeration name is not an "
    "enumeration question; a known-answer list that lists one record twice with contradictory TTLs leaves the answer optional; "
    "attribute writes on a registered ServiceInfo take effect at the next async_update (stale memo until then is not a violation); "
    "NSEC (reading 9): owner/next name = the instance name and the bitmap lists the missing address types, as the library builds it; the NSEC of every "
    "service of the asked host that lacks the asked type is allowed, it is owed only when no registered service of that host has the type",
    "on the wire 'replies reflect only the new state' is read as: every record (TTL-0 goodbyes aside) of a response datagram transmitted after the "
    "async_update_service / async_unregister_service call is a record of a service registered after that call",
]

ENUM = "_services._dns-sd._udp.local."
T_PTR, T_A, T_AAAA, T_SRV, T_TXT, T_ANY, T_NSEC = 12, 1, 28, 33, 16, 255, 47

TYPES = ["_a._tcp.local.", "_A._tcp.local.", "_b._tcp.local.", "_s._sub._a._tcp.local.", "_c._udp.local."]
LABELS = ["x", "y", "z", "X", "Y", "日本", "Straße", "Éa", "éa"]
HOSTS = ["h1.local.", "H1.LOCAL.", "h2.local.", None, None, "Éh.local."]
V4 = [bytes([10, 0, 0, 1]), bytes([10, 0, 0, 2]), bytes([10, 0, 1, 1])]
V6 = [bytes([0xFE, 0x80] + [0] * 13 + [1]), bytes([0xFE, 0x80] + [0] * 13 + [2]), bytes([0x20, 0x01, 0x0D, 0xB8] + [0] * 11 + [1])]
ADDR_SHAPES = ["v4", "v6", "dual", "v4v4", "dup4", "none", "v4v6v6", "dual", "dual", "v4v6v6"]
HOST_TTLS = [120, 120, 10, 121, 1, 0, 4500]
OTHER_TTLS = [4500, 4500, 60, 61, 2, 1, 0]
TEXTS = [b"", b"\x03a=1", b"\x03A=1", b"\x06path=/"]
QTYPES = [T_PTR, T_PTR, T_A, T_AAAA, T_SRV, T_TXT, T_ANY, T_ANY, T_NSEC, 99]
SCOPES = [None, None, None, 3, 3, 0]   # scope id the query is parsed with: None = IPv4 socket, 3 = link-local peer, 0 = global peer on an IPv6 socket

SIG_D25 = "C03:known-aaaa-ignored-on-ipv6-socket"


def model_lower(s):
    """the driver's `lowerD` (lean/Driver/C03.lean)"""
    return "".join("\u00e9" if c == "\u00c9" else (c.lower() if c.isascii() else c) for c in s)


def check_alphabet(names):
    """generated names must stay inside the alphabet on which str.lower and the driver's lowering coincide (a harness precondition)"""
    for n in names:
        if n is not None and n.lower() != model_lower(n):
            raise RuntimeError("generated name %r is outside the driver's lowering alphabet" % n)


# ------------------------------------------------------------------------------------------
# plain-data services and records


def base_type(t):
    return t.split("._sub.")[-1]


def gen_svc(rng, name=None, type_=None):
    t = type_ or rng.choice(TYPES)
    if name is None:
        name = rng.choice(LABELS) + "." + base_type(t)
    shape = rng.choice(ADDR_SHAPES)
    a4 = rng.choice(V4)
    a6 = rng.choice(V6)
    addrs = {"v4": [a4], "v6": [a6], "dual": [a4, a6], "v4v4": [a4, V4[(V4.index(a4) + 1) % 3]], "dup4": [a4, a4], "none": [],
             "v4v6v6": [a4, a6, V6[(V6.index(a6) + 1) % 3]]}[shape]
    if rng.random() < 0.3:
        rng.shuffle(addrs)
    return {"type": t, "name": name, "server": rng.choice(HOSTS), "port": rng.choice([80, 81, 1, 65535]), "weight": rng.choice([0, 0, 1, 7]),
            "priority": rng.choice([0, 0, 1, 7]), "text": rng.choice(TEXTS).hex(), "httl": rng.choice(HOST_TTLS), "ottl": rng.choice(OTHER_TTLS),
            "addrs": [a.hex() for a in addrs], "ifindex": rng.choice([None, None, None, 3]), "parsed": rng.random() < 0.2}


ARGS = {}   # id(info) -> (info, fields as the *arguments given* say): constructor arguments, then every attribute write


def make_info(spec, set_server=True):
    from zeroconf import ServiceInfo

    packed = [bytes.fromhex(a) for a in spec["addrs"]]
    if spec.get("parsed"):
        # the other documented way to hand over addresses: text form (`parsed_addresses=`)
        import socket

        how = {"parsed_addresses": [socket.inet_ntop(socket.AF_INET if len(a) == 4 else socket.AF_INET6, a) for a in packed]}
    else:
        how = {"addresses": packed}
    info = ServiceInfo(spec["type"], spec["name"], spec["port"], spec["weight"], spec["priority"], bytes.fromhex(spec["text"]), spec["server"],
                       host_ttl=spec["httl"], other_ttl=spec["ottl"], interface_index=spec.get("ifindex"), **how)
    check_alphabet([spec["type"], spec["name"], spec["server"]])
    if set_server:
        info.set_server_if_missing()  # what async_register_service does before registry.async_add
    ARGS[id(info)] = (info, spec_fields(spec))
    return info


def fields(info):
    """What the model and the oracles are told about a ServiceInfo: the values the API was *given* (constructor arguments, then
    every attribute write), never what the object's own accessors report -- a setter that forgets to replace something must show."""
    return dict(ARGS[id(info)][1])


def fields_actual(info):
    return {"type": info.type, "name": info._name, "server": info.server, "port": info.port, "weight": info.weight, "priority": info.priority,
            "text": info.text, "httl": info.host_ttl, "ottl": info.other_ttl,
            "v4": [a.packed for a in info._ipv4_addresses], "v6": [a.packed for a in info._ipv6_addresses]}


def svc_line(f):
    return "%s %s %s %d %d %d %s %d %d %d %s %d %s" % (
        C.hs(f["type"]), C.hs(f["name"]), C.hs(f["server"]), f["port"], f["weight"], f["priority"], C.hx(f["text"]), f["httl"], f["ottl"],
        len(f["v4"]), " ".join(C.hx(a) for a in f["v4"]), len(f["v6"]), " ".join(C.hx(a) for a in f["v6"]))


def rec_from_line(line):
    """inverse of common.rec_line (known answers are stored as lines in replays)"""
    from zeroconf import _dns as d

    t = line.split()
    k = t[0]
    name = bytes.fromhex(t[1]).decode() if t[1] != "-" else ""
    ty, cl, uq, ttl = int(t[2]), int(t[3]), t[4] == "1", int(t[5])
    cl = cl | (0x8000 if uq else 0)
    r = t[7:]
    unh = lambda s: b"" if s == "-" else bytes.fromhex(s)
    if k == "a":
        return d.DNSAddress(name, ty, cl, ttl, unh(r[0]), scope_id=None if r[1] == "-" else int(r[1]))
    if k == "p":
        return d.DNSPointer(name, ty, cl, ttl, unh(r[0]).decode())
    if k == "t":
        return d.DNSText(name, ty, cl, ttl, unh(r[0]))
    if k == "s":
        return d.DNSService(name, ty, cl, ttl, int(r[0]), int(r[1]), int(r[2]), unh(r[3]).decode())
    if k == "n":
        return d.DNSNsec(name, ty, cl, ttl, unh(r[0]).decode(), [] if r[1] == "-" else [int(x) for x in r[1].split(",")])
    if k == "h":
        return d.DNSHinfo(name, ty, cl, ttl, unh(r[0]).decode(), unh(r[1]).decode())
    raise ValueError(line)


def rline(r):
    return C.rec_line(r, created=0)


def wire_line(r):
    """the record as it is on the wire: an address record without the scope id the receiving socket stamped on it"""
    t = rline(r).split()
    if t[0] == "a":
        t[-1] = "-"
    return " ".join(t)


# ------------------------------------------------------------------------------------------
# independent Python oracle (tuples: kind, name, type, class, unique, ttl, rdata...)


def rtuple(r):
    from zeroconf import _dns as d

    head = (r.name, r.type, r.class_, bool(r.unique), int(r.ttl))
    if isinstance(r, d.DNSAddress):
        return ("a",) + head + (r.address, r.scope_id)
    if isinstance(r, d.DNSPointer):
        return ("p",) + head + (r.alias,)
    if isinstance(r, d.DNSText):
        return ("t",) + head + (r.text,)
    if isinstance(r, d.DNSService):
        return ("s",) + head + (r.priority, r.weight, r.port, r.server)
    if isinstance(r, d.DNSNsec):
        return ("n",) + head + (r.next_name, tuple(r.rdtypes))
    if isinstance(r, d.DNSHinfo):
        return ("h",) + head + (r.cpu, r.os)
    raise TypeError(type(r))


def rec_from_tuple(t, created=0.0):
    """a DNSRecord object for an oracle tuple (used to put a copy of an own record into the cache: never built through the
    ServiceInfo under test, whose memo slots are part of the comparison)"""
    from zeroconf import _dns as d

    k, name, ty, cl, uq, ttl = t[:6]
    cl = cl | (0x8000 if uq else 0)
    r = t[6:]
    if k == "a":
        return d.DNSAddress(name, ty, cl, ttl, r[0], scope_id=r[1], created=created)
    if k == "p":
        return d.DNSPointer(name, ty, cl, ttl, r[0], created)
    if k == "t":
        return d.DNSText(name, ty, cl, ttl, r[0], created)
    if k == "s":
        return d.DNSService(name, ty, cl, ttl, r[0], r[1], r[2], r[3], created)
    if k == "n":
        return d.DNSNsec(name, ty, cl, ttl, r[0], list(r[1]), created)
    raise ValueError(t)


def ident(t):
    k = t[0]
    rd = t[6:]
    if k == "p":
        rd = (rd[0].lower(),)
    elif k == "s":
        rd = rd[:3] + (rd[3].lower(),)
    return (k, t[1].lower(), t[2], t[3]) + rd


def own_records(f, ettl):
    ptr = ("p", f["type"], T_PTR, 1, False, f["ottl"], f["name"])
    srv = ("s", f["name"], T_SRV, 1, True, f["httl"], f["priority"], f["weight"], f["port"], f["server"])
    txt = ("t", f["name"], T_TXT, 1, True, f["ottl"], f["text"])
    addrs = [("a", f["server"], T_A, 1, True, f["httl"], a, None) for a in f["v4"]] + [("a", f["server"], T_AAAA, 1, True, f["httl"], a, None) for a in f["v6"]]
    missing = tuple(([T_A] if not f["v4"] else []) + ([T_AAAA] if not f["v6"] else []))
    nsec = [("n", f["name"], T_NSEC, 1, True, f["httl"], f["name"], missing)] if missing else []
    enum = ("p", ENUM, T_PTR, 1, False, ettl, f["type"].lower())
    return ptr, srv, txt, addrs, nsec, missing, enum


def candidates(f, qname, qtype, ettl, sound=False):
    """the records of service `f` that answer the question; `sound=True`: the records that *may* be offered -- the property exempts
    `ANY <host>` from the completeness claim only, so the host's address records are allowed (not owed) for it"""
    ptr, srv, txt, addrs, nsec, missing, enum = own_records(f, ettl)
    n = qname.lower()
    if qtype == T_PTR and n == ENUM:
        return [enum]
    out = []
    if sound and qtype == T_ANY and n == f["server"].lower():
        out += addrs
    if qtype in (T_PTR, T_ANY) and n == f["type"].lower():
        out.append(ptr)
    if qtype in (T_A, T_AAAA) and n == f["server"].lower():
        out += [a for a in addrs if a[2] == qtype]
        if qtype in missing:
            out += nsec
    if qtype in (T_SRV, T_ANY) and n == f["name"].lower():
        out.append(srv)
    if qtype in (T_TXT, T_ANY) and n == f["name"].lower():
        out.append(txt)
    return out


def unscoped(t):
    """a record tuple as it is on the wire: the scope id of an address record is the receiver's annotation"""
    return t[:-1] + (None,) if t[0] == "a" else t


def oracle(svcs, qs, known, observed, ettl, qs_sound=None):
    """-> list of (sig, what, detail).  `observed`: list of (answer tuple, [additional tuples]); `known`: the querier's list as it
    is on the wire (callers strip the scope id a receiving IPv6 socket stamps on AAAA records)."""
    bad = []
    kid = [(ident(k), k[5]) for k in known]
    nsec_known = any(k[0] == "n" for k in known)

    def sup_any(r):
        return any(i == ident(r) and r[5] < 2 * t for i, t in kid)

    def sup_all(r):
        m = [t for i, t in kid if i == ident(r)]
        return bool(m) and all(r[5] < 2 * t for t in m)

    cands = []
    owed = []
    for qn, qt in (qs if qs_sound is None else qs_sound):
        for f in svcs:
            cands += candidates(f, qn, qt, ettl, sound=True)
    for qn, qt in qs:
        for f in svcs:
            c = candidates(f, qn, qt, ettl)
            host_has = any(g["server"].lower() == f["server"].lower() and (g["v4"] if qt == T_A else g["v6"] if qt == T_AAAA else []) for g in svcs)
            owed += [r for r in c if not (r[0] == "n" and host_has)]
    cset = set(cands)
    offered = {ident(a) for a, _ in observed}
    for a, adds in observed:
        if a not in cset:
            if a[0] == "p" and a[1].lower() == ENUM and not any(f["type"].lower() == a[6].lower() for f in svcs):
                bad.append(("C03:enum-type-without-service", "the type enumeration answers %r although no registered service has that type" % a[6], a))
            else:
                bad.append(("C03:unsound-answer:%s" % a[0], "an offered record is not a record of a registered service answering a question (stale, foreign or wrong TTL)", a))
        elif a[0] != "n" and sup_all(a):
            bad.append(("C03:answer-despite-known:%s" % a[0], "a record the querier lists with more than half its TTL is offered anyway", a))
        if adds:
            ok = False
            for f in svcs:
                ptr, srv, txt, addrs, nsec, missing, enum = own_records(f, ettl)
                if ident(a) in {ident(x) for x in [enum, ptr, srv, txt] + addrs + nsec} and all(x in set([srv, txt] + addrs + nsec) for x in adds):
                    ok = True
                    break
            if not ok:
                bad.append(("C03:foreign-additional:%s" % a[0], "additionals are not the SRV/TXT/address/NSEC records of one service owning the answer", (a, adds)))
    for r in owed:
        if r[0] == "n":
            if nsec_known:
                continue  # NSEC known answers are outside the completeness claim
        elif sup_any(r):
            continue
        if ident(r) not in offered:
            bad.append(("C03:missing-answer:%s" % r[0], "a record of a registered service that answers a question and is not known to the querier is not offered", r))
    return bad


# ------------------------------------------------------------------------------------------
# running a history on the real code


class World:
    def __init__(self):
        ARGS.clear()
        from zeroconf import DNSCache
        from zeroconf._handlers.query_handler import QueryHandler
        from zeroconf._history import QuestionHistory
        from zeroconf._services.registry import ServiceRegistry
        from zeroconf import const

        self.reg = ServiceRegistry()
        zc = _types.SimpleNamespace(registry=self.reg, cache=DNSCache(), question_history=QuestionHistory(), out_queue=None, out_delay_queue=None)
        self.qh = QueryHandler(zc)
        self.objs = {}    # object id -> ServiceInfo (everything the history ever created)
        self.book = {}    # key -> ServiceInfo: what the API calls say is registered (independent of the registry's internals)
        self.dirty = set()  # keys whose registered object was written to since its last register/update
        self.ettl = const._DNS_OTHER_TTL
        self.clock = 1000000.0  # ms; every query is parsed at its own instant (`DNSIncoming(now=...)`), 10 s after the previous one

    def poke(self, pokes, now):
        """copies of own records in the cache, `age` ms old at the query: what the host's own multicasts leave behind.  They steer the
        cache-dependent routing tests (multicast in the last second -> protected queue, within a quarter of the TTL -> unicast only);
        the union of the four routing buckets -- what is observed -- must not depend on them."""
        infos = list(self.book.values())
        for idx, kind, age in pokes:
            if not infos:
                return
            f = fields(infos[idx % len(infos)])
            ptr, srv, txt, addrs, nsec, missing, enum = own_records(f, self.ettl)
            pool = {"p": [ptr], "s": [srv], "t": [txt], "a": addrs, "n": nsec, "e": [enum]}[kind]
            for t in pool:
                self.qh.cache.async_add_records([rec_from_tuple(t, created=now - age)])

    def dump(self):
        r = self.reg
        sl = lambda l: ",".join(C.hs(x) for x in l) if l else "-"
        idx = lambda d: ";".join("%s:%s" % (C.hs(k), sl(v)) for k, v in d.items()) if d else "-"
        return "S=%s T=%s H=%s E=%d" % (sl(list(r._services)), idx(r.types), idx(r.servers), 1 if r.has_entries else 0)

    def memo(self):
        r = self.reg
        if not r._services:
            return "-"
        b = lambda x: "1" if x is not None else "0"
        return ";".join("%s:%s%s%s%s%s" % (C.hs(k), b(i._dns_pointer_cache), b(i._dns_service_cache), b(i._dns_text_cache), b(i._dns_address_cache),
                                          b(i._get_address_and_nsec_records_cache)) for k, i in r._services.items())


def build_msgs(op, want_packets=False, now=None):
    """the datagrams of a query op, parsed by the real decoder -- as `AsyncListener` does it: with the scope id of the sockaddr when
    the datagram arrives on an IPv6 socket (`op["scope"]`: None = IPv4 socket), and with the arrival time"""
    from zeroconf import DNSIncoming, DNSOutgoing, DNSQuestion, const

    msgs = []
    packets = []
    scope = op.get("scope")
    source = ("10.9.9.9", 5353) if scope is None else (("fe80::9" if scope else "2001:db8::9"), 5353)
    for m in op["msgs"]:
        out = DNSOutgoing(const._FLAGS_QR_QUERY | (const._FLAGS_TC if m.get("tc") else 0))
        check_alphabet([name for name, _, _ in m["qs"]])
        for name, ty, cl in m["qs"]:
            out.add_question(DNSQuestion(name, ty, cl))
        for line in m["answers"]:
            rec = rec_from_line(line)
            if m["probe"]:
                out.add_authorative_answer(rec)
            else:
                out.add_answer_at_time(rec, 0)
        pk = out.packets()
        if len(pk) != 1:
            raise RuntimeError("generated query does not fit one packet")
        inc = DNSIncoming(pk[0], source, scope, now)
        if not inc.valid:
            raise RuntimeError("generated query does not parse")
        msgs.append(inc)
        packets.append(pk[0])
    return (msgs, packets) if want_packets else msgs


def exec_history(ops, want_lines=True):
    """Run `ops` on the real code.  Returns a list of per-op dicts:
    {line (model op tokens or None), impl (observation string), q (query detail or None)}"""
    from zeroconf._exceptions import ServiceNameAlreadyRegistered  # noqa: F401
    from zeroconf._handlers.answers import construct_outgoing_multicast_answers

    w = World()
    out = []
    for op in ops:
        k = op["op"]
        line = None
        q = None
        if k == "Q":
            w.clock += 10000.0
        msgs = build_msgs(op, now=w.clock) if k == "Q" else None  # a failure here is a harness bug, not a library exception
        try:
            if k == "R":
                info = make_info(op["svc"])
                w.objs[op["obj"]] = info
                line = "R " + svc_line(fields(info))
                try:
                    w.reg.async_add(info)
                    w.book[info.key] = info
                    w.dirty.discard(info.key)
                    res = "ok"
                except Exception as ex:  # noqa: BLE001
                    res = type(ex).__name__
                impl = "%s # %s" % (res, w.dump())
            elif k in ("U", "Unew"):
                if k == "Unew":
                    info = make_info(op["svc"])
                    w.objs[op["obj"]] = info
                else:
                    info = w.objs.get(op["obj"])
                    if info is None:
                        continue
                line = "U " + svc_line(fields(info))
                try:
                    w.reg.async_update(info)
                    w.book[info.key] = info
                    w.dirty.discard(info.key)
                    res = "ok"
                except Exception as ex:  # noqa: BLE001
                    res = type(ex).__name__
                impl = "%s # %s" % (res, w.dump())
            elif k == "X":
                infos = [w.objs[i] for i in op["objs"] if i in w.objs]
                if not infos:
                    continue
                line = "X %d %s" % (len(infos), " ".join(C.hs(i.key) for i in infos))
                try:
                    w.reg.async_remove(infos if (len(infos) > 1 or op.get("aslist")) else infos[0])
                    for i in infos:
                        w.book.pop(i.key, None)
                        w.dirty.discard(i.key)
                    res = "ok"
                except Exception as ex:  # noqa: BLE001
                    res = type(ex).__name__
                impl = "%s # %s" % (res, w.dump())
            elif k == "M":
                info = w.objs.get(op["obj"])
                if info is None:
                    continue
                kind, val = op["mut"]
                apply_mut(info, op["mut"])
                if w.book.get(info.key) is not info:
                    continue  # a write to an object that is not registered: visible only through its fields at the next R/U
                w.dirty.add(info.key)
                f = fields(info)
                if kind == "addrs":
                    mt = "addrs %d %s %d %s" % (len(f["v4"]), " ".join(C.hx(a) for a in f["v4"]), len(f["v6"]), " ".join(C.hx(a) for a in f["v6"]))
                elif kind == "text":
                    mt = "text %s" % C.hx(bytes.fromhex(val))
                else:
                    mt = "%s %d" % (kind, val)
                line = "M %s %s" % (C.hs(info.key), mt)
                impl = "ok # %s" % w.dump()
            elif k == "Q":
                line = msg_line(msgs)
                svcs = [fields(i) for i in w.book.values()]
                w.poke(op.get("pokes", []), w.clock)
                qa = w.qh.async_response(msgs, bool(op.get("ucast")))
                merged = {}
                keyobj = {}
                buckets = []
                conflict = False
                if qa is not None:
                    for bname in ("ucast", "mcast_now", "mcast_aggregate", "mcast_aggregate_last_second"):
                        d = getattr(qa, bname)
                        if not d:
                            continue
                        for r, adds in d.items():
                            kl = rline(r)
                            v = frozenset(rline(x) for x in adds)
                            if kl in merged and merged[kl] != v:
                                conflict = True
                            merged[kl] = v
                            keyobj[kl] = (r, list(adds))
                        o = construct_outgoing_multicast_answers(d)
                        buckets.append((bname, [(r, list(adds)) for r, adds in d.items()], [a for a, _ in o.answers], list(o.additionals)))
                impl = "%s # %s" % ("none" if qa is None else canon_dict(merged), w.memo())
                known = [a for m in msgs if not m.is_probe() for a in m.answers()]
                q = {"svcs": svcs, "qs": [x for m in msgs for x in m.questions], "known": known, "scope": op.get("scope"),
                     "observed": list(keyobj.values()), "none": qa is None,
                     "buckets": buckets, "conflict": conflict, "dirty": bool(w.dirty), "ettl": w.ettl, "merged": merged,
                     "mixed": len({bool(x.unique) for m in msgs for x in m.questions}) > 1,
                     "in_scope": all(x.class_ == 1 for m in msgs for x in m.questions)}
            else:
                raise ValueError(k)
        except Exception as ex:  # noqa: BLE001  (an exception escaping the harness's own plumbing or the library)
            impl = "EXC %s: %s" % (type(ex).__name__, ex)
            q = None
        out.append({"op": op, "line": line, "impl": impl, "q": q})
    return out


def canon_dict(merged):
    if not merged:
        return "empty"
    return " ; ".join(" , ".join([k] + sorted(v)) for k, v in sorted(merged.items()))


def canon_model_answers(s):
    """model answer string -> same canonical form as canon_dict"""
    if s in ("none", "empty") or s.startswith("EXC") or " " not in s:
        return s
    merged = {}
    for e in s.split(" ; "):
        parts = e.split(" , ")
        merged[parts[0]] = frozenset(parts[1:])
    return canon_dict(merged)


def classify_scope(bad, svcs, qs, seen, observed, ettl, scope, qs_sound=None):
    """D25's input class: the query was parsed with a scope id, and the only reason an address record is `offered although known` is
    that scope id -- judged with the list as the parser stamped it (`seen`) the same record is not known.  Everything else keeps its
    signature (a fresh violation)."""
    if scope is None or not any(sig == "C03:answer-despite-known:a" for sig, _, _ in bad):
        return bad
    stamped = {d for sig, _, d in oracle(svcs, qs, seen, observed, ettl, qs_sound=qs_sound) if sig == "C03:answer-despite-known:a"}
    out = []
    for sig, what, d in bad:
        if sig == "C03:answer-despite-known:a" and d[2] == T_AAAA and d not in stamped:
            out.append((SIG_D25, "a known AAAA answer (more than half the TTL) received on an IPv6 socket does not suppress: the parser stamps the "
                        "socket's scope id on it, the responder's own record has none, identity compares it (D25)", d))
        else:
            out.append((sig, what, d))
    return out


def oracle_on(q):
    svcs, qs = q["svcs"], [(x.name, x.type) for x in q["qs"]]
    seen = [rtuple(k) for k in q["known"]]
    known = [unscoped(k) for k in seen]
    observed = [(rtuple(a), [rtuple(x) for x in adds]) for a, adds in q["observed"]]
    bad = classify_scope(oracle(svcs, qs, known, observed, q["ettl"]), svcs, qs, seen, observed, q["ettl"], q.get("scope"))
    if q["conflict"]:
        bad.append(("C03:bucket-conflict", "the same answer carries different additionals in two routing buckets", None))
    for bname, d, answers, adds in q["buckets"]:
        aid = {ident(rtuple(a)) for a in answers}
        allowed = {rtuple(x) for _, v in d for x in v}
        seen = set()
        for x in adds:
            t = rtuple(x)
            if ident(t) in aid:
                bad.append(("C03:additional-repeats-answer", "an additional record repeats an answer of the same packet (%s)" % bname, t))
            if ident(t) in seen:
                bad.append(("C03:additional-twice", "an additional record appears twice in one packet (%s)" % bname, t))
            if t not in allowed:
                bad.append(("C03:additional-from-nowhere", "a packet carries an additional that no answer asked for (%s)" % bname, t))
            seen.add(ident(t))
        if {ident(rtuple(a)) for a, _ in d} != aid:
            bad.append(("C03:packet-answers-differ", "the packet's answer section is not the bucket's key set (%s)" % bname, None))
    return bad


def violations_of(ops):
    """Python-oracle violations of a history (used for shrinking and replay)"""
    out = []
    for step, o in enumerate(exec_history(ops)):
        if o["impl"].startswith("EXC"):
            out.append(("C03:exception", o["impl"], step))
        q = o["q"]
        if q is None or q["dirty"] or not q["in_scope"]:
            continue
        for sig, what, detail in oracle_on(q):
            out.append((sig, what, step))
    return out


def shrink(ops, sig, limit=200):
    """greedy delta-debugging over the op list, keeping the violation signature"""
    cur = list(ops)
    tries = 0
    changed = True
    while changed and tries < limit:
        changed = False
        for i in range(len(cur) - 1, -1, -1):
            cand = cur[:i] + cur[i + 1:]
            tries += 1
            try:
                if any(s == sig for s, _, _ in violations_of(cand)):
                    cur = cand
                    changed = True
            except Exception:  # noqa: BLE001
                pass
            if tries >= limit:
                break
    # shrink inside the last query: fewer questions / known answers
    if cur and cur[-1]["op"] == "Q":
        qop = json.loads(json.dumps(cur[-1]))
        for m in qop["msgs"]:
            for fld in ("answers", "qs"):
                i = len(m[fld]) - 1
                while i >= 0 and tries < limit + 100:
                    keep = m[fld][i]
                    del m[fld][i]
                    tries += 1
                    ok = False
                    try:
                        ok = bool(m["qs"]) and any(s == sig for s, _, _ in violations_of(cur[:-1] + [qop]))
                    except Exception:  # noqa: BLE001
                        ok = False
                    if not ok:
                        m[fld].insert(i, keep)
                    i -= 1
        cur = cur[:-1] + [qop]
    return cur


# ------------------------------------------------------------------------------------------
# second observation point: the datagrams a whole simulated host sends after an injected query


def msg_line(msgs):
    parts = []
    for m in msgs:
        ans = m.answers()
        parts.append("%d %d %d %s %d %s" % (1 if m.is_probe() else 0, 0 if m.scope_id is None else 1, len(m.questions),
                                          " ".join(C.question_line(x) for x in m.questions), len(ans), " ".join(rline(a) for a in ans)))
    return "Q %d %s" % (len(msgs), " ".join(parts))


MDNS6 = "ff02::fb"


def make_wire_host(sim, v6):
    """a simulated host with one IPv4 socket, or with one IPv6 socket (sockaddr 4-tuples: the listener hands the scope id of every
    datagram to the parser).  The simulator's link loops IPv4 multicasts back to the sender; for the IPv6 group that is done here."""
    import socket
    from unittest import mock

    from . import vsim

    if not v6:
        return sim.make_host("A", "10.0.0.1")
    from zeroconf import Zeroconf
    import zeroconf._core as core

    class Sock6(vsim.FakeSock):
        def __init__(self, fileno, addr):
            super().__init__(fileno, addr)
            self.family = socket.AF_INET6

    host = vsim.Host(sim, "A", "fe80::1")
    sock = Sock6(10, ("fe80::1", 5353, 0, 3))
    vsim._sock_host[id(sock)] = host
    host.sock = sock
    with mock.patch.object(core, "create_sockets", lambda *a, **k: (None, [sock])):
        zc = Zeroconf(interfaces=["10.0.0.1"])
    host.zc = zc

    def loop_back(t, src, data, addr):
        if addr[0] == MDNS6 and src is host:
            d = sim.net_rng.randint(0, sim.net.maxdelay)
            sim.loop.call_later(d / 1000.0, host.deliver, data, ("fe80::1", 5353, 0, 3))

    sim.net.on_send = loop_back
    return host


def pending_snapshot(zc):
    """the reply groups waiting in the two multicast queues (flush bit normalised as on the wire): used only to *classify* a stale
    record seen after an update/unregister as `queued before the change` (the recorded findings D20*) or not (a fresh violation).
    None when the queues cannot be read (then nothing is classified as a recorded finding)."""
    try:
        groups = []
        for name in ("out_queue", "out_delay_queue"):
            for g in getattr(zc, name).queue:
                groups.append({fixu(rtuple(a)): {fixu(rtuple(x)) for x in adds} for a, adds in g.answers.items()})
        return groups
    except Exception:  # noqa: BLE001
        return None


def exec_wire(ops, seed, v6=False):
    """Run a history through the public API of a real Zeroconf instance under the virtual-time simulator; queries are injected
    datagrams and the observation is what the host then puts on the wire (unicast and multicast, any delay up to 2.6 s).
    `v6`: the host's only socket is an IPv6 socket (queries arrive with a 4-tuple sockaddr and are parsed with its scope id)."""
    from zeroconf import DNSIncoming, const

    from . import vsim

    sim = vsim.Sim(seed)
    steps = []
    ARGS.clear()

    def scope_of(op):
        if not v6:
            return None
        return 3 if op.get("scope") is None else op["scope"]

    def src_of(op, port):
        sc = scope_of(op)
        if sc is None:
            return ("10.9.9.9", port)
        return (("fe80::9" if sc else "2001:db8::9"), port, 0, sc)

    def parse(op):
        return build_msgs(dict(op, scope=scope_of(op)), want_packets=True)

    def grab(start, mark=None):
        pkts = []
        for j, (t, src, dst, port, data) in enumerate(sim.net.log[start:]):
            inc = DNSIncoming(data)
            if inc.is_query():
                continue
            recs = inc.answers()
            na = inc.num_answers
            pkts.append({"t": t, "dst": dst, "answers": recs[:na], "adds": recs[na + inc.num_authorities:],
                         "after": mark is not None and start + j >= mark})
        return pkts

    async def main(sim):
        host = make_wire_host(sim, v6)
        zc = host.zc
        await zc.async_wait_for_start()
        objs, book, lost, serverless = {}, {}, set(), set()
        for op in ops:
            k = op["op"]
            q = None
            if k == "R" or k == "Unew" or k == "U":
                if k == "U":
                    info = objs.get(op["obj"])
                    if info is None:
                        continue
                else:
                    info = make_info(dict(op["svc"], server=None) if op.get("noserver") else op["svc"], set_server=not op.get("noserver"))
                    objs[op["obj"]] = info
                    if op.get("noserver"):
                        serverless.add(op["obj"])
                noserver = op["obj"] in serverless and info.server is None
                if k == "R" and op.get("ttl") is not None:
                    # `async_register_service(info, ttl=...)`: the documented (legacy) way to configure both TTLs
                    ARGS[id(info)][1]["httl"] = ARGS[id(info)][1]["ottl"] = op["ttl"]
                line = ("R " if k == "R" else "U ") + svc_line(fields(info))
                try:
                    if k == "R":
                        fut = await (zc.async_register_service(info, ttl=op["ttl"]) if op.get("ttl") is not None else zc.async_register_service(info))
                    else:
                        fut = await zc.async_update_service(info)
                    await fut
                    book[info.key] = info
                    lost.discard(info.key)
                    impl = "ok"
                except Exception as ex:  # noqa: BLE001
                    impl = type(ex).__name__
                    if noserver and isinstance(ex, AssertionError):
                        # `async_update_service` with a ServiceInfo that has no `server=` (finding D26): the model has no such call
                        lost.add(info.key)
                        line = None
                await sim.sleep_ms(1500)
            elif k == "X":
                infos = [objs[i] for i in op["objs"] if i in objs]
                if not infos:
                    continue
                line = "X %d %s" % (len(infos), " ".join(C.hs(i.key) for i in infos))
                impl = "ok"
                for i in infos:
                    try:
                        fut = await zc.async_unregister_service(i)
                        await fut
                        book.pop(i.key, None)
                        lost.discard(i.key)
                    except Exception as ex:  # noqa: BLE001
                        impl = type(ex).__name__
                await sim.sleep_ms(1500)
            elif k == "M":
                info = objs.get(op["obj"])
                if info is None or book.get(info.key) is not info:
                    continue
                apply_mut(info, op["mut"])
                continue  # always followed by U in the wire stream; the model is told through U's fields
            elif k == "Q":
                msgs, packets = parse(op)
                line = msg_line(msgs)
                svcs = [fields(i) for i in book.values()]
                start = len(sim.net.log)
                src = src_of(op, op.get("port", 5353))
                for n, pk in enumerate(packets):
                    # a train: every packet but the last carries the TC bit, the listener holds them (400-500 ms) until the last arrives
                    if n:
                        await sim.sleep_ms(op.get("train_gap", 50))
                    host.deliver(bytes(pk), src)
                await sim.sleep_ms(2600)
                impl = "wire"
                q = {"svcs": svcs, "qs": [x for m in msgs for x in m.questions], "known": [a for m in msgs if not m.is_probe() for a in m.answers()], "pkts": grab(start),
                     "scope": scope_of(op), "ettl": const._DNS_OTHER_TTL, "in_scope": all(x.class_ == 1 for m in msgs for x in m.questions), "lost": set(lost),
                     "legacy": src[0] if op.get("port", 5353) != 5353 else None}
            elif k == "QB":
                # a burst: 2-3 different query datagrams (same questions, different bytes) less than a second apart -- the later ones
                # find the record multicast in the last second (flood protection: the reply is delayed, not dropped)
                svcs = [fields(i) for i in book.values()]
                marks, parsed = [], []
                for j, qop in enumerate(op["queries"]):
                    msgs, packets = parse(qop)
                    marks.append(len(sim.net.log))
                    parsed.append((qop, msgs))
                    host.deliver(bytes(packets[0]), src_of(qop, 5353))
                    await sim.sleep_ms(op["gaps"][j] if j < len(op["gaps"]) else 0)
                await sim.sleep_ms(2600)
                allq = [x for _, msgs in parsed for x in msgs[0].questions]
                for j, (qop, msgs) in enumerate(parsed):
                    steps.append({"op": qop, "line": msg_line(msgs), "impl": "wire",
                                  "q": {"burst": (j, len(parsed)), "svcs": svcs, "qs": list(msgs[0].questions), "allqs": allq, "known": [], "pkts": grab(marks[j]),
                                        "scope": scope_of(qop), "ettl": const._DNS_OTHER_TTL, "in_scope": True, "lost": set(lost)}})
                continue
            elif k == "QC":
                start = len(sim.net.log)
                svcs_before = [fields(i) for i in book.values()]
                qsteps = []
                qmarks = []
                for qop, gap in ([(op["pre"], op.get("pre_gap", 300))] if op.get("pre") else []) + [(op["query"], op["delay"])]:
                    msgs, packets = parse(qop)
                    qmarks.append(len(sim.net.log))
                    qsteps.append({"op": qop, "line": msg_line(msgs), "impl": "wire", "msgs": msgs})
                    host.deliver(bytes(packets[0]), src_of(qop, 5353))
                    await sim.sleep_ms(gap)
                mark = len(sim.net.log)
                pending = pending_snapshot(zc)
                # ---- the change block: no await between the attribute writes and the registry call
                futs, csteps, changed, kinds, foreign, raised = [], [], {}, [], {}, {}
                for c in op["change"]:
                    ck = c["op"]
                    if ck == "M":
                        info = objs.get(c["obj"])
                        if info is not None and book.get(info.key) is info:
                            changed.setdefault(info.key, fields(info))
                            apply_mut(info, c["mut"])
                        continue
                    if ck in ("U", "Unew"):
                        info = objs.get(c["obj"]) if ck == "U" else make_info(c["svc"])
                        if info is None:
                            continue
                        if ck == "Unew":
                            objs[c["obj"]] = info
                        if info.key in book:
                            changed.setdefault(info.key, fields(book[info.key]))
                        cline = "U " + svc_line(fields(info))
                        futs.append((info.key, await zc.async_update_service(info)))
                        book[info.key] = info
                        kinds.append("update")
                    elif ck == "X":
                        infos = [objs[i] for i in c["objs"] if i in objs]
                        if not infos:
                            continue
                        cline = "X %d %s" % (len(infos), " ".join(C.hs(i.key) for i in infos))
                        for i in infos:
                            if i.key in book:
                                changed.setdefault(i.key, fields(book[i.key]))
                            handle = i
                            if book.get(i.key) is i and (c.get("copy") or c.get("other") or c.get("bare")):
                                # another object for the same name -- what an application that did not keep the registered ServiceInfo builds
                                f = fields(i)
                                spec = {"type": f["type"], "name": f["name"], "server": f["server"], "port": f["port"], "weight": f["weight"],
                                        "priority": f["priority"], "text": f["text"].hex(), "httl": f["httl"], "ottl": f["ottl"],
                                        "addrs": [a.hex() for a in f["v4"] + f["v6"]], "ifindex": None}
                                if c.get("bare"):
                                    from zeroconf import ServiceInfo

                                    handle = ServiceInfo(f["type"], f["name"])      # name and type only
                                    foreign[i.key] = None
                                elif c.get("other"):
                                    handle = make_info(dict(spec, **c["other"]))     # other port / text / addresses / TTLs
                                    if all_own([fields(handle)], const._DNS_OTHER_TTL) != all_own([f], const._DNS_OTHER_TTL):
                                        foreign[i.key] = fields(handle)
                                elif f["server"] == f["name"]:
                                    # an equal copy that leaves `server=` to its documented default, as the registered one did
                                    handle = make_info(dict(spec, server=None), set_server=False)
                                else:
                                    handle = make_info(spec)                         # an equal copy
                            try:
                                futs.append((i.key, await zc.async_unregister_service(handle)))
                            except Exception as ex:  # noqa: BLE001
                                raised[i.key] = type(ex).__name__
                            book.pop(i.key, None)
                        kinds.append("unregister")
                    else:
                        continue
                    csteps.append({"op": c, "line": cline, "impl": "ok", "q": None})
                # ---- queries after the change (first one with no await since the change when its gap is 0): each is owed the records
                # of the state after the change in a datagram sent after its own arrival, whatever the queues held at the change
                psteps, pmarks = [], []
                for gap, qop in op.get("post", []):
                    await sim.sleep_ms(gap)
                    msgs, packets = parse(qop)
                    pmarks.append(len(sim.net.log))
                    psteps.append({"op": qop, "line": msg_line(msgs), "impl": "wire", "msgs": msgs})
                    host.deliver(bytes(packets[0]), src_of(qop, 5353))
                await sim.sleep_ms(2600)
                for fkey, f in futs:
                    try:
                        await f
                    except Exception as ex:  # noqa: BLE001  (the announcement / goodbye task of the call raised)
                        raised[fkey] = type(ex).__name__
                pkts = grab(start, mark)
                allq = [x for z in qsteps + psteps for x in z["msgs"][0].questions]
                svcs_after = [fields(i) for i in book.values()]
                for n, ps_ in enumerate(psteps):
                    m0 = ps_.pop("msgs")[0]
                    ps_["q"] = {"burst": (n, len(psteps)), "post": True, "svcs": svcs_after, "qs": list(m0.questions), "allqs": allq, "known": [],
                                "pkts": grab(pmarks[n]), "scope": scope_of(ps_["op"]), "ettl": const._DNS_OTHER_TTL, "in_scope": True, "lost": set(lost)}
                for n, qs_ in enumerate(qsteps):
                    m0 = qs_.pop("msgs")[0]
                    qs_["q"] = {"split": (n, len(qsteps)), "svcs": svcs_before, "svcs_after": [fields(i) for i in book.values()], "changed": changed, "kinds": kinds,
                                "foreign": foreign, "raised": raised, "own_pkts": grab(qmarks[n]),
                                "qs": list(m0.questions), "allqs": allq,
                                "known": [], "pkts": pkts if n == len(qsteps) - 1 else [], "delay": op["delay"], "pending": pending,
                                "scope": scope_of(op["query"]), "ettl": const._DNS_OTHER_TTL, "in_scope": True, "lost": set(lost)}
                qsteps[-1]["q"]["per_query"] = [(z["q"]["qs"], z["q"]["own_pkts"]) for z in qsteps]
                steps.extend(qsteps)
                steps.extend(csteps)
                steps.extend(psteps)
                continue
            else:
                continue
            steps.append({"op": op, "line": line, "impl": impl, "q": q})
        await vsim.close_host(host)

    sim.run(main)
    return steps, [str(e.get("exception") or e.get("message")) for e in sim.errors]


def apply_mut(info, mut):
    """an attribute write through the public surface of ServiceInfo, mirrored on the argument-derived fields"""
    kind, val = mut
    f = ARGS[id(info)][1]
    if kind == "port":
        info.port = val
        f["port"] = val
    elif kind == "weight":
        info.weight = val
        f["weight"] = val
    elif kind == "priority":
        info.priority = val
        f["priority"] = val
    elif kind == "text":
        info.text = bytes.fromhex(val)
        f["text"] = bytes.fromhex(val)
    elif kind == "httl":
        info.host_ttl = val
        f["httl"] = val
    elif kind == "ottl":
        info.other_ttl = val
        f["ottl"] = val
    elif kind == "addrs":
        a = [bytes.fromhex(x) for x in val]
        info.addresses = a
        f["v4"] = [x for x in a if len(x) == 4]
        f["v6"] = [x for x in a if len(x) == 16]


def fixu(t):
    """a wire record with the cache-flush bit the specification expects (unicast replies never set it: packet format, C11)"""
    return t[:4] + (t[0] != "p",) + t[5:]


def nou(line):
    t = line.split()
    t[4] = "0"
    return " ".join(t)


def wire_oracle(q, complete=True):
    """the property's sentence on what was put on the wire.  In a burst (`allqs`) a datagram may answer any of the burst's queries
    (soundness is judged against all their questions); each query is owed its records in a datagram sent after its own arrival."""
    union = {}
    bad = []
    rtuple = lambda r: fixu(globals()["rtuple"](r))  # noqa: E731
    for p in q["pkts"]:
        for a in p["answers"]:
            union[rline(a)] = a
    svcs, qs = q["svcs"], [(x.name, x.type) for x in q["qs"]]
    qs_sound = [(x.name, x.type) for x in q.get("allqs", q["qs"])]
    seen = [rtuple(k) for k in q["known"]]
    known = [unscoped(k) for k in seen]
    observed = [(rtuple(a), []) for a in union.values()]
    found = oracle(svcs, qs, known, observed, q["ettl"], qs_sound=qs_sound)
    found = classify_scope(found, svcs, qs, seen, observed, q["ettl"], q.get("scope"), qs_sound=qs_sound)
    if q.get("legacy"):
        # a one-shot (legacy) querier listens on its own port: the records it is owed must be in the unicast reply sent to it
        direct = {}
        for p in q["pkts"]:
            if p["dst"] == q["legacy"]:
                for a in p["answers"]:
                    direct[rline(a)] = a
        owed = oracle(svcs, qs, known, [(rtuple(a), []) for a in direct.values()], q["ettl"], qs_sound=qs_sound)
        found = [x for x in found if not x[0].startswith("C03:missing-answer")] + \
                [(sig + ":legacy-unicast", what + " -- in the unicast reply to a legacy querier (source port other than 5353)", d)
                 for sig, what, d in owed if sig.startswith("C03:missing-answer")]
    if not complete:
        found = [x for x in found if not x[0].startswith("C03:missing-answer")]
    if q.get("post"):
        return [(sig + ":after-change", what + " -- asked after an update/unregister, for the state after it", d)
                for sig, what, d in found if sig.startswith("C03:missing-answer")]
    lost = q.get("lost") or set()
    for sig, what, d in found:
        if sig.startswith("C03:missing-answer") and any(d in all_own([f], q["ettl"]) for f in svcs if f["name"].lower() in lost):
            bad.append((SIG_D26, "async_update_service(info) with a ServiceInfo that has no server= raised AssertionError after the registry had already "
                        "dropped the registered service: neither the old nor the new state answers (D26)", d))
        else:
            bad.append((sig, what, d))
    for p in q["pkts"]:
        aid = {ident(rtuple(a)) for a in p["answers"]}
        allowed = set()
        for f in svcs:
            ptr, srv, txt, addrs, nsec, missing, enum = own_records(f, q["ettl"])
            if aid & {ident(x) for x in [ptr, srv, txt] + addrs + nsec}:
                allowed |= set([srv, txt] + addrs + nsec)
        seen_ids = set()
        for x in p["adds"]:
            t = rtuple(x)
            if ident(t) in aid:
                bad.append(("C03:additional-repeats-answer", "an additional record repeats an answer of the same datagram", t))
            if ident(t) in seen_ids:
                bad.append(("C03:additional-twice", "an additional record appears twice in one datagram", t))
            if t not in allowed:
                bad.append(("C03:foreign-additional:wire", "a datagram carries an additional that is not an SRV/TXT/address/NSEC record of a service owning one of its answers", t))
            seen_ids.add(ident(t))
    return bad


def all_own(svcs, ettl):
    out = set()
    for f in svcs:
        ptr, srv, txt, addrs, nsec, missing, enum = own_records(f, ettl)
        out |= set([ptr, srv, txt, enum] + addrs + nsec)
    return out


SIG_D20 = "C03:queued-answer-superseded-by-update"
SIG_D20B = "C03:queued-enumeration-pointer-after-unregister"
SIG_D20C = "C03:queued-shared-host-record-after-unregister"
SIG_D26 = "C03:update-without-server-loses-service"
SIG_R3A = "C03:unregister-through-foreign-handle"
# signatures of the recorded findings (known_findings.json, kind=finding): the search goes on past them, each is reported at most three
# times per run.  D25 and D26 are repaired in /repo (kind=fixed): their signatures are ordinary violations again.
KNOWN_SIGS = {SIG_D20, SIG_D20B, SIG_D20C, SIG_R3A}


def fresh_violation(res):
    return any(v["sig"] not in KNOWN_SIGS for v in res.violations)


def change_oracle(q):
    """`after a service is updated or unregistered replies reflect only the new state`, on the wire: every record of a response
    datagram transmitted after the update/unregister block (the goodbyes of the withdrawn service aside) is a record of a service
    registered *then*; datagrams transmitted before it are judged against the state before and against the questions asked.

    A stale record after the change is one of the recorded findings D20/D20b/D20c **only if the input is in their class**: the
    record was waiting in a multicast queue when the change was made -- as an answer (each pending answer explains one transmission:
    a queued group may be merged with a reply computed after the change, so this is judged record by record), or as an additional of
    such an answer in the same datagram.  Anything else -- a stale announcement of the update itself, a reply computed after the
    change from stale state -- is a fresh violation."""
    bad = []
    after = all_own(q["svcs_after"], q["ettl"])
    old = all_own(list(q["changed"].values()), q["ettl"])
    goodbye = {t[:5] + t[6:] for t in old}
    # R3-C03-a's input class: the service was unregistered through another ServiceInfo whose records differ from the registered ones
    # (`foreign`: key -> the handle's fields, None for a bare handle).  The code purges the queues and says goodbye with the
    # *handle's* records: what differs is not withdrawn, and a goodbye goes out for records that were never registered.
    foreign = q.get("foreign") or {}
    handle_own = all_own([f for f in foreign.values() if f is not None], q["ettl"])
    foreign_old = all_own([f for k, f in q["changed"].items() if k in foreign], q["ettl"])
    what_r3a = ("async_unregister_service was handed a ServiceInfo whose records differ from the registered service's: the queues are purged and the "
                "goodbye is built from the handle, so %s (R3-C03-a)")
    for k, exc in (q.get("raised") or {}).items():
        if k in foreign:
            bad.append((SIG_R3A, what_r3a % ("the call raised %s after the registry had dropped the service; nothing was purged, no goodbye was sent" % exc), k))
        else:
            bad.append(("C03:unregister-raised:%s" % exc, "async_unregister_service raised through a handle that describes the registered service", k))
    pending = q.get("pending")
    budget, padds = {}, {}
    for g in pending or []:
        for t, adds in g.items():
            budget[t] = budget.get(t, 0) + 1
            padds.setdefault(t, set()).update(adds)
    # ---- the services the change does not touch are owed their records whatever happens to the queues at the change (reading 10's
    # "no completeness in that window" is about the changed service, whose new records the update announces): each query of the op,
    # judged on the datagrams sent after its own arrival
    untouched = [f for f in q["svcs"] if f["name"].lower() not in q["changed"] and f in q["svcs_after"]]
    for qs_n, pk_n in q.get("per_query") or []:
        found = oracle(untouched, [(x.name, x.type) for x in qs_n], [], [(fixu(rtuple(a)), []) for p in pk_n for a in p["answers"]], q["ettl"],
                       qs_sound=[(x.name, x.type) for x in q["allqs"]])
        bad += [(sig + ":other-service", what + " -- a service that the update/unregister of another one does not touch", d)
                for sig, what, d in found if sig.startswith("C03:missing-answer") and d[0] != "n"]
    # ---- datagrams sent before the change: replies to the questions asked, in the state before
    pre = [p for p in q["pkts"] if not p["after"]]
    if pre:
        bad += wire_oracle(dict(q, pkts=pre, known=[]), complete=False)
    for p in q["pkts"]:
        if not p["after"]:
            continue
        answers = [fixu(rtuple(r)) for r in p["answers"]]
        recs = answers + [fixu(rtuple(r)) for r in p["adds"]]
        stale = [t for t in recs if t not in after and not (t[5] == 0 and "unregister" in q["kinds"] and t[:5] + t[6:] in goodbye)]
        if not stale:
            continue
        was_pending = [t for t in answers if budget.get(t, 0) > 0] if pending is not None else []
        for t in was_pending:
            budget[t] -= 1
        for t in stale:
            queued = t in was_pending if t in answers else any(t in padds[a] for a in was_pending)
            if t in old and "update" in q["kinds"]:
                if queued:
                    bad.append((SIG_D20, "a reply computed before async_update_service and still queued was multicast after the update with the "
                                "service's superseded record (D20)", t))
                else:
                    bad.append(("C03:stale-record-after-update:%s" % t[0], "a datagram that was not waiting in a queue when async_update_service was called "
                                "(an announcement of the update, or a reply computed afterwards) carries the service's superseded record", t))
            elif t[5] == 0 and "unregister" in q["kinds"] and t[:5] + t[6:] in {x[:5] + x[6:] for x in handle_own}:
                bad.append((SIG_R3A, what_r3a % "a goodbye went out for a record that was never registered", t))
            elif t in old:
                hosts_left = {f["server"].lower() for f in q["svcs_after"]}
                shared = any(f["server"].lower() in hosts_left and t in set(own_records(f, q["ettl"])[3] + own_records(f, q["ettl"])[4])
                             for f in q["changed"].values())
                if queued and t[0] == "p" and t[1].lower() == ENUM:
                    bad.append((SIG_D20B, "a type-enumeration answer queued before async_unregister_service went out afterwards although no service of that "
                                "type is registered any more (the enumeration pointer is not among the records the D5 repair purges)", t))
                elif queued and t[0] in ("a", "n") and shared:
                    bad.append((SIG_D20C, "an address/NSEC record of the withdrawn service (its TTL, its instance name), queued before async_unregister_service, "
                                "went out afterwards: with another service on the host these records are neither purged nor said goodbye to", t))
                elif t in foreign_old and t not in handle_own:
                    # one of the records async_unregister_service withdraws (PTR/SRV/TXT, addresses and NSEC of an unshared host) -- but
                    # it withdrew the handle's, which differ
                    bad.append((SIG_R3A, what_r3a % "a record of the registered service that the handle does not have went out after the unregister", t))
                else:
                    bad.append(("C03:queued-answer-after-unregister:%s" % t[0], "a datagram sent after async_unregister_service carries a record of the withdrawn service", t))
            else:
                bad.append(("C03:unsound-answer:after-change:%s" % t[0], "a datagram sent after the change carries a record of no registered service", t))
    return bad


TARGET = {"port": ["srv"], "weight": ["srv"], "priority": ["srv"], "text": ["txt", "any"], "httl": ["srv", "a+aaaa"], "ottl": ["ptr", "txt"], "addrs": ["a+aaaa", "ptr+a"]}


def shaped_questions(f, shape, qu=0):
    qs = {"srv+txt": [[f["name"], T_TXT, 1], [f["name"], T_SRV, 1]], "ptr": [[f["type"], T_PTR, 1]], "txt": [[f["name"], T_TXT, 1]],
          "any": [[f["name"], T_ANY, 1]], "ptr+a": [[f["type"], T_PTR, 1], [f["server"], T_A, 1]],
          "a+aaaa": [[f["server"], T_A, 1], [f["server"], T_AAAA, 1]], "enum": [[ENUM, T_PTR, 1], [f["type"], T_PTR, 1]], "srv": [[f["name"], T_SRV, 1]]}[shape]
    return [[n, t, c | qu] for n, t, c in qs]


def plain_query(qs, answers=(), scope=None):
    return {"op": "Q", "ucast": False, "scope": scope, "msgs": [{"probe": False, "qs": [list(x) for x in qs], "answers": list(answers)}]}


def new_value(rng, spec, kind):
    """a value for an attribute write that differs from the current one"""
    pool = {"port": [80, 81, 8080], "weight": [0, 1, 7], "priority": [0, 1, 7], "text": [t.hex() for t in TEXTS], "httl": [120, 10, 121, 4500],
            "ottl": [4500, 60, 61]}
    if kind == "addrs":
        for _ in range(20):
            val = gen_svc(rng)["addrs"]
            if sorted(val) != sorted(spec["addrs"]):
                return val
        return []
    return rng.choice([v for v in pool[kind] if v != spec[kind]])


def gen_change_history(rng):
    """register 1-3 services, then rounds of: (optional earlier query <1 s before, so that the reply is flood-delayed by 1 s) query,
    0-1100 ms, update (in place or with a new object) or unregister while the reply may still be queued"""
    ops, live, nid = [], {}, 0
    while len(live) < rng.choice([1, 1, 2, 3]):
        spec = gen_svc(rng)
        spec["httl"] = rng.choice([120, 10, 121, 4500])
        spec["ottl"] = rng.choice([4500, 60, 61])
        if any(x["name"].lower() == spec["name"].lower() for x in live.values()):
            continue
        if live and rng.random() < 0.4:
            o = rng.choice(list(live.values()))
            spec["server"] = o["server"] if o["server"] else o["name"]
        if live and rng.random() < 0.4:
            # two services of one type: a PTR reply for the type holds both pointers in one queued group
            o = rng.choice(list(live.values()))
            spec["type"] = o["type"]
            spec["name"] = spec["name"].split(".")[0] + "." + base_type(o["type"])
            if any(x["name"].lower() == spec["name"].lower() for x in live.values()):
                continue
        ops.append({"op": "R", "svc": spec, "obj": nid})
        live[nid] = dict(spec)  # a copy: later writes are tracked here, the op keeps what was registered
        nid += 1
    for _ in range(rng.choice([1, 2, 3])):
        if not live:
            break
        i = rng.choice(list(live))
        # the questions are about the service that is going to change -- or, one time in three, about another one, whose reply
        # must come through whatever the change does to the queues
        qi = rng.choice([j for j in live if j != i]) if len(live) > 1 and rng.random() < 0.35 else i
        f = spec_fields(live[qi])
        qu = 0x8000 if rng.random() < 0.15 else 0
        shape = rng.choice(["srv+txt", "ptr", "txt", "any", "ptr+a", "a+aaaa", "enum", "srv"])
        qs = shaped_questions(f, shape, qu)
        op = {"op": "QC", "query": plain_query(qs), "delay": rng.choice([0, 1, 5, 15, 30, 60, 100, 119, 121, 200, 400, 600, 1100])}
        if rng.random() < 0.3:
            op["pre"] = plain_query(list(reversed(qs)) + [["nosuch.local.", T_A, 1]])
            op["pre_gap"] = rng.choice([150, 300, 600, 900])
            op["delay"] = rng.choice([0, 30, 200, 600, 900, 1050, 1100])
        r = rng.random()
        if r < 0.45:
            kind = rng.choice(["port", "text", "httl", "ottl", "addrs", "port"])
            val = new_value(rng, live[i], kind)
            live[i][kind] = val
            op["change"] = [{"op": "M", "obj": i, "mut": [kind, val]}, {"op": "U", "obj": i}]
        elif r < 0.75:
            spec = gen_svc(rng, name=live[i]["name"], type_=live[i]["type"])
            spec["server"] = live[i]["server"]
            op["change"] = [{"op": "Unew", "svc": spec, "obj": nid}]
            del live[i]
            live[nid] = dict(spec)  # a copy: later writes are tracked here, the op keeps what was registered
            nid += 1
        else:
            x = {"op": "X", "objs": [i]}
            h = rng.random()
            if h < 0.3:
                x["copy"] = True          # an equal copy of the registered object
            elif h < 0.5:
                # another ServiceInfo for the same name with other fields (an application that rebuilt it from its configuration)
                kind = rng.choice(["port", "text", "addrs", "httl", "ottl"])
                x["other"] = {kind: new_value(rng, live[i], kind)}
            elif h < 0.56:
                x["bare"] = True          # ServiceInfo(type, name): all an application needs to know to name the service
            op["change"] = [x]
            del live[i]
        if live and rng.random() < 0.5:
            op["post"] = post_queries(rng, live, rng.choice([0, 5, 50, 300, 700]))
        ops.append(op)
    return ops


def post_queries(rng, live, first_gap):
    """1-3 queries after a change, for services registered then; always several questions (so that the reply is aggregated, not sent
    at once) and never two byte-identical datagrams (the listener drops those within a second)"""
    posts = []
    for n in range(rng.choice([1, 2, 3])):
        f = spec_fields(live[rng.choice(list(live))])
        qs = shaped_questions(f, rng.choice(["ptr", "txt", "srv+txt", "any", "ptr+a", "srv"])) + [["nosuch%d.local." % n, T_A, 1]]
        posts.append([first_gap if n == 0 else rng.choice([100, 400, 700, 1500]), plain_query(qs)])
    return posts


def gen_bystander_history(rng):
    """a reply that holds records of two services is waiting in a queue when ONE of them is updated or unregistered: whatever the call
    does to the queues (purge the withdrawn records, or -- a tempting repair of D20 -- drop what is queued), the other service's
    records are owed.  Three services, two of them of one type (one PTR reply group holds both pointers), often on one host; the
    unregister goes through the registered object, an equal copy, or a copy that leaves `server=` to its default."""
    ops, live, nid = [], {}, 0
    base = gen_svc(rng)
    while len(live) < 3:
        spec = gen_svc(rng, type_=base["type"] if len(live) < 2 else None)
        spec["httl"] = rng.choice([120, 4500])
        spec["ottl"] = rng.choice([4500, 60])
        if len(live) == 0 and rng.random() < 0.6:
            spec["server"] = None          # the server name defaults to the instance name
        elif live and rng.random() < 0.3:
            o = rng.choice(list(live.values()))
            spec["server"] = o["server"] if o["server"] else o["name"]
        if any(x["name"].lower() == spec["name"].lower() for x in live.values()):
            continue
        ops.append({"op": "R", "svc": spec, "obj": nid})
        live[nid] = dict(spec)
        nid += 1
    for _ in range(2):
        if len(live) < 2:
            break
        i = 0 if 0 in live and rng.random() < 0.6 else rng.choice(list(live))
        j = rng.choice([k for k in live if k != i])
        fx, fy = spec_fields(live[i]), spec_fields(live[j])
        qs = rng.choice([[[fx["type"], T_PTR, 1], [fy["type"], T_PTR, 1]],
                         [[fx["name"], T_TXT, 1], [fy["name"], T_TXT, 1]],
                         [[fx["type"], T_PTR, 1], [fy["name"], T_SRV, 1]],
                         [[fy["name"], T_ANY, 1], [fx["name"], T_SRV, 1]],
                         [[fx["name"], T_SRV, 1], [fy["server"], T_A, 1], [fy["type"], T_PTR, 1]]])
        qs = [list(x) for n, x in enumerate(qs) if x not in qs[:n]]
        op = {"op": "QC", "query": plain_query(qs), "delay": rng.choice([1, 5, 15, 19])}
        r = rng.random()
        if r < 0.4:
            kind = rng.choice(["port", "text", "ottl"])
            val = new_value(rng, live[i], kind)
            live[i][kind] = val
            op["change"] = [{"op": "M", "obj": i, "mut": [kind, val]}, {"op": "U", "obj": i}]
        elif r < 0.55:
            spec = gen_svc(rng, name=live[i]["name"], type_=live[i]["type"])
            spec["server"] = live[i]["server"]
            op["change"] = [{"op": "Unew", "svc": spec, "obj": nid}]
            del live[i]
            live[nid] = dict(spec)
            nid += 1
        else:
            op["change"] = [{"op": "X", "objs": [i], "copy": rng.random() < 0.65}]
            del live[i]
        ops.append(op)
    return ops


def gen_queue_history(rng):
    """the multicast queue across an unregister: two reply groups for service A are queued (a PTR question, a few ms later a TXT / ANY
    question: the second group's random delay usually ends after the first one's, so the timer is re-armed for the first group's
    aggregation deadline, arrival + 500 ms), A is unregistered inside that window (the D5 purge empties both groups), a question
    for another service B arrives in the last ~100 ms before the deadline (a third group behind the two empty ones), later questions
    for B follow.  Whatever the queue does with the empty groups, B's records are owed."""
    ops, live, nid = [], {}, 0
    while len(live) < rng.choice([2, 2, 3]):
        spec = gen_svc(rng)
        spec["httl"] = rng.choice([120, 4500])
        spec["ottl"] = rng.choice([4500, 60])
        if any(x["name"].lower() == spec["name"].lower() for x in live.values()):
            continue
        ops.append({"op": "R", "svc": spec, "obj": nid})
        live[nid] = dict(spec)  # a copy: later writes are tracked here, the op keeps what was registered
        nid += 1
    i = rng.choice(list(live))
    fa = spec_fields(live[i])
    pre_gap = rng.choice([3, 5, 10, 15, 19, 40])
    delay = rng.choice([60, 100, 200, 300, 380])
    late = rng.choice([3, 10, 20, 30, 40, 60, 90])          # how long before the first group's aggregation deadline B is asked for
    op = {"op": "QC", "pre": plain_query([[fa["type"], T_PTR, 1]]), "pre_gap": pre_gap,
          "query": plain_query(rng.choice([[[fa["name"], T_TXT, 1]], [[fa["name"], T_ANY, 1]], [[fa["name"], T_TXT, 1], ["nosuch.local.", T_A, 1]]])),
          "delay": delay, "change": [{"op": "X", "objs": [i], "copy": rng.random() < 0.2}]}
    del live[i]
    op["post"] = post_queries(rng, live, max(0, 500 - late - pre_gap - delay))
    ops.append(op)
    return ops


def gen_wire_history(rng):
    """short histories with unique names (the public API probes for conflicts), writes always followed by update and by a question
    about what was written; bursts of queries less than a second apart; a known AAAA answer at full TTL; `ttl=` on registration;
    an update with a ServiceInfo that has no `server=`"""
    ops = []
    live = {}
    past = []
    nid = 0
    for _ in range(rng.choice([3, 5, 7])):
        r = rng.random()
        if r < 0.34 or not live:
            spec = gen_svc(rng)
            if any(s["name"].lower() == spec["name"].lower() for s in list(live.values()) + past):
                continue
            if live and rng.random() < 0.4:
                o = rng.choice(list(live.values()))
                spec["server"] = o["server"] if o["server"] else o["name"]
                if rng.random() < 0.5:
                    spec["addrs"] = list(o["addrs"])
            op = {"op": "R", "svc": spec, "obj": nid}
            if rng.random() < 0.25:
                op["ttl"] = rng.choice([60, 10, 4500, 121])
                spec = dict(spec, httl=op["ttl"], ottl=op["ttl"])
            ops.append(op)
            live[nid] = dict(spec)  # a copy: later writes are tracked here, the op keeps what was registered
            nid += 1
            if "ttl" in op:
                ops.append(dict(plain_query(shaped_questions(spec_fields(spec), rng.choice(["ptr", "txt", "srv+txt", "any"]))), port=5353))
                continue
        elif r < 0.46:
            i = rng.choice(list(live))
            ops.append({"op": "X", "objs": [i]})
            past.insert(0, live.pop(i))
            ops.append(dict(gen_query(rng, cur_fields(live), fl(past), force_enum=True), port=5353))
        elif r < 0.62:
            i = rng.choice(list(live))
            s = live[i]
            kind = rng.choice(["port", "text", "httl", "ottl", "addrs", "weight"])
            val = new_value(rng, s, kind)
            s[kind] = val
            ops.append({"op": "M", "obj": i, "mut": [kind, val]})
            ops.append({"op": "U", "obj": i})
            # ask for what was written (the update must have taken effect: new value, and nothing of the old one)
            ops.append(dict(plain_query(shaped_questions(spec_fields(s), rng.choice(TARGET[kind]), 0x8000 if rng.random() < 0.2 else 0)), port=5353))
            continue
        elif r < 0.78:
            # a burst of 2-3 queries for the same records, different bytes (the listener drops byte-identical datagrams within 1 s)
            f = spec_fields(live[rng.choice(list(live))])
            qs = shaped_questions(f, rng.choice(["srv", "srv+txt", "ptr", "a+aaaa", "txt", "ptr+a", "any"]))
            queries = [plain_query(qs + [["nosuch.local.", T_A, 1]]), plain_query(qs), plain_query(list(reversed(qs)) + [["nosuch2.local.", T_A, 1]])][: rng.choice([2, 2, 3])]
            ops.append({"op": "QB", "queries": queries, "gaps": [rng.choice([50, 150, 300, 450, 600, 900, 999]) for _ in queries[:-1]]})
            continue
        elif r < 0.86:
            # the querier lists an address record with its full TTL: nothing is owed for it (on an IPv6 socket: D25)
            cands = [s for s in live.values() if s["addrs"]]
            if cands:
                f = spec_fields(rng.choice(cands))
                al = [(T_A, a) for a in f["v4"]] + [(T_AAAA, a) for a in f["v6"]]
                al = [x for x in al if x[0] == T_AAAA] * 3 + al
                ty, a = rng.choice(al)
                line = "a %s %d 1 %d %d 0 %s -" % (C.hs(f["server"]), ty, rng.choice([0, 1]), rng.choice([f["httl"], f["httl"], f["httl"] // 2 + 1, f["httl"] // 2]), C.hx(a))
                ops.append(dict(plain_query([[f["server"], ty, 1]] + ([[f["server"], T_A + T_AAAA - ty, 1]] if rng.random() < 0.4 else []), [line],
                                            scope=rng.choice([None, 3, 0])), port=5353))
                continue
        elif r < 0.91:
            # a truncated query: the first packet (TC bit) asks, the second one, 10-300 ms later from the same address, lists known answers
            # and may ask more; the listener answers the assembled train -- every question of every packet, minus every known answer
            f = spec_fields(live[rng.choice(list(live))])
            g = spec_fields(live[rng.choice(list(live))])
            first = {"probe": False, "tc": True, "qs": shaped_questions(f, rng.choice(["ptr", "srv+txt", "any", "ptr+a", "txt"])), "answers": gen_known(rng, [f, g], [], 2)}
            second = {"probe": False, "qs": shaped_questions(g, rng.choice(["srv", "txt", "a+aaaa"])) if rng.random() < 0.5 else [], "answers": gen_known(rng, [f, g], [], 3)}
            ops.append({"op": "Q", "ucast": False, "scope": None, "train": True, "train_gap": rng.choice([10, 50, 150, 300]), "msgs": [first, second], "port": 5353})
            continue
        elif r < 0.94:
            # async_update_service with a *new* ServiceInfo that has no server= (set_server_if_missing is not called on this path: D26)
            i = rng.choice(list(live))
            spec = dict(gen_svc(rng, name=live[i]["name"], type_=live[i]["type"]), server=None)
            ops.append({"op": "Unew", "svc": spec, "obj": nid, "noserver": True})
            past.insert(0, live.pop(i))
            live[nid] = dict(spec)  # a copy: later writes are tracked here, the op keeps what was registered
            nid += 1
            ops.append(dict(plain_query(shaped_questions(spec_fields(spec), rng.choice(["ptr", "srv", "txt"]))), port=5353))
            continue
        ops.append(dict(gen_query(rng, cur_fields(live), fl(past)), port=rng.choice([5353, 5353, 5353, 40000])))
    for o in ops:
        if o["op"] == "Q" and not o.get("train"):
            o["msgs"] = o["msgs"][:1]
            o["msgs"][0]["probe"] = False
            o.pop("pokes", None)
    return ops


def model_dict(mline):
    ma = mline.partition(" # ")[0]
    mdict = {}
    if ma not in ("none", "empty"):
        for e in ma.split(" ; "):
            parts = e.split(" , ")
            mdict[nou(parts[0])] = parts[1:]
    return mdict


def assess_wire(res, ops, steps, errors, model_line, seed, v6=False):
    case = {"wire": True, "sim_seed": seed, "v6": v6, "ops": ops}
    for e in errors:
        res.violate("C03:wire-exception", "the simulated host logged an error: %s" % e[:200], case)
    mobs = None
    if model_line is not None:
        mobs = model_line.split(" | ")
        if model_line == "bad-op" or len(mobs) != len(steps):
            res.disagree("c03-wire", case, "%d steps" % len(steps), model_line[:200])
            mobs = None

    def report(found, i):
        seen_sig = set()
        for sig, what, detail in found:
            if sig in KNOWN_SIGS:
                if sig in seen_sig:
                    continue
                seen_sig.add(sig)
                res.count("finding-seen:" + sig)
                if res.dist["finding-seen:" + sig] > 3:
                    continue
            res.violate(sig, what + " (on the wire)", dict(case, step=i, detail=repr(detail)))

    for i, s in enumerate(steps):
        q = s["q"]
        if q is None:
            if s["impl"] != "ok" and not (s["line"] is None and s["impl"] == "AssertionError"):
                res.disagree("c03-wire", dict(case, step=i), s["impl"], "ok")
            continue
        res.evaluations += 1
        res.count("wire-queries")
        res.count("wire-queries-ipv6-socket" if v6 else "wire-queries-ipv4-socket")
        res.count("wire-datagrams", len(q["pkts"]))
        if q.get("split"):
            n, nq = q["split"]
            if n != nq - 1:
                continue
            na = sum(1 for p in q["pkts"] if p["after"])
            res.count("wire-change-queries")
            res.count("wire-datagrams-after-change", na)
            late = [p for p in q["pkts"] if p["after"] and not (len(p["answers"]) >= 3 and not p["adds"])]
            res.nontriv(("wire-change", tuple(q["kinds"]), tuple(sorted(x.type for x in q["qs"])), min(q["delay"], 200) // 50, bool(late), v6))
            report(change_oracle(q), i)
            if mobs is not None:
                # the model on the change family: what left before the change is a reply to the queries asked, computed in the
                # state before -- every answer is an answer of the model's maps (exact line), with no additional the model does not attach
                md = {}
                for j in range(i - nq + 1, i + 1):
                    for kk, vv in model_dict(mobs[j]).items():
                        md.setdefault(kk, set()).update(vv)
                lid = lambda l: ident(rtuple(rec_from_line(l)))  # noqa: E731
                for p in q["pkts"]:
                    if p["after"]:
                        continue
                    got = sorted({nou(rline(a)) for a in p["answers"]})
                    if any(g not in md for g in got):
                        res.disagree("c03-wire-change-answers", dict(case, step=i), got, sorted(md))
                        break
                    want = {lid(x) for g in got for x in md[g]}
                    extra = {ident(rtuple(x)) for x in p["adds"]} - want
                    if extra:
                        res.disagree("c03-wire-change-additionals", dict(case, step=i), sorted(map(str, extra)), sorted(map(str, want)))
                        break
            continue
        if q.get("burst"):
            j, n = q["burst"]
            res.count("queries-after-change" if q.get("post") else "burst-queries")
            if q["in_scope"]:
                report(wire_oracle(q), i)
            union = sorted({nou(rline(a)) for p in q["pkts"] for a in p["answers"]})
            if union:
                res.nontriv(("post" if q.get("post") else "burst", j, n, tuple(sorted(x.type for x in q["qs"])), min(len(union), 4), len(q["pkts"]), v6))
            if mobs is not None:
                mine = model_dict(mobs[i])
                if not set(mine) <= set(union):
                    res.disagree("c03-wire-burst-complete", dict(case, step=i), union, sorted(mine))
                if j == 0 and not q.get("post"):
                    allm = set()
                    for jj in range(i, i + n):
                        allm |= set(model_dict(mobs[jj]))
                    if not set(union) <= allm:
                        res.disagree("c03-wire-burst-sound", dict(case, step=i), union, sorted(allm))
            continue
        union = sorted({nou(rline(a)) for p in q["pkts"] for a in p["answers"]})
        if union:
            res.nontriv(("wire", tuple(sorted((x.type, x.name.lower() == ENUM) for x in q["qs"])), min(len(union), 4), len(q["pkts"]), v6))
        if q["in_scope"]:
            report(wire_oracle(q), i)
        if mobs is not None:
            mdict = model_dict(mobs[i])
            if sorted(mdict) != union:
                res.disagree("c03-wire-answers", dict(case, step=i), union, sorted(mdict))
                continue
            lid = lambda l: ident(rtuple(rec_from_line(l)))  # noqa: E731
            for p in q["pkts"]:
                aid = {ident(rtuple(a)) for a in p["answers"]}
                want = {lid(x) for a in p["answers"] for x in mdict.get(nou(rline(a)), [])} - aid
                got = {ident(rtuple(x)) for x in p["adds"]}
                if want != got:
                    res.disagree("c03-wire-additionals", dict(case, step=i), sorted(map(str, got)), sorted(map(str, want)))



# ------------------------------------------------------------------------------------------
# generators


def known_ttls(ttl):
    return [ttl // 2, ttl // 2 + 1, (ttl + 1) // 2, max(0, ttl // 2 - 1), ttl, 1, 0, 2 * ttl + 1]


def swapc(s, rng):
    return rng.choice([s.upper(), s.lower(), s.swapcase(), s.title()])


def gen_known(rng, svcs, past, nmax=4):
    """known-answer lines: records of registered (and formerly registered) services at TTLs around half, with case variants,
    near misses, a few NSEC / contradictory duplicates (flagged by the oracle as outside the claim)"""
    from zeroconf import _dns as d

    pool = list(svcs) + list(past)[:2]
    out = []
    if not pool:
        return out
    for _ in range(rng.randint(0, nmax)):
        f = rng.choice(pool)
        kind = rng.choice(["p", "p", "s", "t", "a", "a", "e", "n"] if rng.random() < 0.2 else ["p", "p", "s", "t", "a", "a", "e"])
        cls = rng.choice([1, 1, 1 | 0x8000])
        nm = (lambda s: swapc(s, rng) if rng.random() < 0.25 else s)
        if kind == "p":
            base = f["ottl"]
            r = d.DNSPointer(nm(f["type"]), T_PTR, cls, 0, nm(f["name"]))
        elif kind == "e":
            base = 4500
            r = d.DNSPointer(nm(ENUM), T_PTR, cls, 0, nm(f["type"].lower()))
        elif kind == "s":
            base = f["httl"]
            port = f["port"] ^ (1 if rng.random() < 0.12 else 0)
            r = d.DNSService(nm(f["name"]), T_SRV, cls, 0, f["priority"], f["weight"], port, nm(f["server"]))
        elif kind == "t":
            base = f["ottl"]
            text = f["text"] if rng.random() > 0.12 else f["text"] + b"\x01z"
            r = d.DNSText(nm(f["name"]), T_TXT, cls, 0, text)
        elif kind == "a":
            base = f["httl"]
            al = [(T_A, a) for a in f["v4"]] + [(T_AAAA, a) for a in f["v6"]]
            if not al:
                continue
            ty, a = rng.choice(al)
            if rng.random() < 0.1:
                a = a[:-1] + bytes([a[-1] ^ 0x40])
            r = d.DNSAddress(nm(f["server"]), ty, cls, 0, a)
        else:
            missing = ([T_A] if not f["v4"] else []) + ([T_AAAA] if not f["v6"] else [])
            if not missing:
                continue
            base = f["httl"]
            r = d.DNSNsec(nm(f["name"]), T_NSEC, cls, 0, f["name"], missing)
        r.ttl = rng.choice(known_ttls(base))
        out.append(rline(r))
        if rng.random() < 0.06:  # the same record again with a contradictory TTL
            r.ttl = rng.choice(known_ttls(base))
            out.append(rline(r))
    rng.shuffle(out)
    return out


def gen_query(rng, svcs, past, force_enum=False):
    names = [ENUM, ENUM.upper()] + TYPES + ["_zz._tcp.local.", "nosuch._a._tcp.local.", "nosuch.local.", "h1.local.", "H1.local.", "h2.local."]
    for f in svcs:
        names += [f["name"], f["name"], swapc(f["name"], rng), f["server"], f["server"], swapc(f["server"], rng), f["type"], swapc(f["type"], rng)]
    for f in list(past)[:3]:
        names += [f["name"], f["server"]]
    qu = rng.random() < 0.3
    mixed = rng.random() < 0.12
    nonin = rng.random() < 0.04
    msgs = []
    for mi in range(2 if rng.random() < 0.12 else 1):
        qs = []
        for _ in range(rng.choice([1, 1, 1, 2, 2, 3, 4])):
            n = rng.choice(names)
            if n.lower() == ENUM:
                t = rng.choice([T_PTR, T_PTR, T_PTR, T_ANY, T_SRV])
            elif svcs and rng.random() < 0.6:
                # a question that is likely to hit
                f = rng.choice(svcs)
                n, t = rng.choice([(f["type"], T_PTR), (f["name"], T_SRV), (f["name"], T_TXT), (f["server"], T_A), (f["server"], T_AAAA), (f["name"], T_ANY),
                                   (f["type"], T_ANY), (f["server"], T_ANY)])
                if rng.random() < 0.3:
                    n = swapc(n, rng)
            else:
                t = rng.choice(QTYPES)
            cl = (rng.choice([255, 3]) if nonin and rng.random() < 0.5 else 1) | (0x8000 if (rng.random() < 0.5 if mixed else qu) else 0)
            qs.append([n, t, cl])
        if force_enum and mi == 0:
            qs[0] = [rng.choice([ENUM, ENUM.upper()]), T_PTR, 1 | (0x8000 if qu else 0)]
        probe = rng.random() < (0.7 if mi == 1 else 0.12)   # a probe packet may come first (its authority records never count, the
        msgs.append({"probe": probe, "qs": qs, "answers": gen_known(rng, svcs, past, 2 if probe else 4)})  # known answers of the others do)
    if len(msgs) == 2 and rng.random() < 0.3:
        msgs[0]["probe"], msgs[1]["probe"] = True, False
        if not msgs[1]["answers"]:
            msgs[1]["answers"] = gen_known(rng, svcs, past, 4)
    op = {"op": "Q", "ucast": rng.random() < 0.2, "msgs": msgs, "scope": rng.choice(SCOPES)}
    if rng.random() < 0.35:
        # copies of own records in the cache, as the host's own multicasts leave them: inside / at / outside the last second and
        # around a quarter of the TTL (the two cache-dependent routing tests)
        op["pokes"] = [[rng.randrange(4), rng.choice("psstaaane"), rng.choice([0, 1, 500, 999, 1000, 1001, 29999, 30000, 30001, 1124999, 1125000, 2000000])]
                       for _ in range(rng.choice([1, 2, 3, 6]))]
    return op


def gen_history(rng, nops):
    """op list; the generator tracks a *prediction* of the registered specs only to aim its queries"""
    ops = []
    live = {}   # obj id -> spec (as generated; field reads at run time are authoritative)
    past = []
    nid = 0
    for _ in range(nops):
        r = rng.random()
        if r < 0.26 or not live:
            spec = gen_svc(rng)
            if live and rng.random() < 0.35:  # share a host (and maybe an address) with somebody
                o = rng.choice(list(live.values()))
                spec["server"] = o["server"] if o["server"] else o["name"]
                if rng.random() < 0.5:
                    spec["addrs"] = list(o["addrs"])
                if rng.random() < 0.5:
                    spec["httl"] = o["httl"]
            ops.append({"op": "R", "svc": spec, "obj": nid})
            if not any(s["name"].lower() == spec["name"].lower() for s in live.values()):
                live[nid] = dict(spec)  # a copy: later writes are tracked here, the op keeps what was registered
            nid += 1
        elif r < 0.36:
            i = rng.choice(list(live))
            ops.append({"op": "X", "objs": [i], "aslist": rng.random() < 0.3})
            past.insert(0, live.pop(i))
            if rng.random() < 0.6:
                ops.append(gen_query(rng, cur_fields(live), fl(past), force_enum=True))
        elif r < 0.39 and len(live) >= 2:
            ids = rng.sample(list(live), 2)
            ops.append({"op": "X", "objs": ids})
            for i in ids:
                past.insert(0, live.pop(i))
            ops.append(gen_query(rng, cur_fields(live), fl(past), force_enum=True))
        elif r < 0.47:
            i = rng.choice(list(live))
            old = live[i]
            spec = gen_svc(rng, name=old["name"] if rng.random() < 0.7 else swapc(old["name"], rng), type_=None)
            # the new object must keep the instance name; its type may move between the base type and a subtype
            bt = base_type(old["type"])
            spec["type"] = rng.choice([old["type"], bt, "_s._sub." + bt] if bt == "_a._tcp.local." else [old["type"], bt])
            spec["name"] = old["name"]
            ops.append({"op": "Unew", "svc": spec, "obj": nid})
            past.insert(0, live.pop(i))
            live[nid] = dict(spec)  # a copy: later writes are tracked here, the op keeps what was registered
            nid += 1
            if rng.random() < 0.4:
                ops.append(gen_query(rng, cur_fields(live), fl(past), force_enum=rng.random() < 0.5))
        elif r < 0.60:
            i = rng.choice(list(live))
            s = live[i]
            kind = rng.choice(["port", "port", "text", "httl", "ottl", "addrs", "addrs", "addrs", "weight", "priority"])
            if kind == "port":
                val = rng.choice([80, 81, 8080, 1])
                s["port"] = val
            elif kind == "text":
                val = rng.choice(TEXTS).hex()
                s["text"] = val
            elif kind == "httl":
                val = rng.choice(HOST_TTLS)
                s["httl"] = val
            elif kind == "ottl":
                val = rng.choice(OTHER_TTLS)
                s["ottl"] = val
            elif kind == "addrs":
                val = gen_svc(rng)["addrs"]
                s["addrs"] = val
            else:
                val = rng.choice([0, 1, 7])
                s[kind] = val
            ops.append({"op": "M", "obj": i, "mut": [kind, val]})
            if rng.random() < 0.25:
                ops.append(gen_query(rng, cur_fields(live), fl(past)))  # a query in the dirty window (stage C only)
            ops.append({"op": "U", "obj": i})
        elif r < 0.63 and past:
            # update / remove of something that is not registered
            ops.append({"op": "Unew", "svc": gen_svc(rng), "obj": nid})
            live[nid] = dict(ops[-1]["svc"])
            # (if its key collides with a live one the older object is replaced; the run-time book decides)
            for j, s in list(live.items()):
                if j != nid and s["name"].lower() == live[nid]["name"].lower():
                    past.insert(0, live.pop(j))
            nid += 1
        else:
            ops.append(gen_query(rng, cur_fields(live), fl(past)))
    ops.append(gen_query(rng, cur_fields(live), fl(past), force_enum=rng.random() < 0.3))
    return ops


def spec_fields(s):
    a = [bytes.fromhex(x) for x in s["addrs"]]
    return {"type": s["type"], "name": s["name"], "server": s["server"] or s["name"], "port": s["port"], "weight": s["weight"], "priority": s["priority"],
            "text": bytes.fromhex(s["text"]), "httl": s["httl"], "ottl": s["ottl"], "v4": [x for x in a if len(x) == 4], "v6": [x for x in a if len(x) == 16]}


def cur_fields(live):
    return [spec_fields(s) for s in live.values()]


def fl(past):
    return [spec_fields(s) for s in past[:4]]


# ------------------------------------------------------------------------------------------
# the check


def entry_tokens(r, adds):
    return "%s %d %s" % (rline(r), len(adds), " ".join(rline(x) for x in adds))


def check_history(res, ops, ctx, label):
    """run one history on the implementation and the model; record disagreements and violations. Returns #queries."""
    steps = exec_history(ops)
    lines = []
    if all(s["line"] is not None for s in steps):
        lines.append("c03 %d %s" % (len(steps), " ".join(s["line"] for s in steps)))
    else:
        lines.append("ping")
    olines = []
    for si, s in enumerate(steps):
        q = s["q"]
        if q is None:
            continue
        qs = " ".join(C.question_line(x) for x in q["qs"])
        kn = " ".join(wire_line(k) for k in q["known"])  # the property's predicates get the querier's list as it is on the wire
        obs = " ".join(entry_tokens(r, adds) for r, adds in q["observed"])
        olines.append((si, "o", "c03o %d %s %d %s %d %s %d %s" % (len(q["svcs"]), " ".join(svc_line(f) for f in q["svcs"]), len(q["qs"]), qs, len(q["known"]), kn,
                                                           len(q["observed"]), obs)))
        for bname, d, answers, adds in q["buckets"]:
            olines.append((si, "p", "c03p %d %s" % (len(d), " ".join(entry_tokens(r, a) for r, a in d))))
            olines.append((si, "n", "c03n %d %s %d %s" % (len(answers), " ".join(rline(a) for a in answers), len(adds), " ".join(rline(a) for a in adds))))
    return steps, lines, olines


def assess(res, ops, steps, model_line, omodel, olines, label):
    nq = 0
    case = {"ops": ops}
    # ---- stage C
    if model_line is not None:
        if model_line == "bad-op":
            res.disagree("c03-history", case, "parsed", "bad-op")
        else:
            mobs = model_line.split(" | ")
            if len(mobs) != len(steps):
                res.disagree("c03-history", case, "%d observations" % len(steps), "%d observations" % len(mobs))
            else:
                for i, (s, m) in enumerate(zip(steps, mobs)):
                    impl = s["impl"]
                    if s["q"] is not None or s["op"]["op"] == "Q":
                        ma, _, mm = m.partition(" # ")
                        m = "%s # %s" % (canon_model_answers(ma), mm)
                    if impl != m and s["q"] is not None and s["q"]["mixed"] and impl.partition(" # ")[2] == m.partition(" # ")[2]:
                        # QU and QM questions in one query: two routing buckets may hold different key objects (TTL, spelling) of one
                        # identity; compare identity -> additionals
                        lid = lambda l: ident(rtuple(rec_from_line(l)))  # noqa: E731
                        mm_ = {}
                        if ma not in ("none", "empty"):
                            for e in ma.split(" ; "):
                                parts = e.split(" , ")
                                mm_[lid(parts[0])] = frozenset(parts[1:])
                        if {lid(k): v for k, v in s["q"]["merged"].items()} == mm_ and (s["q"]["none"]) == (ma == "none"):
                            res.count("mixed-QU-QM-compared-at-identity-level")
                            continue
                    if impl != m:
                        res.disagree("c03-history", {"ops": ops[: i + 1], "step": i}, impl, m)
                        break
    # ---- stage O (python oracle) + lean predicates
    lean = {}
    for (si, kind, _), o in zip(olines, omodel or []):
        lean.setdefault(si, []).append((kind, o))
    for si, s in enumerate(steps):
        if s["impl"].startswith("EXC"):
            res.violate("C03:exception", "an exception escaped: %s" % s["impl"], {"ops": ops[: si + 1]})
        q = s["q"]
        if q is None:
            continue
        nq += 1
        res.evaluations += 1
        nans = len(q["observed"])
        nk = len(q["known"])
        res.count("queries")
        res.count("answers", nans)
        if q["none"]:
            res.count("no-strategy")
        if q["mixed"]:
            res.count("queries-mixing-QU-and-QM")
        if q["dirty"]:
            res.count("queries-in-dirty-window(C only)")
        if not q["in_scope"]:
            res.count("non-IN-class(C only)")
        for x in q["qs"]:
            res.count("qtype-%d" % x.type)
            if x.type == T_ANY and x.name.lower() == ENUM:
                res.count("ANY-on-enumeration-name")
        key = (tuple(sorted((x.type, x.name.lower() == ENUM) for x in q["qs"])), min(nans, 4), min(nk, 3), len(q["svcs"]),
               tuple(sorted({rtuple(a)[0] for a, _ in q["observed"]})), q["dirty"])
        if nans or nk:
            res.nontriv(key)
        in_claim = q["in_scope"] and not q["dirty"]
        pbad = oracle_on(q) if in_claim else []
        for sig, what, detail in pbad:
            if sig in KNOWN_SIGS:
                res.count("finding-seen:" + sig)
                if res.dist["finding-seen:" + sig] > 3:
                    continue  # a recorded finding is reported (and shrunk) three times per run, then only counted
            res.violate(sig, what, {"ops": ops[: si + 1], "step": si, "detail": repr(detail)})
        # lean predicates
        lbad = []
        for kind, o in lean.get(si, []):
            if o == "bad-op":
                res.disagree("c03%s" % kind, {"ops": ops[: si + 1]}, "parsed", "bad-op")
                continue
            if kind == "o" and in_claim:
                f = dict(p.split("=") for p in o.split())
                if "0" in f["s"]:
                    lbad.append("unsound")
                if f["c"] != "1" and not any(rtuple(k)[0] == "n" for k in q["known"]):
                    lbad.append("incomplete")
                if "0" in f["a"]:
                    lbad.append("additionals")
            elif kind == "n" and in_claim and o != "1":
                lbad.append("repeat")
        if in_claim and omodel is not None:
            psum = sorted({{"C03:enum-type-without-service": "unsound", "C03:unsound-answer": "unsound", "C03:answer-despite-known": "unsound", SIG_D25: "unsound",
                            "C03:foreign-additional": "additionals", "C03:missing-answer": "incomplete", "C03:additional-repeats-answer": "repeat",
                            "C03:additional-twice": "repeat"}.get(sig.rsplit(":", 1)[0] if sig.count(":") > 1 else sig, "other") for sig, _, _ in pbad} - {"other"})
            if sorted(set(lbad)) != psum:
                if lbad and not pbad:
                    res.violate("C03:lean-predicate:%s" % ",".join(sorted(set(lbad))), "the Lean property predicate rejects the observation", {"ops": ops[: si + 1], "step": si})
                res.disagree("c03-oracles", {"ops": ops[: si + 1], "step": si}, "python oracle: %s" % psum, "lean predicates: %s" % sorted(set(lbad)))
        # packetize correspondence (identity level: which equal-identity object is kept depends on set order)
        pk = [o for kind, o in lean.get(si, []) if kind == "p"]
        for (bname, d, answers, adds), o in zip(q["buckets"], pk):
            if o == "bad-op":
                continue
            ma, _, mb = o.partition(" # ")
            mids = lambda s: sorted((ident(rtuple(rec_from_line(x))) for x in s.split(" ; ")), key=repr) if s != "empty" else []
            if mids(ma) != sorted((ident(rtuple(a)) for a in answers), key=repr) or mids(mb) != sorted((ident(rtuple(a)) for a in adds), key=repr):
                res.disagree("c03p", {"ops": ops[: si + 1], "bucket": bname}, [rline(a) for a in adds], mb)
        if len(res.samples) < 3 and nans >= 2 and nk:
            res.sample({"questions": [(x.name, x.type) for x in q["qs"]], "known": [rline(k) for k in q["known"]][:3], "answers": [rline(a) for a, _ in q["observed"]][:4],
                        "registered": [f["name"] for f in q["svcs"]]})
    return nq


def run(ctx):
    res = C.Result("C03")
    budget = C.Budget(ctx["tier"], 12000, 200000).n
    wire_budget = C.Budget(ctx["tier"], 36, 400).n
    if ctx["widened"]:
        budget *= 4
        wire_budget *= 2
    res.rule = ("registry histories (register / update with a new or the same object / unregister one or several / attribute writes / queries) over "
                "5 types x 6 labels x 4 hosts x 8 address shapes x boundary TTLs; queries of 1-4 questions x 0-4 known answers at TTL floor(t/2), floor(t/2)+1, ...; "
                "non-trivial = distinct (question kinds, #answers, #known, #services, answer kinds, dirty) signatures with at least one answer or known answer; "
                "plus simulated-host histories through the public API observed on the wire")
    corpus = C.load_corpus("C03")
    histories = [("corpus/" + name, body["ops"]) for name, body in corpus if not body.get("wire")]
    wire_corpus = [(body["ops"], body.get("sim_seed", 0), bool(body.get("v6"))) for name, body in corpus if body.get("wire")]
    nq = 0
    batch = []
    done = False
    hid = 0
    while not done:
        # corpus first, then random histories, in batches of one driver call
        while histories and len(batch) < 60:
            batch.append(histories.pop(0))
        while len(batch) < 60:
            hr = C.rng_for(ctx["seed"], "c03", hid)
            hid += 1
            batch.append(("h%d" % hid, gen_history(hr, hr.choice([3, 6, 10, 14, 20]))))
        prepared = []
        lines = []
        for label, ops in batch:
            steps, hl, ol = check_history(res, ops, ctx, label)
            prepared.append((label, ops, steps, len(lines), ol))
            lines.extend(hl)
            lines.extend(l for _, _, l in ol)
        model = None
        if ctx["driver_ok"]:
            try:
                model = C.run_driver(lines)
            except C.DriverUnavailable as ex:
                res.notes.append("driver unavailable: %s" % ex)
        for label, ops, steps, off, ol in prepared:
            ml = model[off] if model is not None else None
            if ml == "pong":
                ml = None
            om = model[off + 1: off + 1 + len(ol)] if model is not None else None
            nq += assess(res, ops, steps, ml, om, ol, label)
            res.count("histories")
            res.count("ops", len(ops))
        batch = []
        if nq >= budget or fresh_violation(res):
            done = True
    # ---- second observation point: datagrams of a simulated host (skipped once a violation that is not a recorded finding is in hand)
    if not fresh_violation(res):
        runs = []
        for ops, seed, v6 in wire_corpus:
            steps, errors = exec_wire(ops, seed, v6)
            runs.append((ops, seed, v6, steps, errors))
        for w in range(2 * wire_budget):
            wr = C.rng_for(ctx["seed"], "c03-wire", w)
            ops = (gen_wire_history(wr) if w % 2 == 0 else gen_change_history(wr) if w % 4 == 1 else
                   gen_queue_history(wr) if w % 8 == 3 else gen_bystander_history(wr))
            seed = ctx["seed"] * 100003 + w
            v6 = wr.random() < 0.35   # the host's only socket is an IPv6 socket
            steps, errors = exec_wire(ops, seed, v6)
            runs.append((ops, seed, v6, steps, errors))
        model = None
        has_model = lambda st: bool(st) and all(x["line"] is not None for x in st)  # noqa: E731  (no line: the update that raised, D26)
        if ctx["driver_ok"]:
            try:
                model = C.run_driver(["c03 %d %s" % (len(st), " ".join(x["line"] for x in st)) if has_model(st) else "ping" for _, _, _, st, _ in runs])
            except C.DriverUnavailable as ex:
                res.notes.append("driver unavailable: %s" % ex)
        for j, (ops, seed, v6, steps, errors) in enumerate(runs):
            ml = model[j] if model is not None and has_model(steps) else None
            assess_wire(res, ops, steps, errors, ml, seed, v6)
            res.count("wire-histories")
            res.count("wire-histories-ipv6-socket" if v6 else "wire-histories-ipv4-socket")
    # shrink the first violation of each signature
    seen = set()
    shrunk = []
    for v in res.violations:
        if v["sig"] in seen:
            shrunk.append(v)
            continue
        if v["case"].get("wire"):
            seen.add(v["sig"])
            try:
                v = dict(v, case=shrink_wire(v["case"], v["sig"]))
            except Exception:  # noqa: BLE001
                pass
            shrunk.append(v)
            continue
        seen.add(v["sig"])
        try:
            small = shrink(v["case"]["ops"], v["sig"])
            v = dict(v, case={"ops": small, "shrunk_from": len(v["case"]["ops"])})
        except Exception:  # noqa: BLE001
            pass
        shrunk.append(v)
    res.violations = shrunk
    return res


def wire_violations(case):
    steps, errors = exec_wire(case["ops"], case.get("sim_seed", 0), bool(case.get("v6")))
    v = [("C03:wire-exception", e, -1) for e in errors]
    for i, s in enumerate(steps):
        q = s["q"]
        if q is None or not q["in_scope"]:
            continue
        if q.get("split"):
            if q["split"][0] == q["split"][1] - 1:
                v += [(sig, what, i) for sig, what, _ in change_oracle(q)]
        else:
            v += [(sig, what, i) for sig, what, _ in wire_oracle(q)]
    return v


def shrink_wire(case, sig):
    ops = list(case["ops"])
    i = len(ops) - 1
    while i >= 0:
        cand = ops[:i] + ops[i + 1:]
        try:
            if any(s == sig for s, _, _ in wire_violations(dict(case, ops=cand))):
                ops = cand
        except Exception:  # noqa: BLE001
            pass
        i -= 1
    # drop the optional earlier query
    for j, o in enumerate(ops):
        if o.get("pre"):
            cand = ops[:j] + [{k: v for k, v in o.items() if k not in ("pre", "pre_gap")}] + ops[j + 1:]
            try:
                if any(s == sig for s, _, _ in wire_violations(dict(case, ops=cand))):
                    ops = cand
            except Exception:  # noqa: BLE001
                pass
    return {"wire": True, "sim_seed": case.get("sim_seed", 0), "v6": bool(case.get("v6")), "ops": ops, "shrunk_from": len(case["ops"])}


def replay(body):
    case = body.get("case", body)
    ops = case["ops"]
    if case.get("wire"):
        v = wire_violations(case)
    else:
        v = violations_of(ops)
    return {"violates": bool(v), "violations": [{"sig": s, "what": w, "step": st} for s, w, st in v][:10], "ops": len(ops)}
