"""C17, the part of the quantifier the virtual-time simulator cannot host: real threads.

`close()` "from a non-loop thread" and the thread-based `ServiceBrowser` run on real threads and real (shortened)
time here: the instance's sockets are replaced by recording transports on a *real* asyncio loop, the protocol timing
constants of `_core` (and, where a scenario says so, the cache-cleanup period, the PTR TTL floor and the safeguard
timeouts of the sync API) are shortened, and each scenario lasts from a few hundred milliseconds to two seconds of
wall time.

Two kinds of instance: **thread-backed** (created with no running loop: the instance runs its own loop in a thread,
`close()` stops it) and **loop-backed** (created inside a running loop: `close()` comes from an executor thread, the loop
goes on afterwards — whatever the close leaves armed can still fire).

Stage O — the property's sentences on what the recording transports, the listeners and the loop exception handler saw:
every record of every registered service handed to a transport with TTL 0 before the transports close; nothing handed to a
transport, no listener callback and no loop error after `close()` returned; `done`, transports closed, cleanup timer
cancelled (loop-backed: it would fire), tracked browsers cancelled; a second, third, … `close()` — sequential, from the same
or another thread — returns at once, raises nothing, sends nothing, changes nothing.

Stage C — `Zeroconf.close()` is four calls (`unregister_all_services`, `_close`, `engine.close`, `_shutdown_threads`);
class-level wrappers read the instance's state before and after **each of them**, count the goodbye datagrams transmitted
inside and note what was raised; the Lean model's blocks for that call (`Shutdown.acceptSyncCall`: `closeCall true`,
`closeGoodbye`, `closeMarkDone`, `closeShutdown`, `closeFinish`, `closeThreadsCheck`, `closeThreadsStop`) must be
enabled, raise exactly when the implementation raised and leave exactly the observed state.

What is deterministic: the verdicts on a correct tree (every wait in the library is a join / a blocking
`run_coro_with_timeout`, so "before close returned" is decided by program order, not by timing); the scenarios
themselves (no randomness beyond the seed-chosen variant parameters).  What is not: wall-clock instants (only
compared against the moment close returned, with the library's own joins making the order certain), and the exact
number of callbacks a *defective* tree delivers late (the listener callbacks sleep 30 ms each so that at least one
is late with a wide margin).
"""
from __future__ import annotations

import asyncio
import socket
import threading
import time
from unittest import mock

from . import common as C  # noqa: F401  (sys.path)

TA = "_a._tcp.local."
TB = "_b._tcp.local."
MDNS = "224.0.0.251"
D30_SIG = "C17:close-from-tracked-browser-callback-thread-raises"
D31_SIG = "C17:untracked-thread-browser-delivers-queue-after-close"
D34_SIG = "C17:overlapping-sync-closes-raise"
R3A_SIG = "C17:closed-during-startup-opens-sockets-afterwards"


class RTTransport(asyncio.DatagramTransport):
    """recording transport on a real loop"""

    def __init__(self, loop, sock, protocol, log):
        super().__init__()
        self.loop, self.sock, self.protocol, self.log = loop, sock, protocol, log
        self.closed = False

    def get_extra_info(self, name, default=None):
        return self.sock if name == "socket" else default

    def sendto(self, data, addr=None):
        self.log.append((time.monotonic(), "sent" if not self.closed else "sendto-on-closed", bytes(data), addr))

    def close(self):
        if not self.closed:
            self.closed = True
            self.log.append((time.monotonic(), "transport-closed", b"", None))
            self.loop.call_soon(self.protocol.connection_lost, None)

    def abort(self):
        self.log.append((time.monotonic(), "transport-aborted", b"", None))
        self.close()

    def is_closing(self):
        return self.closed


def snapshot(zc):
    """what the model's `SyncSnap` holds, read off the real objects"""
    eng = zc.engine
    trs = [t.transport for t in eng.senders + eng.readers]
    t = eng._cleanup_timer
    return {
        "done": bool(zc.done),
        "tclosed": bool(trs) and all(x.is_closing() for x in trs),
        "cleanup": bool(t is not None and not t.cancelled()),
        "loop_thread": zc._loop_thread is not None,
        "loop_running": bool(zc.loop is not None and zc.loop.is_running()),
        "registry": len(zc.registry.async_get_service_infos()),
        "zc_browsers": len(zc.browsers),
        "zc_cancelled": sum(1 for b in list(zc.browsers.values()) if b.done),
    }


class Rig:
    """patches that give every Zeroconf instance created inside `with Rig() as rig:` fake sockets and short timers, and
    log the four calls `Zeroconf.close()` makes"""

    def __init__(self, fast=15, cleanup_interval=None, ptr_min_ttl=None, safeguard=None, flush=True, register_time=None, startup_delay=0):
        self.log = []
        self.startup_delay = startup_delay   # seconds the creation of the endpoints takes (many interfaces, a busy loop)
        self.register_time = register_time if register_time is not None else fast   # interval of the three announcements
        self.flush = flush   # (off for the scenarios with concurrent closers: the extra round trip through the loop would move the race)
        self.calls = []     # one entry per (instance, call of close's four steps)
        self.fast = fast
        self.cleanup_interval, self.ptr_min_ttl, self.safeguard = cleanup_interval, ptr_min_ttl, safeguard
        self.patches = []

    def __enter__(self):
        from . import vsim
        import zeroconf._core as core
        import zeroconf._engine as eng
        import zeroconf._handlers.record_manager as rmm
        import zeroconf._utils.asyncio as uas
        from zeroconf._listener import AsyncListener
        from zeroconf._transport import make_wrapped_transport

        rig = self
        n = [0]

        def create_sockets(*a, **k):
            n[0] += 2
            return vsim.FakeSock(100 + n[0], ("0.0.0.0", 5353)), [vsim.FakeSock(101 + n[0], ("10.0.0.1", 5353))]

        async def create_endpoints(self_):
            loop = self_.loop
            if rig.startup_delay:
                await asyncio.sleep(rig.startup_delay)
            readers, senders = [], []
            if self_._listen_socket:
                readers.append(self_._listen_socket)
            for s in self_._respond_sockets:
                if s not in readers:
                    readers.append(s)
                senders.append(s)
            for s in readers:
                await asyncio.sleep(0)
                proto = AsyncListener(self_.zc)
                tr = RTTransport(loop, s, proto, rig.log)
                proto.connection_made(tr)
                self_.protocols.append(proto)
                self_.readers.append(make_wrapped_transport(tr))
                if s in senders:
                    self_.senders.append(make_wrapped_transport(tr))

        def logged(name, get_zc, orig):
            def f(self_, *a, **k):
                zc = get_zc(self_)
                who = threading.current_thread()
                caller = None
                for i, b in enumerate(list(zc.browsers.values())):
                    if b is who:
                        caller = i
                ent = {"call": name, "thread": who.name, "caller": caller, "before": snapshot(zc), "n_log": len(rig.log), "raised": None, "t0": time.monotonic()}
                rig.calls.append(ent)
                try:
                    return orig(self_, *a, **k)
                except BaseException as ex:  # noqa: BLE001
                    ent["raised"] = type(ex).__name__
                    raise
                finally:
                    # let the loop run what the call handed to it with `call_soon_threadsafe` (a browser's `_async_cancel`)
                    # before the state is read -- only possible from a thread that is not the loop's
                    if rig.flush and zc.loop is not None and zc.loop.is_running() and asyncio._get_running_loop() is not zc.loop:
                        try:
                            asyncio.run_coroutine_threadsafe(asyncio.sleep(0), zc.loop).result(1)
                        except BaseException:  # noqa: BLE001
                            pass
                    ent["after"] = snapshot(zc)
                    ent["t1"] = time.monotonic()
                    ent["goodbyes"] = sum(1 for e in rig.log[ent["n_log"]:] if e[1] == "sent" and rec_keys(e[2], True))
            return f

        self.patches = [
            mock.patch.object(core, "create_sockets", create_sockets),
            mock.patch.object(eng.AsyncEngine, "_async_create_endpoints", create_endpoints),
            mock.patch.object(core, "_CHECK_TIME", self.fast),
            mock.patch.object(core, "_REGISTER_TIME", self.register_time),
            mock.patch.object(core, "_UNREGISTER_TIME", self.fast),
            mock.patch.object(core.Zeroconf, "unregister_all_services", logged("unregister", lambda z: z, core.Zeroconf.unregister_all_services)),
            mock.patch.object(core.Zeroconf, "_close", logged("markdone", lambda z: z, core.Zeroconf._close)),
            mock.patch.object(eng.AsyncEngine, "close", logged("engine", lambda e: e.zc, eng.AsyncEngine.close)),
            mock.patch.object(core.Zeroconf, "_shutdown_threads", logged("threads", lambda z: z, core.Zeroconf._shutdown_threads)),
        ]
        if self.cleanup_interval is not None:
            self.patches.append(mock.patch.object(eng, "_CACHE_CLEANUP_INTERVAL", self.cleanup_interval))
        if self.ptr_min_ttl is not None:
            self.patches.append(mock.patch.object(rmm, "_DNS_PTR_MIN_TTL", self.ptr_min_ttl))
        if self.safeguard is not None:
            # the safeguard timeouts of the sync API ("should never be reached in normal operation"): 13 s / 3 s / 3 s in the library
            self.patches += [mock.patch.object(eng, "_CLOSE_TIMEOUT", int(self.safeguard * 1000)),
                             mock.patch.object(uas, "_LOADED_SYSTEM_TIMEOUT", self.safeguard),
                             mock.patch.object(uas, "_GET_ALL_TASKS_TIMEOUT", self.safeguard),
                             mock.patch.object(uas, "_WAIT_FOR_LOOP_TASKS_TIMEOUT", self.safeguard)]
        for p in self.patches:
            p.start()
        return self

    def __exit__(self, *a):
        for p in self.patches:
            p.stop()


def rec_keys(data, ttl0):
    from zeroconf import DNSIncoming

    m = DNSIncoming(data)
    out = set()
    if m.valid and not m.is_query():
        for r in m.answers():
            if (int(r.ttl) == 0) == ttl0:
                tok = C.rec_line(r, created=0).split()
                out.add(" ".join(tok[:4] + tok[7:]))
    return out


def expected_records(infos):
    out = set()
    for info in infos:
        for r in [info.dns_pointer(), info.dns_service(), info.dns_text()] + list(info.get_address_and_nsec_records()):
            tok = C.rec_line(r, created=0).split()
            out.add(" ".join(tok[:4] + tok[7:]))
    return out


def ptr_response(type_, names, ttl=4500):
    from zeroconf import DNSOutgoing, const
    from zeroconf._dns import DNSPointer

    out = DNSOutgoing(const._FLAGS_QR_RESPONSE | const._FLAGS_AA)
    for n in names:
        out.add_answer_at_time(DNSPointer(type_, const._TYPE_PTR, const._CLASS_IN, ttl, n + "." + type_), 0)
    return out.packets()[0]


class Recorder:
    """a ServiceListener that notes when each callback *starts*, on which thread, optionally sleeping first-thing"""

    def __init__(self, events, tag, sleep_ms=0, on_add=None):
        self.events, self.tag, self.sleep_ms, self.on_add = events, tag, sleep_ms, on_add

    def _ev(self, kind, name):
        self.events.append((time.monotonic(), self.tag, kind, name, threading.current_thread().name))

    def add_service(self, zc, t, n):
        self._ev("add", n)
        if self.on_add is not None:
            self.on_add(zc, n)
        if self.sleep_ms:
            time.sleep(self.sleep_ms / 1000.0)

    def remove_service(self, zc, t, n):
        self._ev("rem", n)

    def update_service(self, zc, t, n):
        self._ev("upd", n)


def judge_after_close(bad, what, zc, rig, log0, t_ret, events, expected, loop_goes_on, loop_errors=()):
    """the property's sentences after a sync close() that returned at `t_ret`"""
    log = rig.log[log0:]
    t_closed = min([e[0] for e in log if e[1] == "transport-closed"], default=None)
    gone = set()
    for e in log:
        if e[1] == "sent" and (t_closed is None or e[0] <= t_closed):
            gone |= rec_keys(e[2], True)
    missing = sorted(expected - gone)
    if missing:
        sig = "C17:registered-before-close-no-goodbye" if len(missing) == len(expected) else "C17:registered-service-record-not-withdrawn"
        bad.append((sig, "%s: %d of %d records of the registered services were never sent with TTL 0 before the transports closed"
                    % (what, len(missing), len(expected))))
    # "withdrawn": the goodbye is the last word -- no record of a registered service goes out with a positive TTL after it was sent with TTL 0
    last_bye = {}
    for e in log:
        if e[1] == "sent":
            for k_ in rec_keys(e[2], True) & expected:
                last_bye[k_] = e[0]
    revived = {}
    for e in log:
        if e[1] == "sent":
            for k_ in rec_keys(e[2], False) & expected:
                if k_ in last_bye and e[0] > last_bye[k_]:
                    revived.setdefault(k_, e[0] - last_bye[k_])
    if revived:
        k0 = sorted(revived)[0]
        bad.append(("C17:announced-after-goodbye", "%s: %d records of the registered services were transmitted with their full TTL after their last goodbye (e.g. %s, %.0f ms after it)"
                    % (what, len(revived), " ".join(k0.split()[:3]), revived[k0] * 1000)))
    late = [e for e in log if e[0] > t_ret and e[1] in ("sent", "sendto-on-closed")]
    if late:
        bad.append(("C17:send-after-close", "%s: datagram handed to a transport %.0f ms after close returned" % (what, (late[0][0] - t_ret) * 1000)))
    if any(e[1] == "transport-aborted" for e in log):
        bad.append(("C17:transport-aborted", "%s aborted the transports instead of closing them" % what))
    st = snapshot(zc)
    if not st["done"] or not st["tclosed"]:
        bad.append(("C17:not-shut-down", "%s: after close returned done=%s, transports closed=%s" % (what, st["done"], st["tclosed"])))
    elif loop_goes_on and st["cleanup"]:
        # (on an instance that ran its own loop the loop is stopped: an armed handle there can never fire)
        bad.append(("C17:not-shut-down", "%s: the periodic cache-cleanup timer is still armed after close returned, on a loop that goes on running" % what))
    if st["zc_browsers"]:
        bad.append(("C17:tracked-browser-not-cancelled", "%s: %d browsers made by add_service_listener are still tracked after close returned" % (what, st["zc_browsers"])))
    late_cb = [e for e in events if e[0] > t_ret]
    if late_cb:
        bad.append(("C17:callback-after-close", "%s: %d listener callbacks started after close returned (first: %s %s, %.0f ms late, thread %s)"
                    % (what, len(late_cb), late_cb[0][1], late_cb[0][2], (late_cb[0][0] - t_ret) * 1000, late_cb[0][4])))
    if loop_errors:
        bad.append(("C17:loop-exception", "%s: loop exception handler called: %s" % (what, loop_errors[0])))
    return st


def close_again(bad, what, zc, rig, n, from_thread):
    """`n` further sequential close() calls: each returns at once, raises nothing, sends nothing, changes nothing"""
    for k in range(n):
        before = snapshot(zc)
        n0 = len(rig.log)
        err = []
        t0 = time.monotonic()

        def again():
            try:
                zc.close()
            except BaseException as ex:  # noqa: BLE001
                err.append(type(ex).__name__)

        if from_thread:
            th = threading.Thread(target=again)
            th.start()
            th.join(30)
        else:
            again()
        dt = time.monotonic() - t0
        if err:
            bad.append(("C17:closing-again-raises:" + err[0], "%s: close() call #%d on the closed instance raised %s after %.1f s" % (what, k + 2, err[0], dt)))
        elif dt > 1.0:
            bad.append(("C17:closing-again-blocks", "%s: close() call #%d on the closed instance took %.1f s" % (what, k + 2, dt)))
        if [e for e in rig.log[n0:] if e[1] in ("sent", "sendto-on-closed")]:
            bad.append(("C17:second-close-sends", "%s: close() call #%d handed datagrams to a transport" % (what, k + 2)))
        after = snapshot(zc)
        changed = sorted(k_ for k_ in ("done", "tclosed", "cleanup") if before[k_] != after[k_])
        if changed:
            bad.append(("C17:second-close-changes-state", "%s: close() call #%d changed %s" % (what, k + 2, changed)))


def make_infos(n_services, distinct_addrs):
    from zeroconf import ServiceInfo

    return [ServiceInfo(TA, "t%d.%s" % (i, TA), 80 + i, addresses=[socket.inet_aton("10.0.%d.1" % (i if distinct_addrs else 0))],
                        server="ht.local.") for i in range(n_services)]


def thread_backed_scenario(case):
    """thread-backed instance (created with no running loop), services registered through the blocking API, optionally a
    tracked thread-based browser with slow callbacks and state changes still queued, then the blocking `close()` from: a plain
    thread / a coroutine of another event loop running in the calling thread / a worker thread that runs its own event loop;
    then `again` further close() calls"""
    from zeroconf import Zeroconf

    bad = []
    events = []
    with Rig() as rig:
        zc = Zeroconf(interfaces=["10.0.0.1"])
        try:
            infos = make_infos(case["n_services"], case["distinct_addrs"])
            for info in infos:
                zc.register_service(info, cooperating_responders=True)
            if case.get("tracked_browser"):
                zc.add_service_listener(TB, Recorder(events, "tracked", sleep_ms=30))
                time.sleep(0.05)
                zc.loop.call_soon_threadsafe(zc.engine.protocols[0].datagram_received, ptr_response(TB, ["x0", "x1", "x2"]), ("10.0.0.9", 5353))
                time.sleep(0.02)   # the first callback is running, two more are queued
            expected = expected_records(infos)
            n0 = len(rig.log)
            err = []

            def do_close():
                try:
                    zc.close()
                except BaseException as ex:  # noqa: BLE001
                    err.append(type(ex).__name__)

            variant = case["variant"]
            if variant == "plain-thread":
                do_close()
            elif variant == "other-loop-same-thread":
                async def app():
                    assert asyncio.get_running_loop() is not zc.loop
                    do_close()
                asyncio.run(app())
            else:  # "other-loop-worker-thread"
                def worker():
                    async def app():
                        do_close()
                    asyncio.run(app())
                t = threading.Thread(target=worker)
                t.start()
                t.join(30)
            t_ret = time.monotonic()
            what = "close() from %s (instance with its own loop thread)" % variant
            if err:
                bad.append(("C17:close-call-raises:" + err[0], "%s raised %s" % (what, err[0])))
            judge_after_close(bad, what, zc, rig, n0, t_ret, events, expected, loop_goes_on=False)
            # (whether the loop thread was stopped and forgotten is not the property's business: stage C compares it, `c17sync`)
            close_again(bad, what, zc, rig, case.get("again", 1), from_thread=bool(case.get("again_from_thread")))
            time.sleep(0.12)
            late = [e for e in rig.log[n0:] if e[0] > t_ret and e[1] in ("sent", "sendto-on-closed")]
            if late and not any(b[0] == "C17:send-after-close" for b in bad):
                bad.append(("C17:send-after-close", "%s: datagram handed to a transport %.0f ms after close returned" % (what, (late[0][0] - t_ret) * 1000)))
            late_cb = [e for e in events if e[0] > t_ret]
            if late_cb and not any(b[0] == "C17:callback-after-close" for b in bad):
                bad.append(("C17:callback-after-close", "%s: %d listener callbacks started after close returned" % (what, len(late_cb))))
        finally:
            force_close(zc)
    return bad, rig.calls


def force_close(zc):
    if not zc.done or (zc._loop_thread is not None and zc.loop.is_running()):
        try:
            zc.close()
        except BaseException:  # noqa: BLE001
            pass
    if zc._loop_thread is not None and zc.loop is not None and zc.loop.is_running():
        zc.loop.call_soon_threadsafe(zc.loop.stop)


def loop_backed_scenario(case):
    """loop-backed instance on a real loop that goes on after the close: services registered through the async API, an untracked
    `AsyncServiceBrowser` (never cancelled) whose cached pointer record expires shortly after the close (cache cleanup every
    200 ms, PTR floor 1 s), optionally a tracked thread-based browser; `close()` from `closers` executor threads one after
    the other; the loop is watched for `watch_ms` afterwards"""
    from zeroconf import Zeroconf
    from zeroconf.asyncio import AsyncServiceBrowser, AsyncZeroconf

    bad = []
    events = []
    errors = []
    calls_out = []

    async def main(rig):
        loop = asyncio.get_running_loop()
        loop.set_exception_handler(lambda l, ctx: errors.append(str(ctx.get("exception") or ctx.get("message"))[:200]))
        zc = Zeroconf(interfaces=["10.0.0.1"])
        aza = AsyncZeroconf(zc=zc)
        await zc.async_wait_for_start()
        infos = make_infos(case["n_services"], case["distinct_addrs"])
        for info in infos:
            await (await aza.async_register_service(info, cooperating_responders=True))
        AsyncServiceBrowser(zc, [TB], listener=Recorder(events, "untracked-async"))
        if case.get("tracked_browser"):
            await loop.run_in_executor(None, zc.add_service_listener, TB, Recorder(events, "tracked", sleep_ms=30))
            await asyncio.sleep(0.05)
        zc.engine.protocols[0].datagram_received(ptr_response(TB, ["x0", "x1"], ttl=1), ("10.0.0.9", 5353))
        await asyncio.sleep(case["close_after_ms"] / 1000.0)
        expected = expected_records(infos)
        n0 = len(rig.log)
        err = []

        def do_close():
            try:
                zc.close()
            except BaseException as ex:  # noqa: BLE001
                err.append(type(ex).__name__)

        def do_close_inside_another_loop():
            async def app():
                do_close()
            asyncio.run(app())

        # the closing thread may itself be running an event loop (another one): `AsyncEngine.close()` must still run `_async_close()`
        # on the *instance's* loop and wait for it
        await loop.run_in_executor(None, do_close_inside_another_loop if case.get("closer_has_loop") else do_close)
        t_ret = time.monotonic()
        what = "close() from an executor thread%s (instance on the application's loop)" % (" that runs a loop of its own" if case.get("closer_has_loop") else "")
        if err:
            bad.append(("C17:close-call-raises:" + err[0], "%s raised %s" % (what, err[0])))
        judge_after_close(bad, what, zc, rig, n0, t_ret, events, expected, loop_goes_on=True, loop_errors=errors)
        # what is still scheduled on the loop for the instance (informational, except the two handles the close must cancel)
        left = []
        for h in list(getattr(loop, "_scheduled", [])):
            cb = getattr(h, "_callback", None)
            owner = getattr(cb, "__self__", None)
            if not h.cancelled() and type(owner).__module__.startswith("zeroconf"):
                left.append(type(owner).__name__ + "." + getattr(cb, "__name__", "?"))
        case["_timers_left"] = sorted(left)
        await loop.run_in_executor(None, close_again, bad, what, zc, rig, case.get("again", 1), False)
        await asyncio.sleep(case["watch_ms"] / 1000.0)
        late = [e for e in rig.log[n0:] if e[0] > t_ret and e[1] in ("sent", "sendto-on-closed")]
        if late and not any(b[0] == "C17:send-after-close" for b in bad):
            bad.append(("C17:send-after-close", "%s: datagram handed to a transport %.0f ms after close returned" % (what, (late[0][0] - t_ret) * 1000)))
        late_cb = [e for e in events if e[0] > t_ret]
        if late_cb and not any(b[0] == "C17:callback-after-close" for b in bad):
            bad.append(("C17:callback-after-close", "%s: listener callback %s %s %.0f ms after close returned (thread %s): a timer the close left armed fired"
                        % (what, late_cb[0][1], late_cb[0][2], (late_cb[0][0] - t_ret) * 1000, late_cb[0][4])))
        if errors and not any(b[0] == "C17:loop-exception" for b in bad):
            bad.append(("C17:loop-exception", "%s: loop exception handler called: %s" % (what, errors[0])))
        calls_out.extend(rig.calls)

    with Rig(cleanup_interval=0.2, ptr_min_ttl=1) as rig:
        asyncio.run(main(rig))
    return bad, calls_out


def threaded_browser_scenario(case):
    """loop-backed instance; a thread-based ServiceBrowser (Zeroconf.add_service_listener) with slow callbacks has
    events queued; the instance is shut down from its own loop (`async_close`) or from an executor thread (`close`)"""
    from zeroconf import Zeroconf
    from zeroconf.asyncio import AsyncZeroconf

    bad = []
    events = []
    errors = []
    calls_out = []
    n_records, callback_ms, closer = case["n_records"], case["callback_ms"], case["closer"]

    async def main(rig):
        loop = asyncio.get_running_loop()
        loop.set_exception_handler(lambda l, ctx: errors.append(str(ctx.get("exception") or ctx.get("message"))[:200]))
        zc = Zeroconf(interfaces=["10.0.0.1"])
        await zc.async_wait_for_start()
        zc.add_service_listener(TB, Recorder(events, "tracked", sleep_ms=callback_ms))
        await asyncio.sleep(0.05)
        zc.engine.protocols[0].datagram_received(ptr_response(TB, ["x%d" % i for i in range(n_records)]), ("10.0.0.9", 5353))
        try:
            if closer == "async_close":
                await AsyncZeroconf(zc=zc).async_close()
            else:
                await loop.run_in_executor(None, zc.close)
        except Exception as ex:  # noqa: BLE001  -- an observation, not a harness error
            errors.append("close raised " + type(ex).__name__)
        t_ret = time.monotonic()
        await asyncio.sleep(callback_ms * n_records / 1000.0 + 0.1)
        calls_out.extend(rig.calls)
        return t_ret

    with Rig() as rig:
        t_ret = asyncio.run(main(rig))
    late = [e for e in events if e[0] > t_ret]
    if late:
        bad.append(("C17:callback-after-close", "thread-based ServiceBrowser: %d of %d listener callbacks started after %s returned (first %.0f ms late)"
                    % (len(late), len(events), closer, (late[0][0] - t_ret) * 1000)))
    if errors:
        bad.append(("C17:loop-exception", "loop exception handler called: %s" % errors[0]))
    return bad, (calls_out if closer != "async_close" else [])


def callback_close_scenario(case):
    """**D30's input class**: the listener of a browser made by `add_service_listener` calls `zc.close()` from its callback
    (the browser's own thread, a non-loop thread); afterwards the main thread closes too"""
    from zeroconf import Zeroconf

    bad = []
    events = []
    seen = []
    errors = []

    def on_add(zc_, name):
        if not seen:
            seen.append("calling")
            try:
                zc_.close()
                seen.append("returned")
            except BaseException as ex:  # noqa: BLE001
                seen.append("raised:" + type(ex).__name__)
            seen.append(time.monotonic())

    with Rig() as rig:
        zc = Zeroconf(interfaces=["10.0.0.1"])
        try:
            zc.loop.call_soon_threadsafe(zc.loop.set_exception_handler, lambda l, ctx: errors.append(str(ctx.get("exception") or ctx.get("message"))[:200]))
            infos = make_infos(case["n_services"], False)
            for info in infos:
                zc.register_service(info, cooperating_responders=True)
            expected = expected_records(infos)
            zc.add_service_listener(TB, Recorder(events, "tracked", on_add=on_add))
            time.sleep(0.05)
            n0 = len(rig.log)
            zc.loop.call_soon_threadsafe(zc.engine.protocols[0].datagram_received, ptr_response(TB, ["x0", "x1"]), ("10.0.0.9", 5353))
            deadline = time.monotonic() + 5
            while len(seen) < 3 and time.monotonic() < deadline:
                time.sleep(0.01)
            what = "close() from the callback thread of a browser made by add_service_listener"
            outcome = seen[1] if len(seen) > 1 else "never-returned"
            t_ret = seen[2] if len(seen) > 2 else time.monotonic()
            time.sleep(0.1)
            raised_join = outcome == "raised:RuntimeError"
            sub = []
            if outcome.startswith("raised:"):
                sub.append(("C17:close-call-raises:" + outcome[7:], "%s raised %s" % (what, outcome[7:])))
            elif outcome != "returned":
                sub.append(("C17:close-call-hangs", "%s did not return within 5 s" % what))
            # (a call that raised has not "returned": the sentences about what follows the return apply to a call that did)
            judge_after_close(sub, what, zc, rig, n0, t_ret, events if outcome == "returned" else [], expected, loop_goes_on=False)
            # a later close() from the main thread
            n_err = len(errors)
            close_again(sub, what, zc, rig, 1, from_thread=False)
            time.sleep(0.1)
            if errors[n_err:]:
                sub.append(("C17:loop-exception", "%s: the next close() made the loop exception handler report: %s" % (what, errors[n_err])))
            if raised_join:
                # the recorded finding: the RuntimeError out of Thread.join() and what it predicts -- the instance not shut down by
                # that call, the browser still tracked, the second _async_cancel asserting in the loop.  Anything else is fresh.
                predicted = {"C17:close-call-raises:RuntimeError", "C17:not-shut-down", "C17:tracked-browser-not-cancelled", "C17:loop-exception",
                             "C17:second-close-changes-state"}
                d30 = [s for s in sub if s[0] in predicted and (s[0] != "C17:loop-exception" or "cancel a browser that was not started" in s[1])]
                if d30:
                    bad.append((D30_SIG, "%s raised RuntimeError('cannot join current thread'); consequences: %s"
                                % (what, "; ".join(s[1] for s in d30 if s[0] != "C17:close-call-raises:RuntimeError")[:600])))
                bad += [s for s in sub if s not in d30]
            else:
                bad += sub
        finally:
            force_close(zc)
    return bad, rig.calls


def untracked_thread_browser_scenario(case):
    """**D31's input class**: `ServiceBrowser(zc, type, listener)` as in README.rst (not tracked by the instance), slow
    callbacks, state changes still queued when `close()` is called from the main thread"""
    from zeroconf import ServiceBrowser, Zeroconf

    bad = []
    events = []
    with Rig() as rig:
        zc = Zeroconf(interfaces=["10.0.0.1"])
        try:
            infos = make_infos(case["n_services"], False)
            for info in infos:
                zc.register_service(info, cooperating_responders=True)
            expected = expected_records(infos)
            browser = ServiceBrowser(zc, TB, Recorder(events, "untracked-thread", sleep_ms=30))
            time.sleep(0.05)
            zc.loop.call_soon_threadsafe(zc.engine.protocols[0].datagram_received,
                                         ptr_response(TB, ["x%d" % i for i in range(case["n_records"])]), ("10.0.0.9", 5353))
            time.sleep(0.02)
            n0 = len(rig.log)
            err = []
            try:
                zc.close()
            except BaseException as ex:  # noqa: BLE001
                err.append(type(ex).__name__)
            t_ret = time.monotonic()
            what = "close() with an untracked thread-based ServiceBrowser holding queued state changes"
            time.sleep(0.03 * case["n_records"] + 0.1)
            sub = []
            if err:
                sub.append(("C17:close-call-raises:" + err[0], "%s raised %s" % (what, err[0])))
            judge_after_close(sub, what, zc, rig, n0, t_ret, events, expected, loop_goes_on=False)
            late = [e for e in events if e[0] > t_ret]
            for s in sub:
                if s[0] == "C17:callback-after-close" and late and all(e[1] == "untracked-thread" and e[4] == browser.name for e in late):
                    bad.append((D31_SIG, "%s: %d of %d listener callbacks started after close() returned (first %.0f ms late), all on the thread of the "
                                "browser the instance does not track" % (what, len(late), len(events), (late[0][0] - t_ret) * 1000)))
                else:
                    bad.append(s)
            close_again(bad, what, zc, rig, 1, from_thread=False)
        finally:
            force_close(zc)
    return bad, rig.calls


def legacy_ttl_scenario(case):
    """a service registered **through the async API with the legacy `ttl=` argument** is still being announced (three announcements,
    60 ms apart here) when `close()` comes from an executor thread: the goodbyes (15 ms apart) are out long before `_close()` has
    joined the tracked thread-based browser (slow listener, state changes queued) and set `done` -- nothing may be announced in
    between: the announcement task must notice that the service is no longer registered"""
    from zeroconf import ServiceInfo, Zeroconf
    from zeroconf.asyncio import AsyncZeroconf

    bad = []
    events = []
    errors = []
    calls_out = []

    async def main(rig):
        loop = asyncio.get_running_loop()
        loop.set_exception_handler(lambda l, ctx: errors.append(str(ctx.get("exception") or ctx.get("message"))[:200]))
        zc = Zeroconf(interfaces=["10.0.0.1"])
        aza = AsyncZeroconf(zc=zc)
        await zc.async_wait_for_start()
        await loop.run_in_executor(None, zc.add_service_listener, TB, Recorder(events, "tracked", sleep_ms=case["callback_ms"]))
        await asyncio.sleep(0.05)
        zc.engine.protocols[0].datagram_received(ptr_response(TB, ["x%d" % i for i in range(case["n_records"])]), ("10.0.0.9", 5353))
        infos = [ServiceInfo(TA, "t%d.%s" % (i, TA), 80 + i, addresses=[socket.inet_aton("10.0.0.1")], server="ht.local.") for i in range(case["n_services"])]
        n0 = len(rig.log)
        tasks = []
        for info in infos:
            kw = {"ttl": case["ttl"]} if case.get("ttl") else {}
            tasks.append(await aza.async_register_service(info, cooperating_responders=True, **kw))   # first announcement is out; two more to come
        expected = expected_records(infos)
        await asyncio.sleep(case["close_after_ms"] / 1000.0)
        err = []

        def do_close():
            try:
                zc.close()
            except BaseException as ex:  # noqa: BLE001
                err.append(type(ex).__name__)

        await loop.run_in_executor(None, do_close)
        t_ret = time.monotonic()
        what = "close() from an executor thread while a service registered with%s ttl= is still being announced" % ("" if case.get("ttl") else "out")
        if err:
            bad.append(("C17:close-call-raises:" + err[0], "%s raised %s" % (what, err[0])))
        await asyncio.gather(*tasks, return_exceptions=True)
        judge_after_close(bad, what, zc, rig, n0, t_ret, events, expected, loop_goes_on=True, loop_errors=errors)
        await asyncio.sleep(0.2)
        late = [e for e in rig.log[n0:] if e[0] > t_ret and e[1] in ("sent", "sendto-on-closed")]
        if late and not any(b[0] == "C17:send-after-close" for b in bad):
            bad.append(("C17:send-after-close", "%s: datagram handed to a transport %.0f ms after close returned" % (what, (late[0][0] - t_ret) * 1000)))
        calls_out.extend(rig.calls)

    with Rig(fast=15, register_time=60) as rig:
        asyncio.run(main(rig))
    return bad, calls_out


def untracked_thread_browser_async_scenario(case):
    """an untracked thread-based `ServiceBrowser` on an instance that does **not** own its loop (as `AsyncZeroconf().zeroconf`), slow
    callbacks, state changes queued; `async_close()` is awaited on the loop, which goes on running afterwards"""
    from zeroconf import ServiceBrowser, Zeroconf
    from zeroconf.asyncio import AsyncZeroconf

    bad = []
    events = []
    errors = []

    async def main(rig):
        loop = asyncio.get_running_loop()
        loop.set_exception_handler(lambda l, ctx: errors.append(str(ctx.get("exception") or ctx.get("message"))[:200]))
        zc = Zeroconf(interfaces=["10.0.0.1"])
        await zc.async_wait_for_start()
        browser = ServiceBrowser(zc, TB, Recorder(events, "untracked-thread", sleep_ms=30))
        await asyncio.sleep(0.05)
        zc.engine.protocols[0].datagram_received(ptr_response(TB, ["x%d" % i for i in range(case["n_records"])]), ("10.0.0.9", 5353))
        await asyncio.sleep(0.02)
        n0 = len(rig.log)
        err = []
        try:
            await AsyncZeroconf(zc=zc).async_close()
        except Exception as ex:  # noqa: BLE001
            err.append(type(ex).__name__)
        t_ret = time.monotonic()
        what = "async_close() with an untracked thread-based ServiceBrowser holding queued state changes (instance on the application's loop)"
        await asyncio.sleep(0.03 * case["n_records"] + 0.1)
        if err:
            bad.append(("C17:close-call-raises:" + err[0], "%s raised %s" % (what, err[0])))
        sub = []
        judge_after_close(sub, what, zc, rig, n0, t_ret, events, set(), loop_goes_on=True, loop_errors=errors)
        late = [e for e in events if e[0] > t_ret]
        for s_ in sub:
            if s_[0] == "C17:callback-after-close" and late and all(e[1] == "untracked-thread" and e[4] == browser.name for e in late):
                bad.append((D31_SIG, "%s: %d of %d listener callbacks started after it returned (first %.0f ms late), all on the thread of the "
                            "browser the instance does not track" % (what, len(late), len(events), (late[0][0] - t_ret) * 1000)))
            else:
                bad.append(s_)
        browser.cancel() if browser.is_alive() else None

    with Rig() as rig:
        asyncio.run(main(rig))
    return bad, []


def close_during_startup_scenario(case):
    """**R3-C17-a's input class**: a loop-backed instance is closed -- sync `close()` from an executor thread, which does not wait for
    start-up, or `async_close()` when start-up takes longer than its 1 s wait (not generated: too slow) -- while its endpoints are still
    being created (`startup_ms`); an untracked `AsyncServiceBrowser` is listening; after start-up has had time to complete a response is
    handed to whatever socket is open"""
    from zeroconf import Zeroconf
    from zeroconf.asyncio import AsyncServiceBrowser

    bad = []
    events = []
    errors = []

    async def main(rig):
        loop = asyncio.get_running_loop()
        loop.set_exception_handler(lambda l, ctx: errors.append(str(ctx.get("exception") or ctx.get("message"))[:200]))
        zc = Zeroconf(interfaces=["10.0.0.1"])
        browser = AsyncServiceBrowser(zc, [TB], listener=Recorder(events, "untracked-async"))
        if case["close_after_ms"]:
            await asyncio.sleep(case["close_after_ms"] / 1000.0)
        started_before = bool(zc.engine.running_event.is_set())
        err = []

        def do_close():
            try:
                zc.close()
            except BaseException as ex:  # noqa: BLE001
                err.append(type(ex).__name__)

        await loop.run_in_executor(None, do_close)
        t_ret = time.monotonic()
        what = "close() from an executor thread %d ms after the instance was created (its endpoints take %d ms)" % (case["close_after_ms"], case["startup_ms"])
        if err:
            bad.append(("C17:close-call-raises:" + err[0], "%s raised %s" % (what, err[0])))
        await asyncio.sleep(case["startup_ms"] / 1000.0 + 0.15)
        eng = zc.engine
        open_now = [t for t in eng.readers if not t.transport.is_closing()]
        for proto in eng.protocols[:1]:
            if proto.transport is not None and not proto.transport.transport.is_closing():
                proto.datagram_received(ptr_response(TB, ["x0"]), ("10.0.0.9", 5353))
        await asyncio.sleep(0.1)
        late = [e for e in events if e[0] > t_ret]
        sub = []
        if open_now or eng.running_event.is_set():
            sub.append(("C17:not-shut-down", "%s: %d ms after it returned %d sockets of the instance are open and running_event is %s"
                        % (what, case["startup_ms"] + 150, len(open_now), "set" if eng.running_event.is_set() else "clear")))
        if late:
            sub.append(("C17:callback-after-close", "%s: listener callback %s %s %.0f ms after it returned" % (what, late[0][1], late[0][2], (late[0][0] - t_ret) * 1000)))
        if errors:
            sub.append(("C17:loop-exception", "%s: loop exception handler called: %s" % (what, errors[0])))
        # the recorded finding: the close returned before start-up had completed, and what is wrong afterwards is that start-up
        # completed behind it (sockets opened / running_event set / a datagram received on them).  Anything else is fresh.
        if not started_before and sub and not errors:
            bad.append((R3A_SIG, "; ".join(x[1] for x in sub)[:500]))
        else:
            bad.extend(sub)
        for t in eng.readers:
            t.transport.close()
        browser.query_scheduler.stop()

    import logging
    logging.getLogger("asyncio").setLevel(logging.CRITICAL)   # the browser's start task ends with NotRunningException, never retrieved
    with Rig(startup_delay=case["startup_ms"] / 1000.0) as rig:
        asyncio.run(main(rig))
    return bad, []


def concurrent_close_scenario(case):
    """**D34's input class** when `thread_backed`: `n_threads` threads call `close()` at (nearly) the same time on an instance
    with a registered service.  (Loop-backed: the same from executor threads; no loop thread to stop.)  Safeguard timeouts
    shortened to 0.4 s."""
    from zeroconf import Zeroconf

    bad = []
    results = []
    conc = []
    what = "%d overlapping close() calls from %d threads (%s instance)" % (case["n_threads"], case["n_threads"],
                                                                          "thread-backed" if case["thread_backed"] else "loop-backed")

    def closer(zc, k):
        threading.current_thread().name = "closer-%d" % k
        time.sleep(case["stagger_ms"] * k / 1000.0)
        t0 = time.monotonic()
        try:
            zc.close()
            results.append((k, "ok", time.monotonic() - t0, time.monotonic()))
        except BaseException as ex:  # noqa: BLE001
            results.append((k, type(ex).__name__, time.monotonic() - t0, time.monotonic()))

    def judge(zc, rig, n0, expected):
        oks = [r for r in results if r[1] == "ok"]
        sub = []
        for r in sorted(results):
            if r[1] != "ok":
                sub.append(("C17:close-call-raises:" + r[1], "%s: call #%d raised %s after %.1f s" % (what, r[0], r[1], r[2])))
        if len(results) < case["n_threads"]:
            sub.append(("C17:close-call-hangs", "%s: %d calls did not return" % (what, case["n_threads"] - len(results))))
        if oks:
            t_ret = min(r[3] for r in oks)
            judge_after_close(sub, what, zc, rig, n0, t_ret, [], expected, loop_goes_on=not case["thread_backed"])
        d34 = d34_closers(rig.calls) if case["thread_backed"] else {}
        for s in sub:
            # the recorded finding, by what happened and not by who was there: a closer is in D34's class iff the exception came out of
            # the very call the finding names (EventLoopBlocked out of unregister_all_services() / engine.close(): blocked on a coroutine
            # handed to the loop; TimeoutError / AttributeError out of _shutdown_threads()) AND another closer's _shutdown_threads() -- on
            # an instance that owns its loop thread -- stopped the loop while this closer's close() was in progress
            who = [k for k, v in d34.items() if ("call #%d raised %s " % (k, v)) in s[1]]
            if s[0].startswith("C17:close-call-raises:") and who:
                bad.append((D34_SIG, s[1]))
            else:
                bad.append(s)

    if case["thread_backed"]:
        with Rig(safeguard=1.0, flush=False) as rig:
            zc = Zeroconf(interfaces=["10.0.0.1"])
            try:
                infos = make_infos(case["n_services"], False)
                for info in infos:
                    zc.register_service(info, cooperating_responders=True)
                expected = expected_records(infos)
                n0 = len(rig.log)
                ts = [threading.Thread(target=closer, args=(zc, k)) for k in range(case["n_threads"])]
                for t in ts:
                    t.start()
                for t in ts:
                    t.join(20)
                judge(zc, rig, n0, expected)
                line = conc_line(rig.calls, snapshot(zc))
                if line is not None:
                    conc.append({"conc_line": line})
            finally:
                force_close(zc)
    else:
        from zeroconf.asyncio import AsyncZeroconf

        async def main(rig):
            loop = asyncio.get_running_loop()
            zc = Zeroconf(interfaces=["10.0.0.1"])
            aza = AsyncZeroconf(zc=zc)
            await zc.async_wait_for_start()
            infos = make_infos(case["n_services"], False)
            for info in infos:
                await (await aza.async_register_service(info, cooperating_responders=True))
            expected = expected_records(infos)
            n0 = len(rig.log)
            await asyncio.gather(*[loop.run_in_executor(None, closer, zc, k) for k in range(case["n_threads"])])
            judge(zc, rig, n0, expected)

        with Rig(safeguard=2.0, flush=False) as rig:
            asyncio.run(main(rig))
    return bad, conc


D34_PAIRS = {("unregister", "EventLoopBlocked"), ("engine", "EventLoopBlocked"), ("threads", "TimeoutError"), ("threads", "AttributeError")}


def d34_closers(calls):
    """closer index -> exception, for the closers (threads named `closer-<k>`) whose close() raised in the way finding D34 describes"""
    out = {}
    stops = [c for c in calls if c["call"] == "threads" and c["raised"] is None and c["before"]["loop_thread"] and "t1" in c]
    for c in calls:
        if c["raised"] is None or not c["thread"].startswith("closer-") or (c["call"], c["raised"]) not in D34_PAIRS:
            continue
        began = min(x["t0"] for x in calls if x["thread"] == c["thread"])
        if any(s_["thread"] != c["thread"] and began < s_["t1"] <= c.get("t1", 1e18) for s_ in stops):
            out[int(c["thread"].split("-")[1])] = c["raised"]
    return out


def conc_line(calls, final):
    """one `c17conc` line for a scenario with concurrent closers: every call of every closer becomes the model blocks it amounts to,
    placed where it started (what the caller's thread does: `closeCall`, the submission of `engine.close()`, the `_loop_thread` test) or
    ended (what it waited for on the loop; `closeBlocked` when it gave up) -- loop-side work of a call that succeeded is placed before
    the other closer's loop stop (it cannot have happened after it)"""
    cs = [c for c in calls if c["thread"].startswith("closer-") and "t1" in c]
    if not cs or any(c["raised"] == "AttributeError" for c in cs):
        return None
    order = []
    for c in sorted(cs, key=lambda c_: c_["t0"]):
        if c["thread"] not in order:
            order.append(c["thread"])
    idx = {t: k for k, t in enumerate(order)}
    stop_t = min([c["t1"] for c in cs if c["call"] == "threads" and c["raised"] is None and c["before"]["loop_thread"]], default=None)
    evs = []
    called = set()
    init = sorted(cs, key=lambda c_: c_["t0"])[0]["before"]
    for c in sorted(cs, key=lambda c_: c_["t0"]):
        k = idx[c["thread"]]
        loop_end = c["t1"] if (stop_t is None or c["raised"] is not None or c["t1"] < stop_t or (c["call"] == "threads")) else stop_t - 1e-6
        if c["thread"] not in called:
            called.add(c["thread"])
            evs.append((c["t0"], 0, "call %d 1" % k))
        if c["call"] == "unregister":
            if c["raised"] == "EventLoopBlocked":
                evs.append((c["t1"], 2, "bl %d 0" % k))
            elif c["raised"] is None and k == 0 and init["registry"] and init["loop_running"]:
                # (two closers may both have seen the registry full before either coroutine ran; one coroutine sent the goodbyes:
                # in the model it is the first caller's)
                evs += [(loop_end, 1, "gb %d 0" % k)] * 2
        elif c["call"] == "markdone":
            evs.append((c["t1"], 1, "md %d 0" % k))
        elif c["call"] == "engine":
            evs.append((c["t0"], 1, "sd %d 0" % k))
            if c["raised"] == "EventLoopBlocked":
                evs.append((c["t1"], 2, "bl %d 0" % k))
            elif c["raised"] is None and c["before"]["loop_running"]:
                evs += [(loop_end, 1, "sd %d 0" % k), (loop_end, 1, "fin %d 0" % k)]
        elif c["call"] == "threads":
            stopper = c["raised"] is None and c["before"]["loop_thread"] and c["t1"] == stop_t
            if stopper or c["raised"] is not None or not c["before"]["loop_thread"]:
                evs.append((c["t0"], 1, "tc %d 0" % k))
                if c["before"]["loop_thread"]:
                    evs.append((c["t1"], 1, "ts %d 0" % k))
            else:
                # it returned without stopping anything: its `if not self._loop_thread` came after the other closer had forgotten the thread
                evs.append((c["t1"], 1, "tc %d 0" % k))
    evs.sort(key=lambda e: (e[0], e[1]))
    raised = [RAISED_ALL.get(c["raised"]) for c in cs if c["raised"] is not None]
    if any(r is None for r in raised):
        return None
    return "c17conc %s %d %s %d %s %s %s %s" % (snap_tok(init), len(evs), " ".join(e[2] for e in evs), len(raised), " ".join(raised),
                                              C.b01(final["done"]), C.b01(final["loop_thread"]), C.b01(final["loop_running"]))


RAISED_ALL = {"RuntimeError": "re", "TimeoutError": "to", "EventLoopBlocked": "lb"}


# ------------------------------------------------------------------------------------------
# stage C: the four calls of Zeroconf.close() against the Lean model


def snap_tok(s):
    return "%s %s %s %s %s %d %d %d" % (C.b01(s["done"]), C.b01(s["tclosed"]), C.b01(s["cleanup"]), C.b01(s["loop_thread"]),
                                       C.b01(s["loop_running"]), s["registry"], s["zc_browsers"], s["zc_cancelled"])


RAISED = {None: "-", "RuntimeError": "re", "TimeoutError": "to"}


def sync_lines(calls):
    """one `c17sync` line per observed call"""
    lines, info = [], []
    for c in calls:
        if "conc_line" in c:
            lines.append(c["conc_line"])
            info.append({"call": "concurrent-closers", "raised": None, "caller": None, "before": None, "after": None, "goodbyes": None, "line": c["conc_line"]})
            continue
        if "after" not in c or c["raised"] not in RAISED:
            continue
        lines.append("c17sync %s %s %s %s %d %s" % (c["call"], "-" if c["caller"] is None else str(c["caller"]), snap_tok(c["before"]),
                                                     snap_tok(c["after"]), c["goodbyes"], RAISED[c["raised"]]))
        info.append(c)
    return lines, info


def gen_cases(seed):
    rng = C.rng_for(seed, "c17-threads")
    cases = []
    for variant in ("plain-thread", "other-loop-same-thread", "other-loop-worker-thread"):
        cases.append({"threads": "sync-close", "variant": variant, "n_services": rng.choice([1, 2]), "distinct_addrs": rng.random() < 0.5,
                      "tracked_browser": rng.random() < 0.5, "again": rng.choice([1, 2]), "again_from_thread": rng.random() < 0.5})
    # no service at all (the goodbye phase is empty: close goes straight to _close()), and a tracked browser for certain
    cases.append({"threads": "sync-close", "variant": "plain-thread", "n_services": 0, "distinct_addrs": False, "tracked_browser": True,
                  "again": 2, "again_from_thread": True})
    for tb in (False, True):
        cases.append({"threads": "loop-backed-close", "n_services": rng.choice([1, 2]), "distinct_addrs": rng.random() < 0.5, "tracked_browser": tb,
                      "close_after_ms": rng.choice([650, 750, 850]), "watch_ms": 700, "again": rng.choice([1, 2]), "closer_has_loop": tb})
    cases.append({"threads": "threaded-browser", "n_records": rng.choice([2, 3]), "callback_ms": 30, "closer": "async_close"})
    cases.append({"threads": "threaded-browser", "n_records": 2, "callback_ms": 30, "closer": "close-from-thread"})
    cases.append({"threads": "close-from-callback", "n_services": rng.choice([0, 1])})
    cases.append({"threads": "untracked-thread-browser", "n_services": rng.choice([0, 1]), "n_records": rng.choice([3, 4])})
    cases.append({"threads": "untracked-thread-browser-async", "n_records": rng.choice([3, 4])})
    # closed while (or just after) the endpoints are being created
    cases.append({"threads": "close-during-startup", "startup_ms": rng.choice([40, 60]), "close_after_ms": rng.choice([0, 5, 20])})
    cases.append({"threads": "close-during-startup", "startup_ms": 20, "close_after_ms": 120})
    # announcements in flight (0 / 60 / 120 ms) when close() is called; with and without the legacy ttl= argument
    cases.append({"threads": "legacy-ttl", "ttl": rng.choice([60, 120, 4500]), "n_services": rng.choice([1, 2]), "n_records": 2, "callback_ms": 300,
                  "close_after_ms": rng.choice([0, 5, 20])})
    cases.append({"threads": "legacy-ttl", "ttl": None, "n_services": 1, "n_records": 2, "callback_ms": 300, "close_after_ms": rng.choice([0, 5, 20])})
    cases.append({"threads": "concurrent-close", "thread_backed": True, "n_threads": rng.choice([2, 3]), "n_services": 1, "stagger_ms": rng.choice([0, 0, 5])})
    cases.append({"threads": "concurrent-close", "thread_backed": False, "n_threads": 2, "n_services": 1, "stagger_ms": rng.choice([0, 5])})
    return cases


def run(res, ctx, violate):
    """all thread scenarios (a fixed set + seed-chosen parameters); ~10 s of wall time"""
    import logging

    logging.getLogger("asyncio").setLevel(logging.CRITICAL)   # "Task was destroyed but it is pending" of loops stopped under a pending close (D34)
    acc = []
    for case in gen_cases(ctx["seed"]):
        bad, calls = run_one(case, with_calls=True)
        res.evaluations += 1
        label = case["threads"] + "/" + str(case.get("variant") or case.get("closer") or ("thread-backed" if case.get("thread_backed") else ""))
        res.count("threads:" + label)
        res.nontriv("threads/%s/%s/%s" % (label, case.get("n_services"), bool(case.get("tracked_browser"))))
        for t_ in case.pop("_timers_left", []):
            res.count("threads:handle-still-scheduled-after-close:" + t_)
        for sig, what in bad:
            violate(res, sig, what, {"case": case})
        acc.append((case, calls))
    if not ctx["driver_ok"]:
        return
    lines, spans = [], []
    for case, calls in acc:
        ls, info = sync_lines(calls)
        spans.append((case, info, len(lines)))
        lines += ls
    if not lines:
        return
    try:
        out = C.run_driver(lines)
    except C.DriverUnavailable as ex:
        res.notes.append("driver unavailable: %s" % ex)
        return
    for case, info, a in spans:
        for k, c in enumerate(info):
            res.count("sync-close-call:" + c["call"] + ("/raised" if c["raised"] else ""))
            if out[a + k] != "ok" and c["call"] == "concurrent-closers":
                # the total order handed to the model is *reconstructed* from the start and end instants of the calls (loop-side work of
                # a call is placed by rule, see `conc_line`); under heavy machine load an interleaving the rule misplaces is possible.
                # The rejected line is kept in the evidence notes; the scenario is observed again (twice at most) and only a scenario
                # rejected every time is a disagreement.
                res.count("conc-replay-rejected-once")
                res.notes.append("c17conc rejected (%s): %s" % (out[a + k], c.get("line")))
                again = "rejected"
                for _ in range(2):
                    _bad, calls2 = run_one(dict(case), with_calls=True)
                    ls2, _info2 = sync_lines(calls2)
                    if ls2 and all(x == "ok" for x in C.run_driver(ls2)):
                        again = "ok"
                        break
                if again == "ok":
                    continue
            if out[a + k] != "ok":
                res.disagree("c17sync", {"case": case, "call": {x: c[x] for x in ("call", "caller", "before", "after", "goodbyes", "raised")}},
                             "observed", out[a + k])
                break


def run_one(case, with_calls=False):
    kind = case["threads"]
    if kind == "sync-close":
        bad, calls = thread_backed_scenario(dict({"again": 1}, **case))
    elif kind == "loop-backed-close":
        bad, calls = loop_backed_scenario(case)
    elif kind == "threaded-browser":
        bad, calls = threaded_browser_scenario(case)
    elif kind == "close-from-callback":
        bad, calls = callback_close_scenario(case)
    elif kind == "untracked-thread-browser":
        bad, calls = untracked_thread_browser_scenario(case)
    elif kind == "untracked-thread-browser-async":
        bad, calls = untracked_thread_browser_async_scenario(case)
    elif kind == "legacy-ttl":
        bad, calls = legacy_ttl_scenario(case)
    elif kind == "close-during-startup":
        bad, calls = close_during_startup_scenario(case)
    else:
        bad, calls = concurrent_close_scenario(case)
    return (bad, calls) if with_calls else bad
