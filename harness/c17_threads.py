"""C17, the part of the quantifier the virtual-time simulator cannot host: real threads.

`close()` "from a non-loop thread" and the thread-based `ServiceBrowser` run on real threads and real (shortened)
time here: the instance's sockets are replaced by recording transports on a *real* asyncio loop, the protocol timing
constants of `_core` are shortened, and each scenario lasts a few hundred milliseconds of wall time.

What is deterministic: the verdicts on a correct tree (every wait in the library is a join / a blocking
`run_coro_with_timeout`, so "before close returned" is decided by program order, not by timing); the scenarios
themselves (no randomness beyond the seed-chosen variant parameters).  What is not: wall-clock instants (only
compared against the moment close returned, with the library's own joins making the order certain), and the exact
number of callbacks a *defective* tree delivers late (the listener callbacks sleep 30 ms each so that at least one
is late with a wide margin).
"""
from __future__ import annotations

import asyncio
import socket
import threading
import time
from unittest import mock

from . import common as C  # noqa: F401  (sys.path)

TA = "_a._tcp.local."
TB = "_b._tcp.local."
MDNS = "224.0.0.251"


class RTTransport(asyncio.DatagramTransport):
    """recording transport on a real loop"""

    def __init__(self, loop, sock, protocol, log):
        super().__init__()
        self.loop, self.sock, self.protocol, self.log = loop, sock, protocol, log
        self.closed = False

    def get_extra_info(self, name, default=None):
        return self.sock if name == "socket" else default

    def sendto(self, data, addr=None):
        self.log.append((time.monotonic(), "sent" if not self.closed else "sendto-on-closed", bytes(data), addr))

    def close(self):
        if not self.closed:
            self.closed = True
            self.log.append((time.monotonic(), "transport-closed", b"", None))
            self.loop.call_soon(self.protocol.connection_lost, None)

    def abort(self):
        self.log.append((time.monotonic(), "transport-aborted", b"", None))
        self.close()

    def is_closing(self):
        return self.closed


class Rig:
    """patches that give every Zeroconf instance created inside `with Rig() as rig:` fake sockets and short timers"""

    def __init__(self, fast=15):
        self.log = []
        self.fast = fast
        self.patches = []

    def __enter__(self):
        from . import vsim
        import zeroconf._core as core
        import zeroconf._engine as eng
        from zeroconf._listener import AsyncListener
        from zeroconf._transport import make_wrapped_transport

        rig = self
        n = [0]

        def create_sockets(*a, **k):
            n[0] += 2
            return vsim.FakeSock(100 + n[0], ("0.0.0.0", 5353)), [vsim.FakeSock(101 + n[0], ("10.0.0.1", 5353))]

        async def create_endpoints(self_):
            loop = self_.loop
            readers, senders = [], []
            if self_._listen_socket:
                readers.append(self_._listen_socket)
            for s in self_._respond_sockets:
                if s not in readers:
                    readers.append(s)
                senders.append(s)
            for s in readers:
                await asyncio.sleep(0)
                proto = AsyncListener(self_.zc)
                tr = RTTransport(loop, s, proto, rig.log)
                proto.connection_made(tr)
                self_.protocols.append(proto)
                self_.readers.append(make_wrapped_transport(tr))
                if s in senders:
                    self_.senders.append(make_wrapped_transport(tr))

        self.patches = [
            mock.patch.object(core, "create_sockets", create_sockets),
            mock.patch.object(eng.AsyncEngine, "_async_create_endpoints", create_endpoints),
            mock.patch.object(core, "_CHECK_TIME", self.fast),
            mock.patch.object(core, "_REGISTER_TIME", self.fast),
            mock.patch.object(core, "_UNREGISTER_TIME", self.fast),
        ]
        for p in self.patches:
            p.start()
        return self

    def __exit__(self, *a):
        for p in self.patches:
            p.stop()


def rec_keys(data, ttl0):
    from zeroconf import DNSIncoming

    m = DNSIncoming(data)
    out = set()
    if m.valid and not m.is_query():
        for r in m.answers():
            if (int(r.ttl) == 0) == ttl0:
                tok = C.rec_line(r, created=0).split()
                out.add(" ".join(tok[:4] + tok[7:]))
    return out


def sync_close_scenario(variant, n_services, distinct_addrs):
    """thread-backed instance (created with no running loop), services registered through the blocking API, then the
    blocking `close()` from: a plain thread / a coroutine of another event loop running in the calling thread / a
    worker thread that runs its own event loop"""
    from zeroconf import ServiceInfo, Zeroconf

    bad = []
    with Rig() as rig:
        zc = Zeroconf(interfaces=["10.0.0.1"])
        try:
            infos = [ServiceInfo(TA, "t%d.%s" % (i, TA), 80 + i, addresses=[socket.inet_aton("10.0.%d.1" % (i if distinct_addrs else 0))],
                                 server="ht.local.") for i in range(n_services)]
            for info in infos:
                zc.register_service(info, cooperating_responders=True)
            expected = set()
            for info in infos:
                for r in [info.dns_pointer(), info.dns_service(), info.dns_text()] + list(info.get_address_and_nsec_records()):
                    tok = C.rec_line(r, created=0).split()
                    expected.add(" ".join(tok[:4] + tok[7:]))
            n0 = len(rig.log)
            err = []

            def do_close():
                try:
                    zc.close()
                except BaseException as ex:  # noqa: BLE001
                    err.append(type(ex).__name__)

            if variant == "plain-thread":
                do_close()
            elif variant == "other-loop-same-thread":
                async def app():
                    assert asyncio.get_running_loop() is not zc.loop
                    do_close()
                asyncio.run(app())
            else:  # "other-loop-worker-thread"
                def worker():
                    async def app():
                        do_close()
                    asyncio.run(app())
                t = threading.Thread(target=worker)
                t.start()
                t.join(30)
            t_ret = time.monotonic()
            time.sleep(0.12)
            log = rig.log[n0:]
            if err:
                bad.append(("C17:close-call-raises:" + err[0], "close() (%s) raised %s" % (variant, err[0])))
            t_closed = min([e[0] for e in log if e[1] == "transport-closed"], default=None)
            gone = set()
            for e in log:
                if e[1] == "sent" and (t_closed is None or e[0] <= t_closed):
                    gone |= rec_keys(e[2], True)
            missing = sorted(expected - gone)
            if missing:
                sig = "C17:registered-before-close-no-goodbye" if len(missing) == len(expected) else "C17:registered-service-record-not-withdrawn"
                bad.append((sig, "close() from %s: %d of %d records of the registered services were never sent with TTL 0 before the transports closed"
                            % (variant, len(missing), len(expected))))
            late = [e for e in log if e[0] > t_ret and e[1] in ("sent", "sendto-on-closed")]
            if late:
                bad.append(("C17:send-after-close", "close() from %s: datagram handed to a transport %.0f ms after close returned" % (variant, (late[0][0] - t_ret) * 1000)))
            if any(e[1] == "transport-aborted" for e in log):
                bad.append(("C17:transport-aborted", "close() from %s aborted the transports instead of closing them" % variant))
            if not zc.done or t_closed is None:
                bad.append(("C17:not-shut-down", "close() from %s: done=%s transports closed=%s" % (variant, zc.done, t_closed is not None)))
        finally:
            if not zc.done:
                try:
                    zc.close()
                except Exception:  # noqa: BLE001
                    pass
    return bad


def threaded_browser_scenario(n_records, callback_ms, closer):
    """loop-backed instance; a thread-based ServiceBrowser (Zeroconf.add_service_listener) with slow callbacks has
    events queued; the instance is shut down from its own loop (`async_close`) or, for comparison, the browser is
    cancelled through `remove_service_listener` first"""
    from zeroconf import DNSOutgoing, ServiceListener, Zeroconf, const
    from zeroconf._dns import DNSPointer
    from zeroconf.asyncio import AsyncZeroconf

    bad = []
    events = []

    class Slow(ServiceListener):
        def add_service(self, zc, t, n):
            time.sleep(callback_ms / 1000.0)
            events.append((time.monotonic(), "add", n))

        def remove_service(self, zc, t, n):
            events.append((time.monotonic(), "rem", n))

        def update_service(self, zc, t, n):
            events.append((time.monotonic(), "upd", n))

    errors = []

    async def main():
        loop = asyncio.get_running_loop()
        loop.set_exception_handler(lambda l, ctx: errors.append(str(ctx.get("exception") or ctx.get("message"))[:200]))
        zc = Zeroconf(interfaces=["10.0.0.1"])
        await zc.async_wait_for_start()
        zc.add_service_listener(TB, Slow())
        await asyncio.sleep(0.05)
        out = DNSOutgoing(const._FLAGS_QR_RESPONSE | const._FLAGS_AA)
        for i in range(n_records):
            out.add_answer_at_time(DNSPointer(TB, const._TYPE_PTR, const._CLASS_IN, 4500, "x%d.%s" % (i, TB)), 0)
        zc.engine.protocols[0].datagram_received(out.packets()[0], ("10.0.0.9", 5353))
        try:
            if closer == "async_close":
                await AsyncZeroconf(zc=zc).async_close()
            else:
                await loop.run_in_executor(None, zc.close)
        except Exception as ex:  # noqa: BLE001  -- an observation, not a harness error
            errors.append("close raised " + type(ex).__name__)
        t_ret = time.monotonic()
        await asyncio.sleep(callback_ms * n_records / 1000.0 + 0.1)
        return t_ret

    with Rig():
        t_ret = asyncio.run(main())
    late = [e for e in events if e[0] > t_ret]
    if late:
        bad.append(("C17:callback-after-close", "thread-based ServiceBrowser: %d of %d listener callbacks ran after %s returned (first %.0f ms late)"
                    % (len(late), len(events), closer, (late[0][0] - t_ret) * 1000)))
    if errors:
        bad.append(("C17:loop-exception", "loop exception handler called: %s" % errors[0]))
    return bad


def run(res, ctx, violate):
    """all thread scenarios (a fixed small set + seed-chosen parameters); ~2 s of wall time"""
    rng = C.rng_for(ctx["seed"], "c17-threads")
    cases = []
    for variant in ("plain-thread", "other-loop-same-thread", "other-loop-worker-thread"):
        cases.append({"threads": "sync-close", "variant": variant, "n_services": rng.choice([1, 2]), "distinct_addrs": rng.random() < 0.5})
    cases.append({"threads": "threaded-browser", "n_records": rng.choice([2, 3]), "callback_ms": 30, "closer": "async_close"})
    cases.append({"threads": "threaded-browser", "n_records": 2, "callback_ms": 30, "closer": "close-from-thread"})
    for case in cases:
        bad = run_one(case)
        res.evaluations += 1
        res.count("threads:" + case["threads"] + "/" + str(case.get("variant") or case.get("closer")))
        res.nontriv("threads/%s/%s" % (case["threads"], case.get("variant") or case.get("closer")))
        for sig, what in bad:
            violate(res, sig, what, {"case": case})


def run_one(case):
    if case["threads"] == "sync-close":
        return sync_close_scenario(case["variant"], case["n_services"], case["distinct_addrs"])
    return threaded_browser_scenario(case["n_records"], case["callback_ms"], case["closer"])
