"""C15 -- a running instance survives any datagram stream.

Stage O (the property's own sentences on the implementation): a real `Zeroconf` instance with registered
services, two browsers (a `ServiceListener` and a handler) and a service-info lookup in progress runs under the
virtual-time simulator; a hostile datagram stream (C02's generators: random bytes, wire-built and
encoder-built messages plain and mutated, pointer graphs and chains; mutated copies of the instance's own
captured traffic; well-formed queries/responses about the instance's names; the D8 / D8b label shapes;
oversize datagrams; runs of 3-12 byte-identical copies of one well-formed query at gaps 300/900/999/1000/1001 ms from several legacy-unicast
sources; valid announce / goodbye / goodbye+live / live+goodbye / live+live datagrams about one instance of the browsed type; bursts of
valid QM queries at gaps around 0/50/400/450/480 ms that fill the aggregation queue) is delivered from mDNS and non-mDNS source ports at random gaps.  Observed: every
exception that leaves `datagram_received`, every context that reaches the loop exception handler, that an
oversize datagram changes nothing, and after the stream the two canaries: a well-formed query is answered,
a well-formed announcement produces `Added` in both browsers; the lookup task ends without an exception.
Also, per datagram, the property's root-cause predicate: every name the decoder hands out can be written back
by the encoder (`C15:unencodable-name`).

Stage C: every `datagram_received` / TC-timer block of every run is replayed through the Lean host model
(`Zc.Survive`, driver command `c15run`): where the datagram went (oversize / duplicate / invalid / response /
no entries / responded:n / deferred / deferred-same) and which exception, if any, left the block must agree;
`c15bm` compares the loop counters of `_read_bitmap` (while-iterations, bitmap bytes scanned; measured with a line tracer) with the
model's (`C15_bitmap_work`: linear per call); `c15enc` compares the model's `encodable` predicate (decoder + Utf8 + encoder label limit) with what the
library's `DNSOutgoing.write_name` does with the decoded names.
"""
from __future__ import annotations

import asyncio
import socket
import struct
import sys
import time

from . import common as C

TRACE = True
TRUSTED = [
    "virtual-time simulator (harness/vsim.py): fake transports, integer-millisecond clock.  Five cases in six: one IPv4 socket (IPv6 sources are delivered to its "
    "listener as 4-tuples with flow info and scope id; replies to them are not sent by an IPv4 transport).  One case in six: a dual-stack host (IPv6 wildcard listen "
    "socket, IPv4 and IPv6 respond sockets, sendto as the kernel treats link-local destinations: EINVAL without a scope id).  Other OSErrors of real sockets are not modelled",
    "the closed composite (Zc.Survive.Closed.hstepD over `down` and `downQ`) is hand-written and tied to the code block by block: datagram / TC-timer blocks of the main "
    "stream through the host model with a scripted downstream (`c15run`: destination, exception, timers, deferred counts); the API stream through the whole composite over "
    "both downstreams (`c15api`, `c15apiq`: callbacks, registry keys, has_entries, cache size, browsers, lookups, user-listener call counts; 12 of the 20 block kinds); "
    "`c15inv`: eleven clauses of the invariant on states extracted from the real instance.  NOT compared with Lean: bytes and destinations of what is sent (judged by "
    "stage O: canaries and every well-formed query of the stream), scheduler / outgoing-queue / question-history state.  Block kinds browserFire, lookupQuery, flush, "
    "schedStart, serviceSend, waitNotify, waitRecords, waitTimeout are theorem-only: the real timers and tasks run under stage O, their model blocks are not replayed",
    "application callbacks are data of the model (user RecordUpdateListener methods: hypothesis UserOK; browser handlers: outputs of a block) and blocks are atomic: an API "
    "call made from inside a callback is outside the model",
    "scope ids are dropped by the model; `_without_scope_id`, `_get_unique_ignoring_scope`, `async_send` / `can_send_to` run under stage O only",
    "text layer of names: '.'.join(labels) followed by split('.') is modelled as splitting every decoded label at U+002E (compared per datagram by `c15enc`; `TextGlue` is a theorem)",
    "logging is not modelled; one case in eight runs with the `zeroconf` logger at DEBUG, so the `if debug:` branches execute under stage O",
    "the watchdog measures CPU time of the process (wall-clock backstop 20 x): a call that blocks without computing for less than that is not reported",
]
ASSUMPTIONS = [
    "'keeps working', queries: EVERY well-formed query of the stream and after it (plain names, not truncated, not a probe, not byte-identical to a datagram of the "
    "last second, no truncated packets of its address pending, IPv4 source with a port) is owed every record of a registered service that answers one of its questions "
    "and of which it lists no known answer; each must be sent by multicast or by unicast to the asker within 3 s (aggregation <= 620 ms, protected second <= 1 s + 620 ms). "
    "After the stream: QM PTR (aggregated path), QM SRV (immediate path), QU SRV for a just-multicast record, QM inside the protected second, legacy QU",
    "'keeps working', announcements: an announcement of a never-seen instance gives Added in every browser of that type at once (asyncio browsers, and the threaded "
    "ServiceBrowser within 30 s of wall clock); after an announcement of the instance that was announced/withdrawn/re-announced inside the stream every browser's latest "
    "Added/Removed callback for it is Added; the lookup task ends normally",
    "'no exception escapes into the event loop' = nothing propagates out of datagram_received and the loop's exception handler is never called (timers armed by datagram processing included)",
    "'ignored' for an oversize datagram = no datagram sent, no callback, listener memory, cache and timers unchanged",
    "'registered services' = 1-2 services from seven profiles: one IPv4 / IPv4+IPv6 / several addresses of each family / IPv6 only / no server argument; ASCII, non-ASCII "
    "and 63-byte names; k=v, empty, binary and ~2.9 kB TXT",
]

# ------------------------------------------------------------------------------------------
# watchdog: no call into the library may block the check


class HangDetected(BaseException):
    """raised by the watchdog inside a call into the library that did not return (an unbounded loop on a defective tree);
    a BaseException, so that no `except Exception` of the library or of the harness swallows it"""


# Budgets are CPU time of this process (ITIMER_VIRTUAL, as wp-C02FIX's step watchdog in harness/c02.py): a loaded machine -- Lean building on
# every core next to the check -- stretches wall clock, not CPU time, so it cannot make a correct tree look hung (review 3).  A call that
# blocks without burning CPU is caught by a wall-clock backstop twenty times as long.
HANG_S = 5.0      # CPU seconds for one datagram_received / decoder / encoder call (they take milliseconds; a 12-datagram flood with 480 records ~ 50 ms;
                  # a full garbage collection that happens to start inside the call can take over a second late in a thorough run)
CASE_S = 45.0     # CPU seconds for one whole simulated case (they take 20-300 ms)
WALL_FACTOR = 20.0
_guards = []


def _arm():
    import signal
    cpu = min(g.cpu_deadline for g in _guards) - time.process_time()
    wall = min(g.wall_deadline for g in _guards) - time.time()
    signal.setitimer(signal.ITIMER_VIRTUAL, max(cpu, 0.001))
    signal.setitimer(signal.ITIMER_REAL, max(wall, 0.001))


def _alarm(signum, frame):
    nowc, noww = time.process_time(), time.time()
    hit = False
    f = frame
    while f is not None:
        if f.f_code.co_name == "__del__":
            # the interpreter is running finalizers of a garbage collection (the signal is delivered at the first bytecode after the collector's
            # C loop): that is the harness's garbage, not a loop in the library, and an exception raised here would be swallowed anyway.
            # Seen five times in one thorough run (`Exception ignored in BaseEventLoop.__del__ ... HangDetected`).  Look again shortly.
            for g in _guards:
                g.cpu_deadline = max(g.cpu_deadline, nowc + 0.5)
                g.wall_deadline = max(g.wall_deadline, noww + 0.5)
            if _guards:
                _arm()
            return
        f = f.f_back
    for g in _guards:
        if g.cpu_deadline <= nowc + 0.01 or g.wall_deadline <= noww + 0.0005:
            # re-armed: the code that is interrupted may be called again (e.g. by the event loop)
            g.cpu_deadline = nowc + g.seconds
            g.wall_deadline = noww + g.seconds * WALL_FACTOR
            g.fired += 1
            hit = True
    if _guards:
        _arm()
    if hit:
        raise HangDetected()


class Guard:
    """`with Guard(seconds):` -- SIGVTALRM after `seconds` of CPU time inside the block (SIGALRM after 20 x `seconds` of wall clock);
    guards nest (the earliest deadlines are armed)"""

    def __init__(self, seconds):
        self.seconds = seconds
        self.fired = 0
        self.on = False

    def __enter__(self):
        import signal
        import threading
        if threading.current_thread() is not threading.main_thread():
            return self
        self.on = True
        self.cpu_deadline = time.process_time() + self.seconds
        self.wall_deadline = time.time() + self.seconds * WALL_FACTOR
        if not _guards:
            self.old = (signal.signal(signal.SIGVTALRM, _alarm), signal.signal(signal.SIGALRM, _alarm))
        _guards.append(self)
        _arm()
        return self

    def __exit__(self, *a):
        import signal
        if not self.on:
            return False
        _guards.remove(self)
        if _guards:
            _arm()
        else:
            signal.setitimer(signal.ITIMER_VIRTUAL, 0)
            signal.setitimer(signal.ITIMER_REAL, 0)
            signal.signal(signal.SIGVTALRM, self.old[0])
            signal.signal(signal.SIGALRM, self.old[1])
        return False


TA = "_a._tcp.local."
TB = "_b._tcp.local."
SELF_IP = "10.0.0.1"
PEER = "10.0.0.2"
IPS = ["10.9.9.9", PEER, SELF_IP, "10.9.9.9"]
PORTS = [5353, 5353, 5353, 40000, 53, 1, 65535, 0]
SRC6 = [("fe80::2", 5353, 0, 3), ("fe80::2", 5353, 0, 0), ("fe80::9", 5353, 0, 3), ("fe80::a", 40000, 0, 2), ("fe80::b", 5353, 7, 0), ("2001:db8::1", 5353, 0, 0), ("fe80::c", 53, 0, 9)]
GAPS = [0, 0, 0, 1, 5, 50, 120, 300, 450, 999, 1000, 1200, 5000, 11000]
MAXLEN = 8966


# ------------------------------------------------------------------------------------------
# wire helpers


def wname(labels, tail=b"\x00"):
    return b"".join(bytes([len(l)]) + l for l in labels) + tail


def labels_of(name):
    return [l.encode() for l in name.rstrip(".").split(".")]


def hdr(id_, flags, nq, nan=0, nau=0, nad=0):
    return struct.pack(">HHHHHH", id_, flags, nq, nan, nau, nad)


def q(name_labels, qtype, qclass=1, tail=b"\x00"):
    return wname(name_labels, tail) + struct.pack(">HH", qtype, qclass)


def rr(owner, rtype, rclass, ttl, rdata):
    return owner + struct.pack(">HHIH", rtype, rclass, ttl, len(rdata)) + rdata


def d8_packet(k, answerable=TA, idq=7):
    """legacy-unicast shaped query: first question has a label of k x 0xFF (or, for a bytes `k`, that label), second is answerable"""
    lab = k if isinstance(k, bytes) else b"\xff" * k
    return hdr(idq, 0, 2) + q([lab, b"local"], 12) + q(labels_of(answerable), 12)


# labels around the 63-byte limit of the re-encoded text: 63 (fits), 64 (one too many), and plain 63 / 62 byte ASCII
EDGE_LABELS = [b"\xff" * 21, b"\xff" * 21 + b"a", b"a" + b"\xff" * 21, b"\xff" * 20 + b"abc", b"\xff" * 20 + b"abcd", b"a" * 63, b"a" * 62,
               "é".encode() * 31 + b"a", ("日" * 21).encode(), b"\xff" * 22]


def d8b_packet(k, typ=TB):
    """response: PTR typ -> <k x 0xFF>.typ (alias label not valid UTF-8)"""
    owner = wname(labels_of(typ))
    lab = k if isinstance(k, bytes) else b"\xff" * k
    rdata = bytes([len(lab)]) + lab + b"\xc0\x0c"
    return hdr(0, 0x8400, 0, 1) + rr(owner, 12, 1, 4500, rdata)


def announce_packet(inst, typ, host, ip, port=81, ttl=4500, host_ttl=120, txt=b"\x03k=v"):
    """a well-formed announcement (PTR, SRV, TXT, A) built at wire level"""
    t = wname(labels_of(typ))
    i = wname([inst.encode()], b"\xc0\x0c")
    h = wname(labels_of(host))
    recs = [rr(t, 12, 1, ttl, i)]
    at_inst = 12 + len(t) + 10
    pi = struct.pack(">H", 0xC000 | at_inst)
    recs.append(rr(pi, 33, 0x8001, host_ttl, struct.pack(">HHH", 0, 0, port) + h))
    recs.append(rr(pi, 16, 0x8001, ttl, txt))
    recs.append(rr(h, 1, 0x8001, host_ttl, socket.inet_aton(ip)))
    return hdr(0, 0x8400, 0, len(recs)) + b"".join(recs)


def own_records(infos):
    """the records the instance owns, as (owner name, type, rdata, ttl): PTR, SRV, TXT, every A / AAAA, and the NSEC records the responder
    builds for a host without IPv4 / without IPv6 addresses -- the material of known answers (review 3: known answers were PTR / SRV only,
    so the address / scoped-address / NSEC branches of known-answer suppression never ran)"""
    out = []
    for i in infos:
        server = i.server or i.name
        out.append((i.type, 12, wname(labels_of(i.name)), 4500))
        if ("_services._dns-sd._udp.local.", 12, wname(labels_of(i.type)), 4500) not in out:
            out.append(("_services._dns-sd._udp.local.", 12, wname(labels_of(i.type)), 4500))
        out.append((i.name, 33, struct.pack(">HHH", i.priority, i.weight, i.port or 0) + wname(labels_of(server)), 120))
        out.append((i.name, 16, i.text or b"\x00", 4500))
        kinds = set()
        from zeroconf import IPVersion
        for a in i.addresses_by_version(IPVersion.All):      # (`.addresses` is the IPv4 ones only)
            kinds.add(len(a))
            out.append((server, 1 if len(a) == 4 else 28, bytes(a), 120))
        if 16 not in kinds:
            out.append((i.name, 47, wname(labels_of(i.name)) + bytes([0, 4, 0, 0, 0, 8]), 120))
        if 4 not in kinds:
            out.append((i.name, 47, wname(labels_of(i.name)) + bytes([0, 1, 0x40]), 120))
    return out


def known_answer(rng, own):
    """one known answer: a record the instance owns (or nearly: another address / a flipped rdata byte), at a TTL around half of the real one"""
    owner, t, rdata, ttl = rng.choice(own)
    if rng.random() < 0.2 and rdata:
        k = rng.randrange(len(rdata))
        rdata = rdata[:k] + bytes([rdata[k] ^ (1 << rng.randrange(8))]) + rdata[k + 1:]
    if rng.random() < 0.15:
        owner = owner.upper()
    return rr(wname(labels_of(owner)), t, rng.choice([1, 0x8001]), rng.choice([0, 1, ttl // 2 - 1, ttl // 2, ttl // 2 + 1, ttl, ttl]), rdata)


def query_packet(rng, names, own=None):
    """a well-formed query about the instance's own names"""
    nq = rng.choice([1, 1, 1, 2, 3])
    flags = rng.choice([0, 0, 0, 0x0200, 0x0100])
    body = b""
    for _ in range(nq):
        n = rng.choice(names)
        if rng.random() < 0.3:
            n = n.upper() if rng.random() < 0.5 else n.swapcase()
        body += q(labels_of(n), rng.choice([12, 12, 33, 16, 1, 28, 255, 47]), rng.choice([1, 1, 0x8001]))
    nan = 0
    if rng.random() < (0.45 if own else 0.3):
        if own and rng.random() < 0.8:
            # known answers of every type the instance owns: PTR, SRV, TXT, A, AAAA, NSEC
            nan = rng.choice([1, 1, 2, 3])
            for _ in range(nan):
                body += known_answer(rng, own)
        else:
            # a known answer: PTR TA -> s1.TA at some TTL
            body += rr(wname(labels_of(TA)), 12, 1, rng.choice([0, 1, 2249, 2250, 2251, 4500]), wname(labels_of("s1." + TA)))
            nan = 1
    nau = 0
    if rng.random() < 0.1:
        body += rr(wname(labels_of("s1." + TA)), 33, 1, 120, struct.pack(">HHH", 0, 0, 80) + wname(labels_of("other.local.")))
        nau = 1
    # 16-bit boundary ids as well (the id is echoed into unicast replies)
    id_ = rng.choice([rng.randrange(65536), rng.randrange(65536), 0, 1, 127, 128, 129, 255, 256, 0x7FFF, 0x8000, 0xFFFF])
    return hdr(id_, flags, nq, nan, nau) + body


def resp_packet(rng, hostile):
    """a well-formed response about the browsed type / the looked-up name; `hostile` puts undecodable labels into names"""
    def lab():
        if hostile:
            return rng.choice([b"\xff" * 21, b"\xff" * 22, b"\xff" * 30, b"\xff" * 63, b"a" * 63, b"\xe6\x97" * 20, b"a.b", b".", b"\xc3" + b"a" * 61,
                               ("日" * 21).encode(), b"\xf0\x9f\x98" * 21])
        return rng.choice([b"x", b"inst", b"y" * 63, "café".encode(), b"X"])
    t = wname(labels_of(TB))
    recs = []
    for _ in range(rng.choice([1, 1, 2, 4])):
        k = rng.choice(["ptr", "ptr", "srv", "txt", "a", "aaaa", "nsec", "ptr0"])
        inst = wname([lab()], b"\xc0\x0c")
        host = wname([lab() if rng.random() < 0.5 else b"hb", b"local"])
        if k == "ptr":
            recs.append(rr(t, 12, 1, rng.choice([1, 120, 4500]), inst))
        elif k == "ptr0":
            recs.append(rr(t, 12, 1, 0, inst))
        elif k == "srv":
            recs.append(rr(inst, 33, 0x8001, 120, struct.pack(">HHH", 0, 0, 80) + host))
        elif k == "txt":
            recs.append(rr(inst, 16, 0x8001, 4500, rng.choice([b"", b"\x00", b"\x03k=v", b"\xff" * 9])))
        elif k == "a":
            recs.append(rr(host, 1, 0x8001, 120, bytes(rng.randrange(256) for _ in range(rng.choice([4, 4, 3, 0, 16])))))
        elif k == "aaaa":
            recs.append(rr(host, 28, 0x8001, 120, bytes(rng.randrange(256) for _ in range(rng.choice([16, 16, 4, 15])))))
        else:
            recs.append(rr(host, 47, 0x8001, 120, host + b"\x00\x01\x40"))
    nq = 0
    body = b"".join(recs)
    if rng.random() < 0.1:
        nq = 1
        body = q(labels_of(TB), 12, rng.choice([1, 0x8001])) + body  # pointers of later records are now off: fine, it is a fuzz stream
    return hdr(0, rng.choice([0x8400, 0x8400, 0x8000]), nq, len(recs)) + body


def lookup_resp(rng):
    """answers for the lookup in progress (x.TB)"""
    inst = wname([b"x"] + labels_of(TB))
    host = wname([b"hx", b"local"])
    recs = []
    if rng.random() < 0.8:
        recs.append(rr(inst, 33, 0x8001, 120, struct.pack(">HHH", 0, 0, 8080) + host))
    if rng.random() < 0.8:
        recs.append(rr(inst, 16, 0x8001, 4500, b"\x03a=b"))
    # address records of the lookup's server with rdata of every length around the two legal ones (4, 16): the lookup's address branch
    # (`_process_record_threadsafe`, scoped and unscoped) sees well-formed and malformed addresses while it is listening
    for _ in range(rng.choice([0, 1, 1, 2])):
        t = rng.choice([1, 28])
        n = rng.choice([0, 3, 4, 4, 15, 16, 16, 17])
        recs.append(rr(host, t, rng.choice([0x8001, 1]), rng.choice([120, 0, 1]),
                       bytes(rng.choice([0xFE, 0x80, 0, 10, rng.randrange(256)]) for _ in range(n))))
    rng.shuffle(recs)
    return hdr(0, 0x8400, 0, len(recs)) + b"".join(recs)


def lookup_deadline_resp(rng):
    """new records for the lookup in progress (SRV with a fresh port, TXT with fresh text; no address, so the lookup keeps waiting): the stream
    does not deliver it at once but **at the wait deadline of the lookup** (kind `lookupdl`, see `w_wait` in `simulate`)"""
    inst = wname([b"x"] + labels_of(TB))
    host = wname([b"hx", b"local"])
    recs = [rr(inst, 33, 0x8001, 120, struct.pack(">HHH", 0, 0, rng.randrange(1024, 65536)) + host),
            rr(inst, 16, 0x8001, 4500, bytes([4]) + b"k=" + bytes([97 + rng.randrange(26), 97 + rng.randrange(26)]))]
    return hdr(0, 0x8400, 0, len(recs)) + b"".join(recs)


def nsec_packet(rng):
    """responses with NSEC records whose type bitmaps have the block shapes a decoder loop must get through: the block python-zeroconf
    itself emits for an IPv4-only host (window 0, length 4, AAAA bit), the same with the length byte flipped to 0 (a window block
    without a bitmap), empty blocks before / between / after non-empty ones, windows out of order, a length that runs past the rdata"""
    owner = wname(labels_of(rng.choice(["hx.local.", "ha.local.", "x." + TB])))
    blocks = rng.choice([
        [[0, 0]], [[0, 0], [0, 4, 0, 0, 0, 8]], [[0, 4, 0, 0, 0, 8], [0, 0]], [[1, 0], [0, 0]], [[0, 0], [0, 0], [0, 0]],
        [[0, 4, 0, 0, 0, 8]], [[0, 1, 0x40], [255, 0]], [[0, 32] + [0xFF] * 32, [2, 0]], [[0, 0, 0, 0]], [[0, 200, 1, 2]],
    ])
    rdata = owner + bytes(b for blk in blocks for b in blk)
    recs = [rr(owner, 47, rng.choice([0x8001, 1]), rng.choice([120, 4500, 0]), rdata)]
    if rng.random() < 0.5:
        recs.append(rr(b"\xc0\x0c", 1, 0x8001, 120, socket.inet_aton("10.0.0.7")))
    return hdr(0, 0x8400, 0, len(recs)) + b"".join(recs)


def lookup_trunc(rng):
    """a valid response for the lookup in progress (SRV x.TB -> hx.local., TXT, and a final A or AAAA record of hx.local.), cut
    at a random offset inside the rdata of the LAST record: the decoder slices silently, so the record survives with an
    address of 0..15 bytes (4 bytes parse as IPv4)"""
    inst = wname([b"x"] + labels_of(TB))
    host = wname([b"hx", b"local"])
    recs = [rr(inst, 33, 0x8001, 120, struct.pack(">HHH", 0, 0, 8080) + host)]
    if rng.random() < 0.5:
        recs.append(rr(inst, 16, 0x8001, 4500, b"\x03a=b"))
    t = rng.choice([28, 28, 28, 1])
    full = bytes([0xFE, 0x80] + [0] * 13 + [7]) if t == 28 else socket.inet_aton("10.0.0.7")
    recs.append(rr(host, t, 0x8001, 120, full))
    pkt = hdr(0, 0x8400, 0, len(recs)) + b"".join(recs)
    cut = rng.randrange(len(full) + 1)          # bytes of the last rdata that are kept: 0 .. len (len = untruncated)
    return pkt[:len(pkt) - len(full) + cut]


def parse_plain_query(data):
    """(flags, [(name, qtype, qclass)], [(name, rtype)] of the answer section, #authority) of a query whose names are written without
    compression (what `query_packet` / `burst_packets` / the canaries build); None for anything else.  Independent of the library's decoder."""
    if len(data) < 12 or len(data) > MAXLEN:
        return None
    _id, flags, nq, nan, nau, nad = struct.unpack(">HHHHHH", data[:12])
    off = 12

    def name():
        nonlocal off
        labs = []
        while True:
            if off >= len(data):
                raise ValueError
            n = data[off]
            off += 1
            if n == 0:
                return ".".join(labs) + "."
            if n > 63 or off + n > len(data):
                raise ValueError
            labs.append(data[off:off + n].decode("utf-8"))
            off += n
    try:
        qs, kas = [], []
        for _ in range(nq):
            n = name()
            t, c = struct.unpack(">HH", data[off:off + 4])
            off += 4
            qs.append((n, t, c))
        for _ in range(nan):
            n = name()
            t, c, _ttl, ln = struct.unpack(">HHIH", data[off:off + 10])
            off += 10 + ln
            if off > len(data):
                raise ValueError
            kas.append((n, t))
    except (ValueError, struct.error, UnicodeDecodeError):
        return None
    return flags, qs, kas, nau


ANSWER_WINDOW = 3000     # ms: aggregation (<= 620 ms), the protected one-second queue (<= 1 s + 620 ms), generous as the canaries' bound
MCAST_ADDRS = ("224.0.0.251", "ff02::fb")


def owed_by(own, parsed):
    """the records a responder owning `own` owes the asker of this query (RFC 6762 s.6: it answers every question it has a record for,
    unless the asker lists that record as a known answer): [(owner lower, type, rdata)].  Conservative: a record is exempt as soon as the
    query carries ANY known answer of its name and type (whatever its rdata / TTL); ANY-questions only count for PTR / SRV / TXT."""
    flags, qs, kas, nau = parsed
    known = {(n.lower(), t) for n, t in kas}
    out = []
    for (qn, qt, qc) in qs:
        if qc & 0x7FFF != 1:
            continue
        for (owner, t, rdata, _ttl) in own:
            if owner.lower() != qn.lower() or t == 47:
                continue
            if not (qt == t or (qt == 255 and t in (12, 33, 16) and owner != "_services._dns-sd._udp.local.")):
                continue          # (service type enumeration is a PTR question; the library does not treat ANY as one)
            rec = (owner.lower(), t, rdata)
            if (owner.lower(), t) not in known and rec not in out:
                out.append(rec)
    return out


CYC = "cyc"          # an instance of the browsed type that is announced / withdrawn / re-announced inside the streams
BURST_GAPS = [0, 20, 30, 50, 50, 100, 400, 450, 450, 480, 480]


def cycle_packet(rng, inst=CYC):
    """valid responses about one instance of the browsed type: announcement, goodbye, and one datagram holding the same PTR twice
    (TTL 0 and TTL > 0, both orders; two live copies with different TTLs)"""
    t = wname(labels_of(TB))
    i = wname([inst.encode()], b"\xc0\x0c")
    live = rng.choice([120, 4500, 4500])
    shape = rng.choice(["ann", "ann", "bye", "bye+live", "bye+live", "live+bye", "live+bye", "live+live", "full"])
    if shape == "full":
        return "cycle:full", announce_packet(inst, TB, "hcyc.local.", PEER, ttl=live)
    ttls = {"ann": [live], "bye": [0], "bye+live": [0, live], "live+bye": [live, 0], "live+live": [120, 4500]}[shape]
    recs = [rr(t if k == 0 else b"\xc0\x0c", 12, 1, ttl, i) for k, ttl in enumerate(ttls)]
    return "cycle:" + shape, hdr(0, 0x8400, 0, len(recs)) + b"".join(recs)


def burst_packets(rng, names):
    """3-6 valid QM queries from the mDNS port, distinct ids, at gaps around 0/50/400/450/480 ms: several answer groups in the aggregation queue"""
    out = []
    for k in range(rng.choice([3, 3, 4, 6])):
        nq = rng.choice([1, 1, 2])
        body = b""
        for _ in range(nq):
            body += q(labels_of(rng.choice([TA, TA, names[1], "_services._dns-sd._udp.local."])), rng.choice([12, 12, 16, 255]), 1)
        gap = rng.choice([1200, 5000]) if k == 0 and rng.random() < 0.6 else rng.choice(BURST_GAPS)
        out.append((gap, hdr(rng.randrange(65536), 0, nq) + body))
    return out


def big_query(rng, names):
    """a legacy-unicast (or QU) query with 150-400 questions for registered names: the reply does not fit one datagram
    (`DNSOutgoing.packets()` overflow / rollback / TC path; review 2: never executed by the other kinds)"""
    n = rng.choice([150, 250, 400])
    qs = b"".join(q(labels_of(rng.choice([TA, TA, names[1], names[2]])), rng.choice([12, 12, 33, 16, 1, 255]), rng.choice([1, 1, 0x8001]))
                  for _ in range(n))
    return hdr(rng.randrange(65536), 0, n) + qs


def flood_packets(rng):
    """6-12 responses of 30-40 PTRs of a browsed type each, aliases of 40-63 bytes (ASCII and 3-byte UTF-8), TTLs from short to 2^32-1:
    hundreds of cached pointers, so that the browsers' queries with known answers span many datagrams (multi-bucket branch, TC)"""
    out = []
    t = wname(labels_of(TB))
    for d in range(rng.choice([6, 8, 12])):
        recs = []
        for k in range(rng.choice([30, 40])):
            fill = rng.choice(["a", "\u65e5"]) * rng.choice([11, 13, 18])      # 11-18 characters of 1 or 3 bytes
            lab = (("f%02d-%02d-" % (d, k)) + fill).encode()[:63].decode("utf-8", "ignore").encode()
            recs.append(rr(t if not recs else b"\xc0\x0c", 12, 1, rng.choice([5, 120, 4500, 4500, 0xFFFFFFFF]),
                           bytes([len(lab)]) + lab + b"\xc0\x0c"))
        out.append((rng.choice([0, 5, 50]), hdr(0, 0x8400, 0, len(recs)) + b"".join(recs)))
    return out


def tc_train(rng, names):
    """3-5 distinct truncated query packets from one source, then (sometimes) the closing packet without TC: more than two deferred
    packets per address, assembled in one `handle_assembled_query`"""
    out = []
    n = rng.choice([3, 4, 5])
    for k in range(n):
        last = k == n - 1 and rng.random() < 0.6
        nq = 1 if k == 0 else rng.choice([0, 0, 1])
        body = b"".join(q(labels_of(rng.choice([TA, names[1]])), rng.choice([12, 33]), 1) for _ in range(nq))
        known = rr(wname(labels_of(TA)), 12, 1, rng.choice([4500, 2000, 10]), wname([b"s%d" % (1 + k % 2)] + labels_of(TA)))
        out.append((rng.choice([0, 10, 100, 300]), hdr(900 + k, 0 if last else 0x0200, nq, 1) + body + known))
    return out


def addr_swap(rng):
    """the lookup's server gets SRV, then A(ip1), A(ip2), A(ip1) (and the same with AAAA): the address re-ordering branch of
    `ServiceInfo._process_record_threadsafe` (remove + insert at the front)"""
    inst = wname([b"x"] + labels_of(TB))
    host = wname([b"hx", b"local"])
    out = [(0, hdr(0, 0x8400, 0, 1) + rr(inst, 33, 0x8001, 120, struct.pack(">HHH", 0, 0, 8080) + host))]
    v6 = rng.random() < 0.4
    ips = [bytes([0xFE, 0x80] + [0] * 13 + [k]) for k in (7, 8)] if v6 else [socket.inet_aton("10.0.0.%d" % k) for k in (7, 8)]
    for ip in (ips[0], ips[1], ips[0], ips[1]):
        out.append((rng.choice([0, 1, 1200]), hdr(0, 0x8400, 0, 1) + rr(host, 28 if v6 else 1, 0x8001, 120, ip)))
    return out


REP_GAPS = [300, 900, 900, 999, 1000, 1001]
REP_SRCS = [("10.9.9.9", 40000), (PEER, 40000), ("10.7.7.7", 40001), (PEER, 53), ("10.9.9.9", 40002)]

KINDS = ["addrswap", "nsec", "nsec", "lookupdl", "lookupdl", "cycle", "cycle", "cycle", "burst", "burst", "canrep", "canrep", "lookuptrunc", "lookuptrunc", "rand", "c02valid", "c02mut", "c02out", "c02outmut", "graph", "chain", "live", "livemut", "livemut", "query", "query", "querymut",
         "resp", "hostile", "hostile", "lookup", "d8", "d8b", "oversize", "repeat"]


# the "state size" family (review 2, finding 4/5): one case in forty mixes these in, so that replies, browser queries and truncated
# trains exceed one datagram / two packets (they are an order of magnitude slower to simulate than the other kinds)
KINDS_BIG = ["bigq", "bigq", "flood", "tctrain", "tctrain", "addrswap", "addrswap", "query", "resp", "lookup", "cycle", "burst", "d8b", "hostile", "livemut"]


def gen_item(rng, live, names, last, k=None, own=None):
    from . import c02

    if k is None:
        k = rng.choice([x for x in KINDS if x not in ("cycle", "burst", "bigq", "flood", "tctrain", "addrswap", "lookupdl")])
    if k in ("live", "livemut") and not live:
        k = "c02mut"
    if k == "repeat" and last is None:
        k = "query"
    if k == "rand":
        n = rng.choice([0, 1, 11, 12, 13, 17, 40, 200])
        d = bytes(rng.randrange(256) for _ in range(n))
    elif k == "c02valid":
        d = c02.gen_valid(rng)[0]
    elif k == "c02mut":
        p, w = c02.gen_valid(rng)
        d = c02.mutate(rng, p, w)
    elif k in ("c02out", "c02outmut"):
        # built with the library's own encoder: on a tree where that raises, fall back to a wire-built message (the harness must not crash)
        try:
            d = c02.gen_outgoing(rng)
        except Exception:
            d = c02.gen_valid(rng)[0]
        if k == "c02outmut":
            d = c02.mutate(rng, d)
    elif k == "graph":
        d = c02.gen_graph(rng)
    elif k == "chain":
        d = c02.chain_packet(rng.choice([1, 2, 127, 128, 129, 130, 300, 1200]), rng.random() < 0.7, rng.choice([b"\x01a\x00", b"\x00", wname(labels_of(TA))]))
    elif k == "live":
        d = rng.choice(live)
    elif k == "livemut":
        d = c02.mutate(rng, rng.choice(live))
    elif k == "query":
        d = query_packet(rng, names, own)
    elif k == "querymut":
        d = c02.mutate(rng, query_packet(rng, names, own))
    elif k == "resp":
        d = resp_packet(rng, False)
    elif k == "hostile":
        d = resp_packet(rng, True)
    elif k == "lookup":
        d = lookup_resp(rng)
    elif k == "lookuptrunc":
        d = lookup_trunc(rng)
    elif k == "d8":
        d = d8_packet(rng.choice([21, 22, 40, 63] + EDGE_LABELS), rng.choice(names), rng.randrange(65536))
    elif k == "d8b":
        d = d8b_packet(rng.choice([21, 22, 30, 63] + EDGE_LABELS), rng.choice([TB, TB, TA]))
    elif k == "nsec":
        d = nsec_packet(rng)
    elif k == "oversize":
        base = query_packet(rng, names, own)
        d = base + bytes(rng.choice([MAXLEN, MAXLEN + 1, MAXLEN + 1, 9000, 20000]) - len(base))
    else:
        d = last
    return k, bytes(d)


# what the application registered (review 3: "registered services" were one IPv4 address, ASCII names, `k=v`): the profile of a case
N_PROFILES = 7
V6_LL = bytes([0xFE, 0x80] + [0] * 13 + [1])
V6_GLOBAL = socket.inet_pton(socket.AF_INET6, "2001:db8::1")
V6_ULA = socket.inet_pton(socket.AF_INET6, "fd00::1:2")
BIN_TXT = {b"k": b"\x00\xff\xfe=\x80", "flag": None, "e": b"", "path": "/\u65e5\u672c".encode(), b"\xc3": b"\xc3\x28"}
LONG_TXT = dict([("k%02d" % j, ("v%02d" % j) * 60) for j in range(14)] + [("max", b"m" * 251)])       # ~2.9 kB; one entry of exactly 255 bytes


def service_infos(case):
    """profile 0: as before (one IPv4 address, ASCII, `k=v`); 1: dual stack; 2: several IPv4 and IPv6 addresses (link-local, global, ULA),
    binary TXT; 3: IPv6 only, non-ASCII instance and host names, multi-kB TXT; 4: dual stack, non-ASCII names, one host per service, binary TXT;
    5: no `server` argument (the host name is the instance name), two IPv4 addresses, empty TXT; 6: dual stack, long TXT, 63-byte labels"""
    from zeroconf import ServiceInfo
    p = case.get("svc", 0)
    v4, v4b = socket.inet_aton(SELF_IP), socket.inet_aton("10.0.1.1")
    out = []
    for i in range(case["n_services"]):
        if p == 0:
            kw = dict(name="s%d.%s" % (i + 1, TA), addresses=[v4], server="ha.local.", properties={"k": "v%d" % i})
        elif p == 1:
            kw = dict(name="s%d.%s" % (i + 1, TA), addresses=[v4, V6_LL], server="ha.local.", properties={"k": "v%d" % i})
        elif p == 2:
            kw = dict(name="s%d.%s" % (i + 1, TA), addresses=[v4, v4b, V6_LL, V6_GLOBAL, V6_ULA], server="ha.local.", properties=BIN_TXT)
        elif p == 3:
            kw = dict(name="caf\u00e9 \u65e5\u672c %d.%s" % (i + 1, TA), addresses=[V6_LL, V6_GLOBAL], server="h\u00e4-\u65e5.local.", properties=LONG_TXT)
        elif p == 4:
            kw = dict(name="\u2615 b\u00fcro %d.%s" % (i + 1, TA), addresses=[V6_GLOBAL, v4], server="h\u00f6st%d.local." % i, properties=BIN_TXT)
        elif p == 5:
            kw = dict(name="s%d.%s" % (i + 1, TA), addresses=[v4b, v4], server=None, properties=b"")
        else:
            kw = dict(name="%s%d.%s" % ("n" * 62, i + 1, TA), addresses=[v4, V6_LL], server="%s%d.local." % ("\u65e5" * 20 + "ab", i), properties=LONG_TXT)
        name = kw.pop("name")
        out.append(ServiceInfo(TA, name, 80 + i, **kw))
    return out


def gen_case(seed, idx):
    rng = C.rng_for(seed, "c15case", idx)
    big = idx % 40 == 7
    if big:
        return {"seed": seed, "idx": idx, "big": True, "v6": idx % 6 == 4, "threaded": idx % 5 == 2, "n_services": 2, "browse_own": rng.random() < 0.5, "lookup": True, "start": rng.choice([0, 300]),
                "maxdelay": rng.choice([0, 5]), "tail": rng.choice([2000, 20000, 400000]), "n_items": rng.choice([8, 15]), "canary_id": 4242 + idx, "svc": 1 + rng.randrange(N_PROFILES - 1)}
    return {"seed": seed, "idx": idx, "v6": idx % 6 == 4, "threaded": idx % 5 == 2, "debuglog": idx % 8 == 3, "n_services": rng.choice([1, 1, 2]), "browse_own": rng.random() < 0.4,
            "lookup": rng.random() < 0.8, "start": rng.choice([0, 0, 30, 300, 2000, 20000]), "maxdelay": rng.choice([0, 5, 20]),
            "tail": rng.choice([0, 2000, 20000, 400000, 4000000]), "n_items": rng.choice([5, 15, 30, 60]), "canary_id": 4242 + idx, "svc": rng.choice([0] + list(range(1, N_PROFILES)) * 2)}


# ------------------------------------------------------------------------------------------
# a dual-stack host: IPv6 wildcard listen socket, IPv4 and IPv6 respond sockets (review 2 finding 5; seeded C15-w5-seed3)

V6_ASKER = ("fe80::1c2d:3eff:fe4f:5a6b", 50123, 0, 3)


def make_host6(sim):
    """`create_sockets` of an `ip_version=All` instance: a listen socket bound to `[::]:5353` (flow info 0, scope id 0 -- multicast-delivered
    queries arrive here, and unicast replies leave through it), an IPv4 respond socket and an IPv6 respond socket bound to the
    interface's link-local address (scope id 3).  As on a real dual-stack wildcard socket, IPv4 peers appear as `::ffff:a.b.c.d`."""
    import errno
    from unittest import mock
    from . import vsim
    from zeroconf import IPVersion, Zeroconf
    import zeroconf._core as core

    class Sock6(vsim.FakeSock):
        def __init__(self, fileno, addr):
            super().__init__(fileno, addr)
            self.family = socket.AF_INET6

    class KTransport(vsim.FakeTransport):
        """`sendto` as the kernel treats IPv6 destinations: a link-local destination without a scope id cannot be routed from a socket
        that is not bound to an interface (EINVAL, handed to `protocol.error_received` as asyncio does); every send is logged with its
        full address tuple"""

        def sendto(self, data, addr=None):
            sn = self.sock.getsockname()
            if addr is not None and len(addr) == 4 and addr[0].lower().startswith("fe80:") and addr[3] == 0 and (len(sn) < 4 or sn[3] == 0):
                sim.v6log.append((sim.now(), tuple(addr), bytes(data), "EINVAL"))
                self.protocol.error_received(OSError(errno.EINVAL, "Invalid argument"))
                return
            if addr is not None and len(addr) == 4:
                sim.v6log.append((sim.now(), tuple(addr), bytes(data), "sent"))
            super().sendto(data, addr)

    sim.v6log = []
    host = vsim.Host(sim, "A", SELF_IP)
    sock4 = vsim.FakeSock(10, (SELF_IP, 5353))
    lsock = Sock6(11, ("::", 5353, 0, 0))
    rsock6 = Sock6(12, ("fe80::1", 5353, 0, 3))
    for x in (sock4, lsock, rsock6):
        vsim._sock_host[id(x)] = host
    host.sock, host.lsock = sock4, lsock
    patcher = mock.patch.object(vsim, "FakeTransport", KTransport)
    patcher.start()
    with mock.patch.object(core, "create_sockets", lambda *a, **k: (lsock, [sock4, rsock6])):
        host.zc = Zeroconf(interfaces=[SELF_IP], ip_version=IPVersion.All)
    return host, patcher


# ------------------------------------------------------------------------------------------
# one simulated run


def exc_name(e):
    n = type(e).__name__
    return {"error": "struct.error"}.get(n, n)


def simulate(case):
    from . import vsim
    from zeroconf import DNSIncoming, ServiceInfo, ServiceListener, ServiceStateChange
    from zeroconf.asyncio import AsyncServiceBrowser, AsyncServiceInfo
    import zeroconf._handlers.query_handler as qhm
    import zeroconf._handlers.record_manager as rmm
    import zeroconf._listener as lsm

    sim = vsim.Sim(seed=case["seed"] * 100003 + case["idx"], maxdelay=case.get("maxdelay", 0), loopback=True)
    rng = C.rng_for(case["seed"], "c15items", case["idx"])
    obs = {"fam": [], "items": [], "escapes": [], "callbacks": [], "blocks": [], "oversize": [], "live": 0, "kinds": {}}
    saved = []
    cleanup = []
    cur = {"down": None, "ucast": None}

    def patch(cls, name, fn):
        orig = getattr(cls, name)
        setattr(cls, name, fn(orig))
        saved.append((cls, name, orig))

    def w_resp(orig):
        def f(self, msg):
            if cur["down"] is not None:
                cur["down"].append("response")
            return orig(self, msg)
        return f

    def w_haq(orig):
        def f(self, packets, addr, port, transport, v6):
            if cur["down"] is not None:
                cur["down"].append("responded:%d" % len(packets))
            return orig(self, packets, addr, port, transport, v6)
        return f

    def w_response(orig):
        def f(self, msgs, ucast_source):
            r = orig(self, msgs, ucast_source)
            cur["ucast"] = bool(r is not None and r.ucast)
            return r
        return f

    def timers_of(lst):
        return sorted([a, int(round(h.when() * 1000)) - vsim.T0] for a, h in lst._timers.items())

    def deferred_of(lst):
        return sorted([a, len(v)] for a, v in lst._deferred.items() if v)

    def w_tc(orig):
        def f(self, msg, addr, port, transport, v6):
            top = msg is None and cur["down"] is None
            if top:
                cur["down"] = []
                cur["ucast"] = None
            raised = None
            try:
                return orig(self, msg, addr, port, transport, v6)
            except BaseException as e:
                raised = exc_name(e)
                raise
            finally:
                if top:
                    obs["blocks"].append({"op": "tcfire", "t": sim.now(), "addr": addr, "tag": (cur["down"] or ["none"])[0], "ucast": bool(cur["ucast"]),
                                          "raised": raised, "timers": timers_of(self), "deferred": deferred_of(self)})
                    cur["down"] = None
        return f

    class L(ServiceListener):
        def add_service(s, zc, t, n):
            obs["callbacks"].append([sim.now(), "l", "add", n])

        def remove_service(s, zc, t, n):
            obs["callbacks"].append([sim.now(), "l", "rem", n])

        def update_service(s, zc, t, n):
            obs["callbacks"].append([sim.now(), "l", "upd", n])

    def handler(zeroconf, service_type, name, state_change):
        obs["callbacks"].append([sim.now(), "h", {ServiceStateChange.Added: "add", ServiceStateChange.Removed: "rem",
                                                  ServiceStateChange.Updated: "upd"}[state_change], name])

    def w_packets(orig):
        def f(self):
            r = orig(self)
            if len(r) > 1:
                obs["multi"] = obs.get("multi", 0) + 1
            return r
        return f

    # datagrams armed for "the next wait deadline of a waiting coroutine" (kind `lookupdl`; seeded defect C15-w4-seed3): a waiter's future
    # that timed out (or was cancelled) stays in its set until the waiting task runs again; a response that wakes the same set in between
    # meets a future that is done
    dl = {"pending": [], "fire": None}

    def w_wait(orig):
        async def f(loop, future_set, timeout):
            if dl["pending"] and dl["fire"] is not None:
                from zeroconf._utils.time import millis_to_seconds
                idx, data, src = dl["pending"].pop(0)
                # the same deadline as the waiter's own timeout handle (`loop.call_later(millis_to_seconds(timeout), ...)`), scheduled BEFORE it:
                # at the deadline this callback runs first and queues the delivery with `call_soon`; the waiter's handle then marks the future
                # done; in the next loop iteration the datagram is handled before the waiting task is, i.e. while the done future is still in the set
                loop.call_later(millis_to_seconds(timeout), lambda: loop.call_soon(dl["fire"], idx, data, src))
            return await orig(loop, future_set, timeout)
        return f

    async def main(sim):
        import zeroconf._core as corem
        import zeroconf._protocol.outgoing as outm
        import zeroconf._services.info as infm
        patch(infm, "wait_for_future_set_or_timeout", w_wait)
        patch(corem, "wait_for_future_set_or_timeout", w_wait)
        patch(outm.DNSOutgoing, "packets", w_packets)
        patch(rmm.RecordManager, "async_updates_from_response", w_resp)
        patch(qhm.QueryHandler, "handle_assembled_query", w_haq)
        patch(qhm.QueryHandler, "async_response", w_response)
        patch(lsm.AsyncListener, "_respond_query", w_tc)
        v6 = case.get("v6", case["idx"] % 6 == 4)
        if v6:
            a, patcher = make_host6(sim)
            cleanup.append(patcher.stop)
        else:
            a = sim.make_host("A", SELF_IP)
        zc = a.zc
        await zc.async_wait_for_start()
        lst = zc.engine.protocols[0]      # the listener of the listen socket (dual-stack host) / of the one socket

        def map_src(src):
            # every datagram of a dual-stack host arrives on `[::]:5353`: IPv4 peers as IPv4-mapped 4-tuples
            return ("::ffff:" + src[0], src[1], 0, 0) if v6 and len(src) == 2 else tuple(src)
        live = []

        def on_send(t, srch, data, addr):
            if len(live) < 64:
                live.append(data)

        sim.net.on_send = on_send

        def snapshot():
            return (len(sim.net.log), len(obs["callbacks"]), id(lst.data), lst.last_time, id(lst.last_message), timers_of(lst), deferred_of(lst),
                    sum(len(v) for v in zc.cache.cache.values()), len(sim.draws))

        def deliver(data, src):
            """one datagram_received block, observed; returns the escaping exception's name or None"""
            if a.transport is None or a.transport.closed:
                return None
            src = map_src(src)
            before = lst.last_message
            ntimer = lst._timers.get(src[0])
            ndraw = len(sim.draws)
            entries = bool(zc.registry.has_entries)
            snap = snapshot() if len(data) > MAXLEN else None
            cur["down"] = []
            cur["ucast"] = None
            raised = None
            recent_mark = sim.now()
            try:
                with Guard(HANG_S):
                    lst.datagram_received(data, src)
            except HangDetected as e:  # ... and it must return
                raised = "HangDetected"
                cur["exc"] = e
                obs["hung"] = True
            except Exception as e:  # the property: nothing may come out of here
                raised = exc_name(e)
                cur["exc"] = e
            down, cur["down"] = cur["down"], None
            recent[data] = recent_mark
            processed = lst.last_message is not before
            if not processed:
                tag = "oversize" if len(data) > MAXLEN else ("duplicate" if raised is None else "raised-in-constructor")
            elif down:
                tag = down[0]
            elif lst._timers.get(src[0]) is not ntimer and lst._timers.get(src[0]) is not None:
                tag = "deferred:%d" % (int(round(lst._timers[src[0]].when() * 1000)) - vsim.T0)
            else:
                m = lst.last_message
                tag = "invalid" if not m.valid else ("noentries" if not entries else ("deferred-same" if m.truncated else "quiet?"))
            draws = [list(d[1:]) for d in sim.draws[ndraw:]]
            tcdraw = [d for d in draws if d[0] == 400 and d[1] == 500] if processed and tag.startswith("deferred:") else []
            obs["blocks"].append({"op": "recv", "t": sim.now(), "data": data.hex(), "addr": src[0], "port": src[1], "entries": entries,
                                  "ucast": bool(cur["ucast"]), "tcdraw": tcdraw[0][2] if tcdraw else 0, "tag": tag, "raised": raised,
                                  "timers": timers_of(lst), "deferred": deferred_of(lst)})
            if snap is not None and snapshot() != snap:
                obs["oversize"].append({"len": len(data), "t": sim.now()})
            return raised

        def host_deliver(data, src):
            # deliveries scheduled by the simulated network (the instance's own looped-back multicast): exceptions go to the loop handler
            r = deliver(data, src)
            if r is not None and r != "HangDetected":
                raise cur["exc"]

        a.deliver = host_deliver

        def dl_fire(idx, data, src):
            r = deliver(data, src)
            obs["kinds"]["lookupdl-fired"] = obs["kinds"].get("lookupdl-fired", 0) + 1
            if r is not None:
                obs["escapes"].append({"index": idx, "exc": r, "kind": "lookupdl", "len": len(data)})

        dl["fire"] = dl_fire
        recent = {}       # datagram -> time of its latest delivery (duplicate suppression window)
        inq = []

        def watch_query(idx, data, src, kind):
            """clause three INSIDE the stream (review 3): a well-formed query -- plain names, QR = 0, opcode 0, not truncated, no authority
            section (not a probe), from an IPv4 source with a port, not byte-identical to a datagram of the last second, no truncated
            packets of the same address pending -- is owed every record of the instance that answers one of its questions and is not
            listed as a known answer; each must leave the host within ANSWER_WINDOW, by multicast or by unicast to the asker"""
            if len(src) != 2 or src[1] == 0:
                return
            pq = parse_plain_query(data)
            if pq is None or pq[0] & 0xFA00 or pq[3]:
                return
            last_same = recent.get(data)
            if last_same is not None and sim.now() - last_same <= 1000:
                return
            if lst._deferred.get(map_src(src)[0]):
                return
            owed = owed_by(own, pq)
            if owed:
                inq.append({"index": idx, "kind": kind, "t": sim.now(), "n0": len(sim.net.log), "src": list(src), "owed": owed,
                            "qu": any(c & 0x8000 for _n, _t, c in pq[1])})

        def settle_queries():
            from zeroconf._dns import DNSAddress
            cache_ = {}

            def recs_of(d):
                if d not in cache_:
                    try:
                        m = DNSIncoming(d)
                        cache_[d] = [(x.name.lower(), x.type, bytes(x.address) if isinstance(x, DNSAddress) else None)
                                     for x in m.answers() if x.ttl > 0] if m.valid and not m.is_query() else []
                    except Exception:
                        cache_[d] = []
                return cache_[d]
            out = []
            for w in inq:
                ips = (w["src"][0], "::ffff:" + w["src"][0])
                got = set()
                for (tm, _s, ip, p_, d_) in sim.net.log[w["n0"]:]:
                    if tm > w["t"] + ANSWER_WINDOW:
                        break
                    if ip in MCAST_ADDRS or (ip in ips and p_ == w["src"][1]):
                        for (n_, t_, a_) in recs_of(d_):
                            got.add((n_, t_, a_))
                missing = [o for o in w["owed"] if (o[0], o[1], o[2] if o[1] in (1, 28) else None) not in got]
                obs["inq_checked"] = obs.get("inq_checked", 0) + 1
                obs["inq_records"] = obs.get("inq_records", 0) + len(w["owed"])
                if w["qu"]:
                    obs["inq_qu"] = obs.get("inq_qu", 0) + 1
                if missing:
                    out.append({"index": w["index"], "kind": w["kind"], "t": w["t"], "src": w["src"], "qu": w["qu"],
                                "missing": [[o[0], o[1], o[2].hex()[:40]] for o in missing][:4]})
            obs["inq_unanswered"] = out
        infos = service_infos(case)
        for info in infos:
            t = await zc.async_register_service(info)
            await t
        names = [TA, infos[0].name, infos[0].server or infos[0].name, "_services._dns-sd._udp.local.", infos[-1].name, TB, infos[-1].server or infos[-1].name]
        own = own_records(infos)
        res_svc = "svc-profile:%d" % case.get("svc", 0)
        obs["kinds"][res_svc] = 1
        # the query that is repeated byte for byte inside the streams (kind "canrep"): QM SRV for the first service, fixed id
        fam_q = hdr((case.get("canary_id", 4242) + 7) & 0xFFFF, 0, 1) + q(labels_of(infos[0].name), 33)

        def replied_to(n0, src):
            """was a response datagram sent to `src` since log position n0?  (Only the QR bit is looked at: when the query is assembled with a
            deferred truncated packet of the same address, the reply echoes *that* packet's questions, and a root-name question is written back
            as `00 00`, which makes the rest of the reply unreadable -- the reply was still sent, which is what the duplicate rule is about.)"""
            for (tm, s_, ip, p_, d_) in sim.net.log[n0:]:
                if (ip, p_) == tuple(src[:2]) and len(d_) >= 12 and d_[2] & 0x80:
                    return True
            return False
        browsers = [AsyncServiceBrowser(zc, [TB], listener=L()), AsyncServiceBrowser(zc, [TB, TA] if case["browse_own"] else [TB], handlers=[handler])]
        # one case in five also has a threaded `ServiceBrowser` (its handlers run in a dedicated thread fed by a queue: `browser.py`
        # `ServiceBrowser.async_update_records_complete` / `run`); its callbacks are only used for the threaded canary
        tbrowser, tcb = None, []
        if case.get("threaded", case["idx"] % 5 == 2):
            from zeroconf import ServiceBrowser

            class LT(ServiceListener):
                def add_service(s, zc, t, n):
                    tcb.append(("add", n))

                def remove_service(s, zc, t, n):
                    tcb.append(("rem", n))

                def update_service(s, zc, t, n):
                    tcb.append(("upd", n))

            tbrowser = ServiceBrowser(zc, [TB], listener=LT())
        await sim.sleep_ms(case["start"])
        lookup = None
        lookup_res = {}
        streaming = {"on": True}
        if case["lookup"]:
            async def do_lookup():
                # a lookup is in progress during the whole stream: a new request starts 0.7 s after the previous one ended
                runs = 0
                while True:
                    si = AsyncServiceInfo(TB, "x." + TB)
                    try:
                        lookup_res["ok"] = bool(await si.async_request(zc, 3000))
                    except Exception as e:
                        lookup_res["raised"] = exc_name(e)
                        return
                    runs += 1
                    lookup_res["runs"] = runs
                    if not streaming["on"] or runs >= 400:
                        return
                    await asyncio.sleep(0.7)
            lookup = asyncio.ensure_future(do_lookup())
        last = None
        if "items" in case:
            plan = case["items"]
        else:
            plan = None
        n = len(plan) if plan is not None else case["n_items"]
        for i in range(n):
            if plan is not None:
                it = plan[i]
                gap, data, src, kind = it["gap"], bytes.fromhex(it["data"]), tuple(it["src"]), it.get("kind", "fixed")
                subs = [(gap, kind, data, src)]
            else:
                kind0 = rng.choice(KINDS_BIG if case.get("big") else KINDS)
                if kind0 == "cycle":
                    kind, data = cycle_packet(rng)
                    subs = [(rng.choice(GAPS), kind, data, (PEER, 5353))]
                elif kind0 == "canrep":
                    # a run of byte-identical copies of one well-formed non-QU query from legacy-unicast sources (each processed copy is
                    # answered by unicast inside its block, which makes "answered" directly observable), gaps around the 1 s guard window
                    run_src = rng.choice(REP_SRCS)
                    subs = []
                    for k_ in range(rng.choice([3, 4, 6, 9, 12])):
                        s_ = run_src if rng.random() < 0.7 else rng.choice(REP_SRCS)
                        subs.append((rng.choice(REP_GAPS) if k_ else rng.choice(GAPS), "canrep", fam_q, s_))
                elif kind0 == "burst":
                    bsrc = (rng.choice([PEER, "10.9.9.9"]), 5353)
                    subs = [(g, "burst", d, bsrc) for g, d in burst_packets(rng, names)]
                elif kind0 == "bigq":
                    subs = [(rng.choice(GAPS), "bigq", big_query(rng, names), (rng.choice([PEER, "10.9.9.9"]), rng.choice([40000, 40000, 5353, 0])))]
                elif kind0 == "flood":
                    subs = [(g, "flood", d, (PEER, 5353)) for g, d in flood_packets(rng)]
                elif kind0 == "tctrain":
                    tsrc = (rng.choice([PEER, "10.9.9.9"]), rng.choice([5353, 5353, 40000]))
                    subs = [(g, "tctrain", d, tsrc) for g, d in tc_train(rng, names)]
                elif kind0 == "lookupdl":
                    subs = [(rng.choice(GAPS), "lookupdl", lookup_deadline_resp(rng), (PEER, 5353))]
                elif kind0 == "addrswap":
                    subs = [(g, "addrswap", d, (PEER, 5353)) for g, d in addr_swap(rng)]
                else:
                    kind, data = gen_item(rng, live, names, last, kind0, own)
                    src = (rng.choice(IPS), rng.choice(PORTS))
                    if rng.random() < (0.5 if kind in ("lookup", "lookuptrunc", "resp", "hostile") else 0.2):
                        # an IPv6 source: the socket layer hands the listener a 4-tuple (address, port, flowinfo, scope id)
                        src = rng.choice(SRC6)
                    if kind == "d8":
                        src = (src[0], rng.choice([40000, 40000, 5353]))
                    subs = [(rng.choice(GAPS), kind, data, src)]
            if obs.get("hung"):
                break
            for gap, kind, data, src in subs:
                if obs.get("hung"):
                    break
                if gap:
                    await sim.sleep_ms(gap)
                obs["items"].append({"gap": gap, "data": data.hex(), "src": list(src), "kind": kind})
                obs["kinds"][kind] = obs["kinds"].get(kind, 0) + 1
                if kind == "lookupdl":
                    # not delivered now: armed for the next wait deadline (a replay arms it at the same point of the stream)
                    dl["pending"].append((len(obs["items"]) - 1, data, tuple(src)))
                    continue
                last = data
                n_log = len(sim.net.log)
                # truncated packets of the same address pending: the copy is assembled with them, and THEIR known answers may suppress the reply
                pre_deferred = bool(lst._deferred.get(map_src(src)[0]))
                if kind in ("query", "burst", "canrep", "fixed", "canary"):
                    watch_query(len(obs["items"]) - 1, data, src, kind)
                r = deliver(data, src)
                if r is not None:
                    obs["escapes"].append({"index": len(obs["items"]) - 1, "exc": r, "kind": kind, "len": len(data)})
                if data == fam_q:
                    obs["fam"].append({"index": len(obs["items"]) - 1, "t": sim.now(), "src": list(src),
                                       "replied": replied_to(n_log, map_src(src)) if src[1] not in (5353, 0) and ":" not in src[0] and not pre_deferred else None})
        streaming["on"] = False
        if obs.get("hung"):
            # a call into the library did not return: the verdict is in, the rest of the case (tail, canaries) would only hang again
            obs["live"] = len(live)
            obs["end"] = sim.now()
            obs["lookup"] = lookup_res
            if lookup is not None:
                lookup.cancel()
            return
        await sim.sleep_ms(case["tail"])
        obs["live"] = len(live)
        # ---- canaries 1a/1b: well-formed queries are still answered -- through the aggregated multicast path (QM PTR) and through
        # the immediate path (single QM SRV question); 3 s covers aggregation (<= 620 ms) and the protected one-second queue (<= 1.2 s + 120 ms)
        await sim.sleep_ms(1500)

        def answered_since(n0, rtype, owner):
            for (tm, s_, ip, p, d) in sim.net.log[n0:]:
                try:
                    m = DNSIncoming(d)
                    if m.valid and not m.is_query() and any(x.type == rtype and x.ttl > 0 and x.name.lower() == owner.lower() for x in m.answers()):
                        return True
                except Exception:
                    pass
            return False

        cid = case.get("canary_id", 4242)
        n0 = len(sim.net.log)
        r = deliver(hdr(cid & 0xFFFF, 0, 1) + q(labels_of(TA), 12), (PEER, 5353))
        obs["canary_p_raised"] = r
        await sim.sleep_ms(3000)
        obs["canary_p"] = answered_since(n0, 12, TA)
        n0 = len(sim.net.log)
        r = deliver(hdr((cid + 1) & 0xFFFF, 0, 1) + q(labels_of(infos[0].name), 33), (PEER, 5353))
        obs["canary_q_raised"] = r
        await sim.sleep_ms(3000)
        obs["canary_q"] = answered_since(n0, 33, infos[0].name)
        # ---- canaries 1d/1e/1f (review 3): a QU question for a record that was multicast a moment ago (unicast branch of the QU cascade);
        # a QM question less than a second after the record was multicast (the protected queue: delayed, not dropped); a legacy query.
        # They are judged like every well-formed query of the stream (`watch_query`)
        for k_, (d_, src_, wait) in enumerate([
                (hdr((cid + 3) & 0xFFFF, 0, 1) + q(labels_of(infos[0].name), 33, 0x8001), (PEER, 5353), 300),
                (hdr((cid + 4) & 0xFFFF, 0, 2) + q(labels_of(TA), 12) + q(labels_of(infos[0].name), 16), (PEER, 5353), 700),
                (hdr((cid + 5) & 0xFFFF, 0, 2) + q(labels_of(TA), 12) + q(labels_of(infos[-1].name), 33), ("10.9.9.9", 5353), 3000),
                (hdr((cid + 6) & 0xFFFF, 0, 1) + q(labels_of(TA), 12, 0x8001), ("10.9.9.9", 40000), 100)]):
            watch_query(-1 - k_, d_, src_, "canary")
            r = deliver(d_, src_)
            if r is not None:
                obs["escapes"].append({"index": -1 - k_, "exc": r, "kind": "canary", "len": len(d_)})
            await sim.sleep_ms(wait)
        # ---- canaries 2a/2b: well-formed announcements still reach the browsers -- a name never seen before must give Added in both;
        # the instance that was announced / withdrawn inside the stream must be held by both browsers after it is announced again
        cname = "canary%d" % case["idx"]
        c0 = len(obs["callbacks"])
        r = deliver(announce_packet(cname, TB, "hc.local.", PEER), (PEER, 5353))
        obs["canary_a_raised"] = r
        await sim.sleep_ms(1000)
        got = {(c[1], c[2]) for c in obs["callbacks"][c0:] if c[3] == cname + "." + TB}
        obs["canary_a"] = sorted(t for t, e in got if e == "add")
        if tbrowser is not None:
            # the handler thread runs in real time: it needs microseconds once it is scheduled; on a loaded machine that can take long,
            # so the limit is generous (it only costs anything when the callback never comes)
            t_end = time.time() + 30.0
            while time.time() < t_end and ("add", cname + "." + TB) not in list(tcb):
                time.sleep(0.002)
            obs["canary_t"] = ("add", cname + "." + TB) in list(tcb)
        r = deliver(announce_packet(CYC, TB, "hcyc.local.", PEER, port=82), (PEER, 5353))
        obs["canary_c_raised"] = r
        await sim.sleep_ms(1000)
        held = {}
        for c in obs["callbacks"]:
            if c[3].lower() == (CYC + "." + TB).lower() and c[2] in ("add", "rem"):
                held[c[1]] = c[2]
        obs["canary_c"] = sorted(t for t, e in held.items() if e == "add")
        if v6:
            # ---- canary 1c (dual-stack host): a legacy one-shot query from a link-local asker, heard on the wildcard listen socket, must be
            # answered to exactly the asker's address tuple -- address, port, flow info and scope id: without the scope id the kernel cannot
            # route the reply (EINVAL), with another one it leaves through the wrong interface
            n0 = len(sim.v6log)
            r = deliver(hdr((cid + 2) & 0xFFFF, 0, 1) + q(labels_of(infos[0].name), 33), V6_ASKER)
            obs["canary_v6_raised"] = r
            sent = sim.v6log[n0:]
            obs["canary_v6"] = any(to == V6_ASKER and how == "sent" and len(d_) >= 12 and d_[2] & 0x80 for (_t, to, d_, how) in sent)
            obs["canary_v6_sends"] = [[list(to), how] for (_t, to, d_, how) in sent][:4]
        if lookup is not None:
            await lookup
        obs["lookup"] = lookup_res
        settle_queries()
        obs["end"] = sim.now()
        for b in browsers:
            await b.async_cancel()
        if tbrowser is not None:
            tbrowser.cancel()
            await asyncio.sleep(0)
        await zc._async_close()

    import logging
    zlog = logging.getLogger("zeroconf")
    old_level, old_prop = zlog.level, zlog.propagate
    if case.get("debuglog"):
        # the library's `if debug:` branches (listener, engine, core) run: records are formatted by a handler that discards them
        class Sink(logging.Handler):
            def emit(self, record):
                record.getMessage()
        sink = Sink()
        zlog.addHandler(sink)
        zlog.setLevel(logging.DEBUG)
        zlog.propagate = False
        cleanup.append(lambda: (zlog.removeHandler(sink), zlog.setLevel(old_level), setattr(zlog, "propagate", old_prop)))
        obs["kinds"]["debug-logging"] = 1
    try:
        with Guard(CASE_S):
            sim.run(main)
    except HangDetected:
        obs["hung"] = True
        obs["hang_outside_datagram"] = True
    finally:
        for cls, name, orig in saved:
            setattr(cls, name, orig)
        for f in cleanup:
            f()
    errs = []
    for e in sim.errors:
        ex = e.get("exception")
        errs.append({"exc": exc_name(ex) if ex is not None else "-", "msg": str(ex if ex is not None else e.get("message"))[:160]})
    obs["errors"] = errs
    return obs


# ------------------------------------------------------------------------------------------
# the property's predicate on one run


def judge(obs):
    """list of (sig, what) -- empty when the run satisfies the property"""
    bad = []
    for e in obs["escapes"]:
        if e["exc"] == "HangDetected":
            bad.append(("C15:hang", "datagram_received did not return within %.1f s of CPU time (item %d, %s, %d bytes): an unbounded loop" % (HANG_S, e["index"], e["kind"], e["len"])))
            continue
        bad.append(("C15:escape:%s" % e["exc"], "%s escaped datagram_received (item %d, %s, %d bytes)" % (e["exc"], e["index"], e["kind"], e["len"])))
    if obs.get("hang_outside_datagram") or any(e["exc"] == "HangDetected" for e in obs.get("errors", [])):
        bad.append(("C15:hang", "a call into the library (a timer callback, a task step or the harness's own use of the encoder / decoder) did not return within the CPU-time budget"))
    if obs.get("hung"):
        return bad          # the canaries were not run
    for k in ("canary_p_raised", "canary_q_raised", "canary_a_raised", "canary_c_raised"):
        if obs.get(k):
            bad.append(("C15:escape:%s" % obs[k], "%s escaped datagram_received on the canary datagram" % obs[k]))
    for e in obs["errors"]:
        if e["exc"] != "HangDetected":
            bad.append(("C15:loop-exception:%s" % e["exc"], "the loop exception handler was called: %s" % e["msg"]))
    for o in obs["oversize"]:
        bad.append(("C15:oversize-processed", "a %d-byte datagram changed the instance (sends, callbacks, listener memory, cache, timers or draws)" % o["len"]))
    if not obs.get("canary_p"):
        bad.append(("C15:canary-ptr-query-unanswered", "a well-formed QM PTR query (aggregated multicast path) sent after the stream got no answer within 3 s"))
    if not obs.get("canary_q"):
        bad.append(("C15:canary-query-unanswered", "a well-formed SRV query sent after the stream got no answer within 3 s"))
    # spec-level duplicate rule, tracked from the observed replies only: a well-formed non-QU query from a legacy-unicast source must be
    # answered (unicast, inside its block) unless a byte-identical datagram was answered less than 1 s earlier.  Copies from port 5353 are not
    # observable this way; they are counted as answered (they may legitimately have restarted the window).
    last_ans = None
    for f in obs.get("fam", []):
        if f["replied"] is None:
            last_ans = f["t"]
            continue
        if f["replied"]:
            last_ans = f["t"]
        elif last_ans is None or f["t"] - last_ans >= 1000:
            bad.append(("C15:identical-query-unanswered",
                        "a well-formed non-QU query (item %d, t=%d ms, from %s:%d) got no reply although the last time a byte-identical datagram was answered was %s"
                        % (f["index"], f["t"], f["src"][0], f["src"][1], "never" if last_ans is None else "%d ms earlier" % (f["t"] - last_ans))))
            break
    for w in obs.get("inq_unanswered", [])[:1]:
        bad.append(("C15:stream-query-unanswered", "a well-formed %s query (%s, t=%d ms, from %s:%d; not truncated, not a probe, not a duplicate) asked for "
                    "records of a registered service that it did not list as known answers, and within %d ms they were sent neither by multicast nor by "
                    "unicast to the asker: %s" % ("QU" if w["qu"] else "QM" if w["src"][1] == 5353 else "legacy", "item %d" % w["index"] if w["index"] >= 0
                                                  else "canary %d after the stream" % -w["index"], w["t"], w["src"][0], w["src"][1], ANSWER_WINDOW, w["missing"])))
    if obs.get("canary_c") != ["h", "l"]:
        bad.append(("C15:canary-reannouncement-unseen", "after a well-formed announcement of the instance that was announced/withdrawn inside the stream, the browsers whose "
                    "latest Added/Removed callback for it is Added are %s, expected both" % obs.get("canary_c")))
    if obs.get("canary_a") != ["h", "l"]:
        bad.append(("C15:canary-announcement-unseen", "a well-formed announcement sent after the stream produced Added in %s, expected both browsers" % obs.get("canary_a")))
    if obs.get("canary_v6_raised"):
        bad.append(("C15:escape:%s" % obs["canary_v6_raised"], "%s escaped datagram_received on the IPv6 canary query" % obs["canary_v6_raised"]))
    if obs.get("canary_v6") is False:
        bad.append(("C15:canary-v6-legacy-query-unanswered", "a well-formed legacy query from the link-local asker %s, heard on the wildcard IPv6 listen socket after the "
                    "stream, got no reply addressed to that tuple (address, port, flow info, scope id); sends of the block: %s" % (list(V6_ASKER), obs.get("canary_v6_sends"))))
    if obs.get("canary_t") is False:
        bad.append(("C15:canary-announcement-unseen-threaded", "a well-formed announcement sent after the stream did not reach the handler thread of the threaded ServiceBrowser"))
    if obs.get("lookup", {}).get("raised"):
        bad.append(("C15:lookup-raised:%s" % obs["lookup"]["raised"], "the lookup in progress ended with an exception"))
    return bad


def fixed_case(case, items):
    c = {k: v for k, v in case.items() if k not in ("n_items",)}
    c["items"] = items
    return c


def minimise(case, obs, sig, budget=120):
    """shrink the delivered stream while the same signature is reported: the item an escape points at alone, suspicious singles,
    then ddmin (drop chunks of n/2, n/4, ... 1 items).  The gaps of dropped items are added to the next kept item, so the
    remaining datagrams keep their absolute arrival times."""
    items = obs["items"]
    runs = [0]

    def fails(its):
        runs[0] += 1
        o = simulate(fixed_case(case, its))
        return any(s_ == sig for s_, _ in judge(o))

    for e in obs["escapes"]:
        if runs[0] >= budget:
            break
        if e["index"] < 0:
            continue
        its = [dict(items[e["index"]], gap=0)]
        if fails(its):
            return fixed_case(case, its)
    tried = 0
    for i in range(len(items)):
        if runs[0] >= budget or tried >= 12:
            break
        if items[i]["kind"] in ("d8", "d8b", "hostile", "oversize", "chain", "graph") or items[i]["kind"].startswith("cycle:"):
            tried += 1
            its = [dict(items[i], gap=0)]
            if fails(its):
                return fixed_case(case, its)
    cur_items = list(items)
    chunk = max(1, len(cur_items) // 2)
    while runs[0] < budget and len(cur_items) > 1:
        i = 0
        progress = False
        while i < len(cur_items) and runs[0] < budget:
            rest = cur_items[i + chunk:]
            if rest:
                rest = [dict(rest[0], gap=rest[0]["gap"] + sum(x["gap"] for x in cur_items[i:i + chunk]))] + rest[1:]
            cand = cur_items[:i] + rest
            if cand and fails(cand):
                cur_items = cand
                progress = True
            else:
                i += chunk
        if chunk == 1 and not progress:
            break
        chunk = max(1, chunk // 2) if chunk > 1 else 1
    return fixed_case(case, cur_items)


# ------------------------------------------------------------------------------------------
# stage C: the Lean host model on the same blocks


def model_line(obs):
    toks = ["c15run", str(len(obs["blocks"]))]
    for b in obs["blocks"]:
        if b["op"] == "recv":
            toks += ["r", C.b01(b["entries"]), C.b01(b["ucast"]), str(b["t"]), str(b["tcdraw"]), C.hs(b["addr"]), str(b["port"]), C.hx(bytes.fromhex(b["data"]))]
        else:
            toks += ["t", C.b01(b["ucast"]), C.hs(b["addr"])]
    return " ".join(toks)


def impl_tags(obs):
    out = []
    for b in obs["blocks"]:
        out.append("%s/%s/%s/%s" % (b["tag"], b["raised"] or "-", ",".join("%s@%d" % (a, t) for a, t in b["timers"]) or "-",
                                    ",".join("%s#%d" % (a, n) for a, n in b["deferred"]) or "-"))
    return out


_bm = {}


def bitmap_calls(data):
    """every `_read_bitmap(end)` call the real decoder makes on `data`: [offset at entry, end, while-iterations, bytes scanned].
    Counted with a line tracer restricted to that one code object; the two counted lines are located in the function's source, so
    an edit that moves them does not break the measurement (if they cannot be found the measurement is skipped)."""
    import inspect
    import sys
    from zeroconf._protocol import incoming as inc

    if "code" not in _bm:
        fn = inc.DNSIncoming._read_bitmap
        _bm["code"] = fn.__code__
        try:
            src, first = inspect.getsourcelines(fn)
            body = [i for i, l in enumerate(src) if l.strip().startswith("offset = self.offset")]
            bit = [i for i, l in enumerate(src) if l.strip().startswith("if byte &")]
            _bm["lines"] = (first + body[0], first + bit[0]) if len(body) == 1 and len(bit) == 1 else None
        except Exception:
            _bm["lines"] = None
    if _bm["lines"] is None:
        return None
    l_iter, l_bit = _bm["lines"]
    code = _bm["code"]
    calls = []

    def local(frame, event, arg):
        if event == "line":
            if frame.f_lineno == l_iter:
                calls[-1][2] += 1
            elif frame.f_lineno == l_bit:
                calls[-1][3] += 1
        return local

    def tracer(frame, event, arg):
        if event == "call" and frame.f_code is code:
            calls.append([int(frame.f_locals["self"].offset), int(frame.f_locals["end"]), 0, 0])
            return local
        return None

    old = sys.gettrace()
    sys.settrace(tracer)
    try:
        try:
            m = inc.DNSIncoming(data)
            m.answers()
        except Exception:
            pass
    finally:
        sys.settrace(old)
    return [[o, e, it, bits // 8] for o, e, it, bits in calls]


def cut_after_raise(it, mt):
    """after the first block that raised (in either), only the exception class of that block is compared: the model
    does not describe the half-updated listener an exception leaves behind"""
    cut = next((i for i in range(min(len(it), len(mt))) if it[i].split("/")[1] != "-" or mt[i].split("/")[1] != "-"), None)
    if cut is not None:
        it = it[:cut] + ["*/" + it[cut].split("/")[1]]
        mt = mt[:cut] + ["*/" + mt[cut].split("/")[1]]
    return it, mt


def encodable_impl(data):
    """does the library's encoder accept every name its decoder hands out for this datagram? (None: no object)"""
    from zeroconf import DNSIncoming, DNSOutgoing
    from zeroconf._dns import DNSNsec, DNSPointer, DNSService
    from zeroconf._exceptions import NamePartTooLongException

    try:
        m = DNSIncoming(data)
        recs = m.answers()
    except Exception:
        return None
    names = [x.name for x in m.questions]
    for r in recs:
        names.append(r.name)
        if isinstance(r, DNSPointer):
            names.append(r.alias)
        elif isinstance(r, DNSService):
            names.append(r.server)
        elif isinstance(r, DNSNsec):
            names.append(r.next_name)
    ok = True
    for n in names:
        out = DNSOutgoing(0)
        try:
            out.write_name(n)
        except NamePartTooLongException:
            ok = False
        except Exception:
            pass
    return ok


# ------------------------------------------------------------------------------------------


def violate_limited(res, seen, sig, what, case, per_sig=2):
    seen[sig] = seen.get(sig, 0) + 1
    if seen[sig] <= per_sig:
        res.violate(sig, what, case)


def run_case(res, case, ctx, acc, seen, do_min=True):
    obs = simulate(case)
    res.evaluations += len(obs["blocks"])
    for k, v in obs["kinds"].items():
        res.count("item:" + k, v)
    for b in obs["blocks"]:
        res.count("block:" + b["tag"].split(":")[0])
        res.nontriv((b["tag"].split(":")[0], b["raised"], b["port"] == 5353 if "port" in b else None, b.get("ucast")))
    res.count("canary-pairs")
    res.count("stream-queries-judged", obs.get("inq_checked", 0))
    res.count("stream-queries-judged-qu", obs.get("inq_qu", 0))
    res.count("stream-query-records-owed", obs.get("inq_records", 0))
    res.count("multi-packet-messages", obs.get("multi", 0))
    md = max([n for b in obs["blocks"] for _a, n in b.get("deferred", [])] or [0])
    res.count("deferred-packets-per-address:%s" % (md if md < 3 else "3+"))
    res.count("live-captured", obs["live"])
    bad = judge(obs)
    done = set()
    for sig, what in bad:
        if sig in done:
            continue
        done.add(sig)
        rc = fixed_case(case, obs["items"])
        if sig == "C15:hang":
            # no delta debugging on a hang (every probe costs the whole watchdog budget): the replay is the datagram inside which the call
            # did not return, alone -- checked by one more run -- or, failing that, the stream up to it
            hung = [e for e in obs["escapes"] if e["exc"] == "HangDetected" and 0 <= e["index"] < len(obs["items"])]
            if hung:
                it = dict(obs["items"][hung[0]["index"]], gap=0)
                one = fixed_case(case, [it])
                if seen.get(sig, 0) < 1 and any(g == "C15:hang" for g, _w in judge(simulate(one))):
                    rc = one
                else:
                    rc = fixed_case(case, obs["items"][:hung[0]["index"] + 1])
        elif do_min and seen.get(sig, 0) < 1:
            try:
                rc = minimise(case, obs, sig)
            except Exception:
                pass
        violate_limited(res, seen, sig, what, rc)
    acc.append((case, obs))
    return obs


def flush_model(res, ctx, acc, seen):
    if not acc:
        return
    lines = []
    datas = []
    dset = set()
    for case, obs in acc:
        lines.append(model_line(obs))
        for b in obs["blocks"]:
            if b["op"] == "recv" and len(b["data"]) <= 2 * MAXLEN and b["data"] not in dset:
                dset.add(b["data"])
                datas.append(b["data"])
    enc_lines = ["c15enc " + C.hx(bytes.fromhex(d)) for d in datas]
    # stage O on the root-cause predicate, independent of the model
    impl_enc = {}
    nhang = 0
    for d in datas:
        if nhang >= 2:       # a tree whose decoder / encoder loops: the verdict is in, do not spend the watchdog budget on every datagram
            impl_enc[d] = None
            continue
        try:
            with Guard(HANG_S):
                e = encodable_impl(bytes.fromhex(d))
        except HangDetected:
            e = None
            nhang += 1
            violate_limited(res, seen, "C15:hang", "decoding a %d-byte datagram / writing its names back did not finish within %.0f s of wall clock (unbounded loop)"
                            % (len(d) // 2, HANG_S), {"hex": d, "len": len(d) // 2})
        impl_enc[d] = e
        res.evaluations += 1
        if e is False:
            violate_limited(res, seen, "C15:unencodable-name", "the decoder returned a name that the encoder rejects with NamePartTooLongException",
                            {"hex": d, "len": len(d) // 2})
    # `_read_bitmap` loop counters of the real decoder, for the datagrams that can reach it (an NSEC type field somewhere)
    bm_calls = []
    for d in datas:
        raw = bytes.fromhex(d)
        if nhang >= 2:
            break
        if b"\x00\x2f" in raw and len(raw) <= MAXLEN:
            try:
                with Guard(HANG_S):
                    calls = bitmap_calls(raw)
            except HangDetected:
                nhang += 1
                sys.settrace(None)
                violate_limited(res, seen, "C15:hang", "`_read_bitmap` did not return within %.0f s of wall clock on a %d-byte datagram (unbounded loop)" % (HANG_S, len(raw)),
                                {"hex": d, "len": len(raw)})
                continue
            if calls is None:
                if not any("bitmap" in n for n in res.notes):
                    res.notes.append("_read_bitmap loop lines not found in the source: bitmap work not measured")
                break
            for o, e, it, by in calls[:8]:
                bm_calls.append((d, o, e, it, by))
    res.count("bitmap-calls", len(bm_calls))
    if not ctx["driver_ok"]:
        del acc[:]
        return
    bm_lines = ["c15bm %s %d %d" % (C.hx(bytes.fromhex(d)), o, e) for d, o, e, _it, _by in bm_calls]
    try:
        out = C.run_driver(lines + enc_lines + bm_lines)
    except C.DriverUnavailable as ex:
        res.notes.append("driver unavailable: %s" % ex)
        del acc[:]
        return
    for (case, obs), ml in zip(acc, out[:len(acc)]):
        it, mt = cut_after_raise(impl_tags(obs), ml.split(" ") if ml else [])
        if it != mt:
            k = next((i for i in range(min(len(it), len(mt))) if it[i] != mt[i]), min(len(it), len(mt)))
            res.disagree("c15run", {"case": fixed_case(case, obs["items"]), "block": k, "blockinfo": obs["blocks"][k] if k < len(obs["blocks"]) else None},
                         it[k] if k < len(it) else None, mt[k] if k < len(mt) else ml[:200])
    for (d, o, e, it, by), ml in zip(bm_calls, out[len(acc) + len(datas):]):
        res.evaluations += 1
        want = "%d %d" % (it, by)
        if ml != want:
            res.disagree("c15bm", {"hex": d, "offset": o, "end": e}, want, ml[:60])
        res.nontriv(("bm", min(it, 5), min(by, 5)))
    for d, ml in zip(datas, out[len(acc):len(acc) + len(datas)]):
        e = impl_enc[d]
        want = {True: "1", False: "0", None: "none"}[e]
        got = ml.split(" ")[0] if ml else ""
        if e is not None and got != want:
            res.disagree("c15enc", {"hex": d}, want, ml[:100])
        res.nontriv(("enc", want, got))
    del acc[:]


def corpus_cases():
    out = []
    for name, body in C.load_corpus("C15"):
        c = body.get("case", body)
        if "items" in c:
            out.append((name, c))
    return out


def run(ctx):
    res = C.Result("C15")
    seed, tier = ctx["seed"], ctx["tier"]
    n = C.Budget(tier, 1000, 20000).n
    if ctx["widened"]:
        n *= 2
    # wall-clock guard for a loaded machine (the quick tier must stay within its budget); the corpus always runs.  A widened run has
    # twice the cases AND twice the time; where the guard cuts, the number of cases actually run is recorded in the evidence
    cap = (75.0 if tier != "thorough" else 540.0) * (2 if ctx["widened"] else 1)
    res.dist["cases-planned"] = n
    t0 = time.time()
    res.rule = ("simulated instance (1-2 services, listener browser + handler browser, optional lookup) fed 5-60 datagrams at gaps 0 ms..11 s from "
                "{5353, 40000, 53, 1, 65535} x {foreign, peer, own address}: C02 generators (random, wire-built, encoder-built, mutated, pointer graphs, chains), "
                "replayed and mutated captured live traffic, well-formed queries/responses about the instance's names (TC, QU, known answers, probes), "
                "hostile labels (D8/D8b shapes: 21/22/30/40/63 x 0xFF, dotted labels, truncated UTF-8), oversize (8966/8967/9000/20000), exact repeats, "
                "valid responses holding one PTR twice (TTL 0 / > 0, both orders, cached and uncached), bursts of 3-6 valid QM queries at 0/20/50/100/400/450/480 ms gaps; "
                "then four canaries (QM PTR and QM SRV query answered, new instance Added, cycled instance held again); non-trivial = distinct (destination tag, exception, mdns-port, unicast-reply) of a datagram block")
    acc, seen = [], {}
    hung_cases = 0
    for name, case in corpus_cases():
        res.count("corpus")
        run_case(res, case, ctx, acc, seen, do_min=False)
    for idx in range(n):
        if time.time() - t0 > cap:
            res.notes.append("stopped after %d of %d cases: wall-clock guard of %.0f s" % (idx, n, cap))
            res.dist["cases-not-run-(wall-clock-guard)"] = n - idx
            break
        obs = run_case(res, gen_case(seed, idx), ctx, acc, seen)
        res.count("cases-run")
        if obs.get("hung"):
            hung_cases += 1
            if hung_cases >= 3:
                res.notes.append("stopped after %d cases: %d of them contained a call into the library that did not return" % (idx + 1, hung_cases))
                break
        if len(acc) >= 40:
            flush_model(res, ctx, acc, seen)
            import gc
            gc.collect()      # the simulators' event loops and their cycles are collected here, outside the watchdog's guarded calls
    flush_model(res, ctx, acc, seen)
    # the API / timer blocks of the closed composite (registration, browser and lookup start/stop, purge, user listeners): own stream
    from . import c15api
    c15api.run_stream(res, ctx, C.Budget(tier, 150, 3000).n * (2 if ctx["widened"] else 1))
    res.violations.sort(key=lambda v: (0 if "escape" in v["sig"] or "loop-exception" in v["sig"] else 1, v["sig"], len(v["case"].get("items", []))))
    for c in res.violations[:1]:
        res.sample({"sig": c["sig"], "items": len(c["case"].get("items", []))})
    return res


def replay(body):
    case = body.get("case", body)
    if "steps" in case or "scenario" in case:
        from . import c15api
        return c15api.replay(body)
    if "hex" in case and "items" not in case:
        d = bytes.fromhex(case["hex"])
        try:
            with Guard(HANG_S):
                e = encodable_impl(d)
        except HangDetected:
            return {"violates": True, "violations": ["C15:hang: decoding the datagram did not finish within %.0f s" % HANG_S]}
        out = {"encodable": e, "violates": e is False}
        try:
            out["model"] = C.run_driver(["c15enc " + C.hx(d)])[0]
        except C.DriverUnavailable:
            pass
        return out
    obs = simulate(case)
    bad = judge(obs)
    out = {"violates": bool(bad), "violations": ["%s: %s" % b for b in bad], "escapes": obs["escapes"], "loop_errors": obs["errors"],
           "canary_ptr_query_answered": obs.get("canary_p"), "canary_query_answered": obs.get("canary_q"),
           "canary_announcement_added_in": obs.get("canary_a"), "canary_reannouncement_held_by": obs.get("canary_c"), "lookup": obs.get("lookup"),
           "impl_blocks": impl_tags(obs)[:40]}
    try:
        mb = C.run_driver([model_line(obs)])[0].split(" ")
        it, mt = cut_after_raise(impl_tags(obs), mb)
        out["model_blocks"] = mb[:40]
        out["model_disagrees"] = it != mt
    except C.DriverUnavailable:
        pass
    return out
