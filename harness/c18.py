"""C18 -- service-info lookup: bounded, cache-first, never from expired data.

Drives the real `AsyncServiceInfo.async_request` on a simulated host (harness/vsim.py): records are
put into the cache beforehand (fresh / stale / expired-but-unpurged / on a boundary) and delivered
as response datagrams at chosen virtual times; other askers' queries fill the question history.
The lookup is observed as a sequence of *atomic blocks* (start, update, resume) with everything the
block read (cache key objects, question history, clock, random draw) and everything it did (query
datagram, return value, requested sleep, wake-up, info fields).

stage C: the same block inputs go to the Lean block machine (`Zc.Lookup.step`), every output is diffed.
stage O: the property's sentences evaluated on the implementation's observations (python oracle).
"""
from __future__ import annotations

import asyncio
import json

from . import common as C

TRACE = True
TRUSTED = [
    "harness/vsim.py virtual-time loop in place of asyncio's selector loop and sockets (timers fire at their due millisecond)",
    "the lookup's view of the instance is the block input (cache key objects, question history): how the record manager, "
    "cache and history get there is C05/C06/C13",
    "IPv6 scope ids: scenarios received on an IPv6 socket use one scope id for all link-local AAAA records (an address object is then determined "
    "by its packed bytes, which is what the model keeps); two scopes of one link-local address in one lookup are not generated",
    "not modelled: zc not yet started (async_wait_for_start is outside the timeout), the sync wrapper "
    "ServiceInfo.request (run_coro_with_timeout)",
    "a query whose known answers do not fit one packet goes out as a TC train: the block's datagrams are read as one query (questions and "
    "known answers merged); the TC bits, sizes and per-packet contents are C13's clause / C14's model",
]
ASSUMPTIONS = [
    "event-loop axioms (DESIGN 4.7): a sleeping task resumes no later than its timer's due time; random draws lie in the requested interval "
    "-- both are acceptance conditions of the model's `step` and are checked on every trace",
]

NAME = "Inst._x._tcp.local."
TYPE_ = "_x._tcp.local."
NAME_SPELLINGS = ["Inst._x._tcp.local.", "inst._x._tcp.local.", "INST._X._TCP.LOCAL."]
HOSTS = ["h1.local.", "h2.local."]
HOST_SPELLINGS = {"h1.local.": ["h1.local.", "H1.Local."], "h2.local.": ["h2.local.", "H2.LOCAL."],
                  # a self-hosted instance: the SRV names the instance name itself (what `ServiceInfo(server=None)` announces)
                  NAME: NAME_SPELLINGS}


def pick_host(rng):
    return NAME if rng.random() < 0.12 else rng.choice(HOSTS)
V4 = ["0a000001", "0a000002", "0a000003", "c0a80101"]
V6 = ["fe80000000000000000000000000000" + d for d in "1234"]


# ------------------------------------------------------------------------------------------
# records


def mk_record(spec, created=None):
    from zeroconf import _dns as d
    from zeroconf import const as k

    cls = k._CLASS_IN | (k._CLASS_UNIQUE if spec.get("unique", True) else 0)
    if spec.get("cls") is not None:
        cls = spec["cls"]
    kw = {} if created is None else {"created": float(created)}
    kind = spec["k"]
    if kind == "srv":
        return d.DNSService(spec["name"], k._TYPE_SRV, cls, spec["ttl"], spec.get("prio", 0), spec.get("weight", 0), spec.get("port", 80), spec["server"], **kw)
    if kind == "txt":
        return d.DNSText(spec["name"], k._TYPE_TXT, cls, spec["ttl"], bytes.fromhex(spec.get("text", "")), **kw)
    if kind == "a":
        return d.DNSAddress(spec["name"], k._TYPE_A, cls, spec["ttl"], bytes.fromhex(spec["addr"]), **kw)
    if kind == "aaaa":
        # `scope`: the record was received on an IPv6 socket (the 4-tuple source address carries the interface's scope id)
        return d.DNSAddress(spec["name"], k._TYPE_AAAA, cls, spec["ttl"], bytes.fromhex(spec["addr"]), scope_id=spec.get("scope"), **kw)
    if kind == "ptr":
        return d.DNSPointer(spec["name"], k._TYPE_PTR, cls, spec["ttl"], spec["alias"], **kw)
    raise ValueError(kind)


def ident_line(r):
    """identity of a record as `Driver.C18.recIdent` prints it"""
    t = C.rec_line(r, created=0).split(" ")
    t[4] = "0"
    t[5] = "0"
    t[6] = "0"
    return ":".join(t)


def q_ident(q):
    return ":".join(C.question_line(q).split(" "))


def info_str(info):
    def o(s):
        return "-" if s is None else "s" + C.hs(s)

    v4 = ",".join(C.hx(a.packed) for a in info._ipv4_addresses) or "-"
    v6 = ",".join(C.hx(a.packed) for a in info._ipv6_addresses) or "-"
    return "%s:%s:%s:%d:%d:%s:%s:%s" % (C.hs(info._name), o(info.server), "-" if info.port is None else str(info.port),
                                        info.weight, info.priority, C.hx(info.text), v4, v6)


def info_fields(info):
    return {"name": info._name, "key": info.key, "server": info.server, "server_key": info.server_key, "port": info.port,
            "weight": info.weight, "priority": info.priority, "text": info.text.hex(),
            "v4": [a.packed.hex() for a in info._ipv4_addresses], "v6": [a.packed.hex() for a in info._ipv6_addresses]}


# ------------------------------------------------------------------------------------------
# running one scenario on the real code


class Watch:
    """block log of one lookup (class-level wrappers; the info object has __slots__)"""

    def __init__(self, sim, zc, info):
        self.sim, self.zc, self.info = sim, zc, info
        self.blocks = []
        self.cur = None
        self.woke_flag = False

    def snap_cache(self):
        return [k for bucket in self.zc.cache.cache.values() for k in bucket]

    def snap(self, recs):
        # (line for the model, python-side copy for the oracle)
        return [{"line": C.rec_line(r), "name": r.name, "type": r.type, "cls": r.class_, "ttl": int(r.ttl), "created": int(r.created),
                 "kind": type(r).__name__, "addr": getattr(r, "address", b"").hex() if type(r).__name__ == "DNSAddress" else None,
                 "srv": (r.server, r.port, r.priority, r.weight) if type(r).__name__ == "DNSService" else None,
                 "text": r.text.hex() if type(r).__name__ == "DNSText" else None} for r in recs]

    def snap_hist(self):
        out = []
        for q, (than, known) in self.zc.question_history._history.items():
            out.append("%s %d %d %s" % (C.question_line(q), int(than), len(known), " ".join(C.rec_line(r) for r in known)))
        return out

    def snap_histq(self):
        return [{"name": q.name, "type": q.type, "cls": q.class_, "than": int(than)} for q, (than, _k) in self.zc.question_history._history.items()]

    def open(self, kind, now, recs=None):
        self.cur = {"k": kind, "now": int(now), "cache": self.snap(self.snap_cache()), "hist": self.snap_hist() if kind != "U" else [], "histq": self.snap_histq() if kind != "U" else [],
                    "recs": self.snap(recs) if recs is not None else [], "draw0": len(self.sim.draws), "send0": len(self.sim.net.log),
                    "asked": None, "ret": None, "wait": None, "woke": False}
        self.blocks.append(self.cur)

    def close(self):
        b = self.cur
        if b is None:
            return
        b["draws"] = [list(x[1:]) for x in self.sim.draws[b.pop("draw0"):]]
        b["sent"] = [x[4].hex() for x in self.sim.net.log[b.pop("send0"):]]
        b["info"] = info_str(self.info)
        b["fields"] = info_fields(self.info)
        self.cur = None


def run_scenario(sc):
    """-> observation dict (blocks, result, t0, t_ret, errors)"""
    from . import vsim
    import zeroconf._services.info as inf
    from zeroconf import DNSOutgoing, DNSQuestion, DNSQuestionType, const
    from zeroconf.asyncio import AsyncServiceInfo

    sim = vsim.Sim(seed=sc.get("simseed", 0), maxdelay=sc.get("maxdelay", 0))
    sim.forced_draws = iter(list(sc.get("draws", [])))
    obs = {"blocks": [], "never_returned": False}

    async def main(sim):
        host = sim.make_host("B", "10.0.0.2")
        zc = host.zc
        await zc.async_wait_for_start()
        def deliver(ev):
            if ev["kind"] == "resp":
                out = DNSOutgoing(const._FLAGS_QR_RESPONSE | const._FLAGS_AA)
                for spec in ev["recs"]:
                    out.add_answer_at_time(mk_record(spec), 0)
            else:
                out = DNSOutgoing(const._FLAGS_QR_QUERY)
                for (qn, qt) in ev["qs"]:
                    out.add_question(DNSQuestion(qn, qt, const._CLASS_IN))
                for spec in ev.get("known", []):
                    out.add_answer_at_time(mk_record(spec), 0)
            for p in out.packets():
                if sc.get("v6scope"):
                    # received on an IPv6 socket: (address, port, flow, scope id); link-local AAAA records then carry the scope id
                    host.deliver(bytes(p), ("fe80::9", 5353, 0, sc["v6scope"]))
                else:
                    host.inject(p, "10.0.0.9", 5353)

        rsp = sc.get("responder")
        if rsp:
            # a responder on the link that owns the instance and answers exactly the questions it is asked
            # (answers already listed as known answers are left out), `delay` ms after each query of the host
            from zeroconf import DNSIncoming as _In

            own = {(NAME.lower(), 33): [{"k": "srv", "name": NAME, "ttl": rsp["ttl"], "server": rsp["host"], "port": rsp["port"],
                                        "prio": rsp.get("prio", 0), "weight": rsp.get("weight", 0), "unique": True}],
                   (NAME.lower(), 16): [{"k": "txt", "name": NAME, "ttl": rsp["ttl"], "text": rsp["text"], "unique": True}],
                   (rsp["host"].lower(), 1): [{"k": "a", "name": rsp["host"], "ttl": rsp["ttl"], "addr": a, "unique": True} for a in rsp.get("a", [])],
                   (rsp["host"].lower(), 28): [{"k": "aaaa", "name": rsp["host"], "ttl": rsp["ttl"], "addr": a, "unique": True} for a in rsp.get("aaaa", [])]}

            def on_send(t, src, data, addr):
                m = _In(data)
                if not m.is_query():
                    return
                known = set(m.answers())
                recs = []
                for ty in (33, 16, 1, 28):     # SRV and TXT before the addresses, as a responder orders them
                    for q in m.questions:
                        if q.type == ty and q.class_ == const._CLASS_IN:
                            for spec in own.get((q.name.lower(), ty), []):
                                r = mk_record(spec)
                                if r not in known and r not in recs:
                                    recs.append(r)
                extra = rsp.get("extra")
                if extra and any(r.type == 33 for r in recs):
                    # like a real responder: TXT and the host's addresses ride along with an SRV answer (additionals).
                    # Their order inside the datagram is not fixed by the protocol (python-zeroconf iterates a set):
                    # "addr-first" puts the addresses before the SRV
                    adds = [mk_record(sp) for key in ((NAME.lower(), 16), (rsp["host"].lower(), 1), (rsp["host"].lower(), 28)) for sp in own[key]]
                    adds = [r for r in adds if r not in known and r not in recs]
                    addrs = [r for r in adds if r.type in (1, 28)]
                    rest = [r for r in recs + adds if r.type not in (1, 28)]
                    have = [r for r in recs if r.type in (1, 28)]
                    recs = (have + addrs + rest) if extra == "addr-first" else (rest + have + addrs)
                if recs:
                    out = DNSOutgoing(const._FLAGS_QR_RESPONSE | const._FLAGS_AA)
                    for r in recs:
                        out.add_answer_at_time(r, 0)
                    for pkt in out.packets():
                        if sc.get("v6scope"):
                            sim.loop.call_later(rsp["delay"] / 1000.0, host.deliver, bytes(pkt), ("fe80::7", 5353, 0, sc["v6scope"]))
                        else:
                            sim.loop.call_later(rsp["delay"] / 1000.0, host.inject, pkt, "10.0.0.7", 5353)

            sim.net.on_send = on_send
        pre_ev = sc.get("preevents", [])
        warm = max([sc.get("warmup", 0)] + [e["before"] for e in pre_ev])
        for ev in pre_ev:
            sim.loop.call_later((warm - ev["before"]) / 1000.0, lambda ev=ev: deliver(ev))
        await sim.sleep_ms(warm)
        now0 = sim.loop.ms
        for spec in sc.get("pre", []):
            zc.cache.async_add_records([mk_record(spec, created=now0 - spec["age"])])
        for h in sc.get("prehist", []):
            q = DNSQuestion(h["name"], h["type"], const._CLASS_IN)
            zc.question_history.add_question_at_time(q, float(now0 - h["age"]), {mk_record(s, created=now0 - 1) for s in h.get("known", [])})
        # `server=`: an application that already knows (a spelling of) the host, or re-uses an info object
        info = AsyncServiceInfo(TYPE_, sc.get("name", NAME), server=sc["server"]) if sc.get("server") else AsyncServiceInfo(TYPE_, sc.get("name", NAME))
        w = Watch(sim, zc, info)

        for ev in sc.get("events", []):
            sim.loop.call_later(ev["at"] / 1000.0, deliver, ev)

        S = inf.ServiceInfo
        o_upd, o_wait, o_gen, o_res = S.async_update_records, S.async_wait, S._generate_request_query, inf._resolve_all_futures_to_none

        def upd(self_, zc_, now, records):
            if self_ is not info:
                return o_upd(self_, zc_, now, records)
            w.open("U", now, [ru.new for ru in records])
            blk = w.cur
            w.woke_flag = False
            try:
                return o_upd(self_, zc_, now, records)
            finally:
                blk["woke"] = w.woke_flag
                w.close()

        async def wait(self_, timeout, loop=None):
            if self_ is not info:
                return await o_wait(self_, timeout, loop)
            w.cur["wait"] = timeout
            w.close()
            if len(w.blocks) > 300:   # a lookup spinning without the clock advancing would never end the simulation
                obs["spinning"] = True
                raise asyncio.CancelledError()
            await o_wait(self_, timeout, loop)
            w.open("R", sim.loop.ms)

        def gen(self_, zc_, now, qt):
            out = o_gen(self_, zc_, now, qt)
            if self_ is info and w.cur is not None:
                w.cur["asked"] = 1 if qt is DNSQuestionType.QU else 2
                w.cur["gen_now"] = int(now)
                # known answers are read off the DNSOutgoing object: the generator also plants address records of
                # impossible lengths, which would not survive the wire; questions and QU bits are read off the datagram
                w.cur["known"] = sorted(ident_line(r) for r, _ in out.answers)
            return out

        def res(futs):
            if futs:
                w.woke_flag = True
            return o_res(futs)

        S.async_update_records, S.async_wait, S._generate_request_query, inf._resolve_all_futures_to_none = upd, wait, gen, res
        task = asyncio.current_task()
        dog = sim.loop.call_later((max(sc["timeout"], 0) + 30000) / 1000.0, task.cancel)
        try:
            forced = {0: None, 1: DNSQuestionType.QU, 2: DNSQuestionType.QM}[sc.get("forced", 0)]
            obs["t0"] = sim.loop.ms
            probe = AsyncServiceInfo(TYPE_, sc.get("name", NAME), server=sc["server"]) if sc.get("server") else AsyncServiceInfo(TYPE_, sc.get("name", NAME))
            obs["lfc"] = [bool(probe.load_from_cache(zc)), info_fields(probe)]
            w.open("S", sim.loop.ms)
            try:
                if sc.get("via") in ("get_service_info", "aio_get_service_info"):
                    # through Zeroconf.async_get_service_info, which builds the info object itself: hand it ours
                    import zeroconf._core as core

                    o_cls = core.AsyncServiceInfo
                    core.AsyncServiceInfo = lambda t, n: info if (t, n) == (TYPE_, sc.get("name", NAME)) else o_cls(t, n)
                    try:
                        if sc["via"] == "aio_get_service_info":
                            # the asyncio front door: AsyncZeroconf.async_get_service_info(type_, name, timeout, question_type)
                            from zeroconf.asyncio import AsyncZeroconf

                            r = await AsyncZeroconf(zc=zc).async_get_service_info(TYPE_, sc.get("name", NAME), sc["timeout"], forced)
                        else:
                            r = await zc.async_get_service_info(TYPE_, sc.get("name", NAME), sc["timeout"], forced)
                    finally:
                        core.AsyncServiceInfo = o_cls
                    obs["entry_object_ok"] = r is None or r is info
                    r = r is not None
                else:
                    r = await info.async_request(zc, sc["timeout"], forced)
                w.cur["ret"] = bool(r)
                obs["result"] = bool(r)
            except asyncio.CancelledError:
                obs["never_returned"] = True
                obs["result"] = None
            obs["t_ret"] = sim.loop.ms
            w.close()
            obs["listener_left"] = info in zc.record_manager.listeners
        finally:
            dog.cancel()
            S.async_update_records, S.async_wait, S._generate_request_query, inf._resolve_all_futures_to_none = o_upd, o_wait, o_gen, o_res
        obs["blocks"] = w.blocks
        obs["final"] = info_fields(info)
        await vsim.close_host(host)

    sim.run(main)
    obs["errors"] = [str(e.get("exception") or e.get("message")) for e in sim.errors]
    return obs


# ------------------------------------------------------------------------------------------
# model line / implementation observation strings


class SentQuery:
    """the datagrams one block handed to `async_send`, read as ONE query: a query whose known answers do not fit one packet
    is split by `DNSOutgoing.packets()` -- questions in the first datagram, known answers continued in the following ones, TC set
    on all but the last (C13's clause; C14's packetisation).  That is legal behaviour, not a second query."""

    def __init__(self, msgs):
        self.msgs = msgs
        self.questions = [q for m in msgs for q in m.questions]
        self.tcs = [m.truncated for m in msgs]

    def answers(self):
        return [r for m in self.msgs for r in m.answers()]


def parse_sent(datagrams, known=None):
    from zeroconf import DNSIncoming

    if not datagrams:
        return "-", None
    m = SentQuery([DNSIncoming(bytes.fromhex(d)) for d in datagrams])
    qs = sorted(q_ident(q) for q in m.questions)
    ans = sorted(ident_line(r) for r in m.answers()) if known is None else known
    return (";".join(qs) or "-") + "#" + (";".join(ans) or "-"), m


def impl_line(b):
    sent, _ = parse_sent(b["sent"], b.get("known"))
    w = b["wait"]
    if w is not None:
        w = str(int(w)) if float(w) == int(w) else repr(w)
    return "asked=%s sent=%s ret=%s wait=%s woke=%s info=%s" % (
        "-" if b["asked"] is None else b["asked"], sent, "-" if b["ret"] is None else C.b01(b["ret"]),
        "-" if w is None else w, C.b01(b["woke"]), b["info"])


def model_line(sc, obs):
    parts = ["c18", C.hs(sc.get("name", NAME)), str(int(sc["timeout"])), str(sc.get("forced", 0)),
             ("s" + C.hs(sc["server"])) if sc.get("server") else "-", str(len(obs["blocks"]))]
    for b in obs["blocks"]:
        cache = "%d %s" % (len(b["cache"]), " ".join(r["line"] for r in b["cache"]))
        hist = "%d %s" % (len(b["hist"]), " ".join(b["hist"]))
        draw = b["draws"][0][2] if b["draws"] else 20
        if b["k"] == "U":
            parts += ["U", str(b["now"]), "%d %s" % (len(b["recs"]), " ".join(r["line"] for r in b["recs"])), cache]
        else:
            parts += [b["k"], str(b["now"]), cache, hist, str(draw)]
    return " ".join(" ".join(parts).split())


# ------------------------------------------------------------------------------------------
# stage O: the property's sentences on the implementation's observations


def expired(r, now):
    return r["created"] + 1000 * r["ttl"] <= now


def stale(r, now):
    return r["created"] + 500 * r["ttl"] <= now


def valid_addr(r):
    return r["kind"] == "DNSAddress" and len(r["addr"]) in (8, 32)


def cache_suffices(cache, name, now):
    """The cache holds an unexpired SRV of the instance, and whichever unexpired SRV of the instance one
    takes, an unexpired address of its host.  (With two live SRVs naming different hosts the property
    does not say which host is meant, so the oracle only speaks when the choice does not matter.)"""
    live = [s for s in cache if s["kind"] == "DNSService" and s["type"] == 33 and s["cls"] == 1
            and s["name"].lower() == name.lower() and not expired(s, now)]

    def has_addr(hk):
        return any(valid_addr(a) and a["type"] in (1, 28) and a["cls"] == 1 and a["name"].lower() == hk and not expired(a, now) for a in cache)

    return bool(live) and all(has_addr(s["srv"][0].lower()) for s in live)


def oracle(sc, obs):
    """-> list of (sig, what)"""
    out = []
    name = sc.get("name", NAME)
    blocks = obs["blocks"]
    timeout = sc["timeout"]
    if obs.get("spinning"):
        return [("C18:never-returns", "the lookup went through 300 blocks without returning (spinning at one instant)")]
    if obs["never_returned"]:
        return [("C18:never-returns", "the lookup had not returned 30 s after its timeout")]
    # --- deadline
    late = obs["t_ret"] - obs["t0"] - timeout
    if late > 0 and timeout >= 0:
        out.append(("C18:late", "returned %d ms after its timeout of %d ms" % (late, timeout)))
    # --- success iff an address is known
    fin = obs["final"]
    has_addr = bool(fin["v4"] or fin["v6"])
    if obs["result"] != has_addr:
        out.append(("C18:iff", "returned %s while %s address is known" % (obs["result"], "an" if has_addr else "no")))
    # --- freshness / provenance: every field was taken from a record that was unexpired WHEN IT WAS READ.  The read is pinned to the
    #     block that gave the field its final value (Lean: `C18_block_fresh` / `AssignedIn`): the last block across which the field
    #     changed must itself have read -- in its cache snapshot or its record list -- an unexpired record carrying that value.  (A record
    #     that sat unexpired in the cache of an EARLIER block does not justify a field assigned later from its expired self.)
    init = {"server": sc.get("server") or None, "server_key": (sc.get("server") or "").lower() or None, "port": None, "priority": 0, "weight": 0,
            "text": "", "v4": [], "v6": []}

    def assigned_in(changed):
        """index of the last block across which `changed(before, after)` holds, or None"""
        k, prev = None, init
        for idx, b in enumerate(blocks):
            if changed(prev, b["fields"]):
                k = idx
            prev = b["fields"]
        return k

    def reads_of(k):
        return blocks[k]["cache"] + blocks[k]["recs"], blocks[k]["now"]

    srv_of = lambda f: (f["server"], f["port"], f["priority"], f["weight"])
    k = assigned_in(lambda a, b: srv_of(a) != srv_of(b))
    if k is not None and srv_of(fin) != srv_of(init):
        reads, t = reads_of(k)
        if not any(r["kind"] == "DNSService" and r["name"].lower() == name.lower() and not expired(r, t) and r["srv"] == srv_of(fin) for r in reads):
            out.append(("C18:stale-srv", "host/port/priority/weight %r were assigned in block %d (+%d ms), which read no unexpired SRV of the instance carrying them"
                        % (srv_of(fin), k, t - obs["t0"])))
    if fin["text"] != "":
        k = assigned_in(lambda a, b: a["text"] != b["text"])
        reads, t = reads_of(k)
        if not any(r["kind"] == "DNSText" and r["name"].lower() == name.lower() and not expired(r, t) and r["text"] == fin["text"] for r in reads):
            out.append(("C18:stale-txt", "TXT %s was assigned in block %d (+%d ms), which read no unexpired TXT record of the instance carrying it" % (fin["text"], k, t - obs["t0"])))
    if obs["result"] is True and fin["server_key"] is None:
        out.append(("C18:success-without-host", "the lookup returned True with host %r and port %r: no SRV record was ever taken, so the address(es) %s are not "
                    "addresses of the service's host" % (fin["server"], fin["port"], fin["v4"] + fin["v6"])))
    for a in fin["v4"] + fin["v6"]:
        # the address entered the object, or stayed while the host changed, in block k
        k = assigned_in(lambda x, y: a in y["v4"] + y["v6"] and (a not in x["v4"] + x["v6"] or x["server_key"] != y["server_key"]))
        ok = False
        if k is not None and fin["server_key"] is not None:
            reads, t = reads_of(k)
            ok = any(r["kind"] == "DNSAddress" and r["name"].lower() == fin["server_key"] and not expired(r, t) and r["addr"] == a for r in reads)
        if not ok:
            out.append(("C18:stale-address", "address %s entered the object in block %s, which read no unexpired address record of host %s carrying it" % (a, k, fin["server_key"])))
    s0 = blocks[0]
    if s0["ret"] is True and fin["server_key"] is not None:
        # answered from the cache: all unexpired addresses of the host
        for r in s0["cache"]:
            if valid_addr(r) and r["type"] in (1, 28) and r["cls"] == 1 and r["name"].lower() == fin["server_key"] and not expired(r, s0["now"]):
                if r["addr"] not in fin["v4"] + fin["v6"]:
                    out.append(("C18:cache-load-incomplete", "answered from the cache without address %s of %s" % (r["addr"], fin["server_key"])))
    # --- cache first
    if cache_suffices(s0["cache"], name, s0["now"]):
        if not (s0["ret"] is True and not s0["sent"] and obs["t_ret"] == obs["t0"]):
            out.append(("C18:cachefirst", "the cache held an unexpired SRV and an unexpired address of its host, yet the lookup %s"
                        % ("transmitted a query" if any(b["sent"] for b in blocks) else "did not answer at once")))
    # --- QU then QM; questions whose (unique) answer is already held are omitted
    forced = sc.get("forced", 0)
    gens = [b for b in blocks if b["asked"] is not None]
    for i, b in enumerate(gens):
        want = (forced or 1) if i == 0 else 2
        if forced and i > 0:
            want = None  # the property leaves later queries open when a type is forced
        line, m = parse_sent(b["sent"])
        if m is None:
            continue
        bits = {q.unique for q in m.questions}
        if want is not None and bits != {want == 1}:
            out.append(("C18:qu-qm-order", "query #%d has QU bits %s, expected %s" % (i + 1, sorted(bits), "QU" if want == 1 else "QM")))
        for q in m.questions:
            if q.type in (33, 16) and q.class_ == 1:
                held = [r for r in b["cache"] if r["type"] == q.type and r["cls"] == 1 and r["name"].lower() == q.name.lower() and not stale(r, b["now"])]
                if held:
                    out.append(("C18:asked-known", "query #%d asks type %d although an unstale answer is cached" % (i + 1, q.type)))
    # --- a question is omitted only when an unstale answer is held (or, under QM, the question was asked on the link
    #     within the last 999 ms: duplicate-question suppression, C13)
    for i, b in enumerate(gens):
        line, m = parse_sent(b["sent"])
        asked_q = {(q.name.lower(), q.type) for q in m.questions if q.class_ == 1} if m is not None else set()
        f = b["fields"]
        for (qname, qtype) in ((f["name"], 33), (f["name"], 16), (f["server"] or f["name"], 1), (f["server"] or f["name"], 28)):
            if (qname.lower(), qtype) in asked_q:
                continue
            if qtype in (33, 16):
                if any(r["type"] == qtype and r["cls"] == 1 and r["name"].lower() == qname.lower() and not stale(r, b["now"]) for r in b["cache"]):
                    continue     # held
            if b["asked"] == 2 and any(hq["type"] == qtype and hq["cls"] == 1 and hq["name"].lower() == qname.lower() and b["now"] - hq["than"] <= 999
                                       for hq in b["histq"]):
                continue         # may have been suppressed as a duplicate question
            out.append(("C18:omitted-unheld", "query #%d (%s) omits the type-%d question for %s although no unstale answer is held"
                        % (i + 1, "QU" if b["asked"] == 1 else "QM", qtype, qname)))
    # --- a lookup that was sent an unexpired address of its host before its deadline succeeds (D22): the lookup failed, ended
    #     with host H, and an unexpired address record of H was handed to it (an `update` block) before it returned, in the datagram
    #     that taught it H or in a later one
    lost = None
    if obs["result"] is False and fin["server_key"] is not None:
        H = fin["server_key"]
        iH = None
        for i in range(len(blocks) - 1, -1, -1):
            if blocks[i]["fields"]["server_key"] == H:
                iH = i
            else:
                break
        if iH is not None:
            # only records handed over in the block that taught it the host, or later: an address that came in an earlier
            # datagram is the cache reload's business (checked by the model / C18_reload_all on that block's cache snapshot)
            for b in blocks[iH:]:
                if b["k"] != "U" or b["now"] >= obs["t_ret"]:
                    continue
                for r in b["recs"]:
                    if valid_addr(r) and r["type"] in (1, 28) and r["cls"] == 1 and r["name"].lower() == H and not expired(r, b["now"]):
                        lost = (r["addr"], b["now"] - obs["t0"])
    if lost is not None:
        out.append(("C18:address-before-srv-lost", "address %s of the service's host was delivered to the lookup %d ms after its start, unexpired, "
                    "yet it returned False at %d ms without any address (D22's mechanism -- the address record preceded the SRV record in its datagram, was "
                    "dropped while the host was unknown, and the SRV branch re-read a cache that did not hold it yet -- or the record was refused for another reason)"
                    % (lost[0], lost[1], obs["t_ret"] - obs["t0"])))
    # --- with a responder that answers every question, the questions the lookup must ask lead to success
    elif sc.get("liveness") and obs["result"] is not True:
        out.append(("C18:responder-not-heard", "a responder owning the instance answered every question within %d ms, "
                    "yet the lookup failed at its timeout of %d ms" % (sc["responder"]["delay"], timeout)))
    if obs.get("lfc") is not None:
        # `ServiceInfo.load_from_cache(zc)` (public, `now` defaulted) at the very instant the lookup started is the lookup's own first step:
        # it is complete iff the lookup answered from the cache, with the same fields
        ok0, f0 = obs["lfc"]
        s0_ = blocks[0]
        if ok0 != (s0_["ret"] is True) or (ok0 and any(f0[k] != s0_["fields"][k] for k in ("server", "port", "priority", "weight", "text", "v4", "v6"))):
            out.append(("C18:load-from-cache-public", "ServiceInfo.load_from_cache(zc) at the start of the lookup returned %s with %s/%s %s; the lookup's own cache load gave %s with %s/%s %s"
                        % (ok0, f0["server"], f0["port"], f0["v4"] + f0["v6"], s0_["ret"] is True, s0_["fields"]["server"], s0_["fields"]["port"], s0_["fields"]["v4"] + s0_["fields"]["v6"])))
    if obs.get("errors"):
        out.append(("C18:exception", "exception in the event loop: %s" % obs["errors"][0]))
    if obs.get("entry_object_ok") is False:
        out.append(("C18:entry-point-object", "async_get_service_info returned an object other than the one it ran the lookup on"))
    if obs.get("listener_left"):
        out.append(("C18:listener-left", "the lookup was still registered as a listener after it returned"))
    return out


# ------------------------------------------------------------------------------------------
# generators


def gen_scenario(rng, idx):
    timeout = rng.choice([200, 201, 219, 220, 221, 319, 320, 321, 500, 1000, 1419, 1500, 3000, 10000, rng.randint(200, 10000), rng.randint(200, 1600)])
    draws = [rng.choice([20, 120, rng.randint(20, 120)]) for _ in range(12)]
    qtimes = [0]
    delay = 200
    for i, d in enumerate(draws[:6]):
        qtimes.append(qtimes[-1] + delay + d)
        if i >= 1 or False:
            delay = 999
    sc = {"timeout": timeout, "forced": rng.choice([0, 0, 0, 1, 2]), "draws": draws, "simseed": rng.randint(0, 10**6),
          "via": rng.choice(["get_service_info", "aio_get_service_info"]) if rng.random() < 0.2 else None,
          "maxdelay": rng.choice([0, 0, 3, 20]), "warmup": rng.choice([0, 0, 137, 9990, 9999]), "pre": [], "events": [], "prehist": []}

    def age_for(ttl):
        full, half = ttl * 1000, ttl * 500
        c = rng.random()
        if c < 0.30:
            return rng.choice([1, 1000, max(1, half - 1), rng.randint(1, max(1, half - 1))])          # fresh
        if c < 0.45:
            return rng.choice([half, half + 1, max(half, full - 1), rng.randint(half, max(half, full - 1))])  # stale
        if c < 0.70:
            return rng.choice([full, full + 1, full + 5000, full + rng.randint(0, 9000)])            # expired, unpurged
        d = rng.choice([1, 100, 219, 220, timeout - 1, timeout, timeout + 1, rng.randint(1, timeout + 1)])
        return max(1, rng.choice([full, half]) - d)                                                # expires / goes stale during the lookup

    def ttl():
        return rng.choice([120, 120, 4500, 10, 2, 1])

    def srv(host, variant=0, name=None):
        return {"k": "srv", "name": name or rng.choice(NAME_SPELLINGS), "ttl": ttl(), "server": rng.choice(HOST_SPELLINGS[host]),
                "port": 80 + variant, "prio": variant, "weight": 2 * variant, "unique": rng.random() < 0.8}

    def txt(variant=0):
        return {"k": "txt", "name": rng.choice(NAME_SPELLINGS), "ttl": ttl(), "text": ("03613d3%d" % variant) if rng.random() < 0.9 else "", "unique": rng.random() < 0.8}

    def addr(host, v6=False, i=None):
        pool = V6 if v6 else V4
        return {"k": "aaaa" if v6 else "a", "name": rng.choice(HOST_SPELLINGS[host]), "ttl": ttl(),
                "addr": pool[rng.randrange(len(pool)) if i is None else i % len(pool)], "unique": rng.random() < 0.8}

    host = pick_host(rng)
    other = [h for h in HOSTS if h != host][0]
    if sc["via"] is None and rng.random() < 0.08:
        sc["server"] = rng.choice(HOST_SPELLINGS[rng.choice([host, host, other])] + [host.upper()])
    # ---- cache before the lookup
    mode = rng.random()
    if mode < 0.85:
        nsrv = rng.choice([0, 1, 1, 1, 2])
        for v in range(nsrv):
            s = srv(host if v == 0 or rng.random() < 0.5 else other, v)
            s["age"] = age_for(s["ttl"])
            sc["pre"].append(s)
        for v in range(rng.choice([0, 1, 1, 2])):
            t = txt(v)
            t["age"] = age_for(t["ttl"])
            sc["pre"].append(t)
        for h in (host, other):
            if h == other and rng.random() < 0.6:
                continue
            for i in range(rng.choice([0, 1, 1, 2, 3])):
                a = addr(h, False)
                a["age"] = age_for(a["ttl"])
                sc["pre"].append(a)
            for i in range(rng.choice([0, 0, 1, 2])):
                a = addr(h, True)
                a["age"] = age_for(a["ttl"])
                sc["pre"].append(a)
        if rng.random() < 0.08:
            odd = {"k": rng.choice(["a", "aaaa"]), "name": host, "ttl": 120, "addr": rng.choice(["0a0000", "0a00000102", V6[0], V4[0]]),
                   "age": rng.choice([60000, 70000, 120000])}   # never unstale: an odd-length address would not survive the wire as a known answer
            sc["pre"].append(odd)
        if rng.random() < 0.1:
            sc["pre"].append({"k": "srv", "name": "other._x._tcp.local.", "ttl": 120, "server": host, "port": 9, "age": 5})
        if rng.random() < 0.1:
            sc["pre"].append({"k": "a", "name": host, "ttl": 120, "addr": V4[0], "cls": 3, "age": 5})   # wrong class
        if rng.random() < 0.03:
            # more known answers than one packet holds (about 88 A records): the query goes out as a TC train.  The records are named
            # like the instance (asked while no SRV is known: `server or name`) or like the host
            owner = rng.choice(NAME_SPELLINGS + [host])
            many_ttl = rng.choice([120, 4500])
            for i in range(rng.choice([60, 90, 90, 150, 200])):
                sc["pre"].append({"k": "a", "name": owner, "ttl": many_ttl, "addr": "0a01%02x%02x" % (i // 250, i % 250), "unique": True,
                                  "age": rng.choice([1, 1000, many_ttl * 500 - 1, many_ttl * 500]) if rng.random() < 0.9 else age_for(many_ttl)})
        rng.shuffle(sc["pre"])
    # ---- arrivals
    cands = sorted(set(t for q in qtimes for t in (q - 1, q, q + 1) if t >= 0) | {timeout - 1, timeout, timeout + 1, 1, 199, 200})
    for _ in range(rng.choice([0, 1, 1, 2, 2, 3, 4])):
        at = rng.choice(cands) if rng.random() < 0.7 else rng.randint(0, timeout + 50)
        if rng.random() < 0.15:
            qs = [(NAME, 33), (NAME, 16), (host, 1), (host, 28), (NAME, 1), (NAME, 28)]
            ev = {"at": at, "kind": "query", "qs": rng.sample(qs, rng.randint(1, 4)), "known": []}
            if rng.random() < 0.4:
                ev["known"] = [srv(host)]
        else:
            recs = []
            for kind in rng.sample(["srv", "txt", "a", "aaaa", "a2", "osrv", "oa", "bye", "xsrv", "xtxt", "na", "na"], rng.randint(1, 4)):
                if kind == "na":
                    # an address record OWNED BY THE INSTANCE NAME (a third party answering the lookup's own `A <server or name>` question, or a
                    # peer registered without `server=` whose address travels ahead of its SRV): while no SRV is known the lookup has no host,
                    # and this is not an address of the service's host
                    recs.append({"k": rng.choice(["a", "a", "aaaa"]), "name": rng.choice(NAME_SPELLINGS), "ttl": ttl(), "addr": None, "unique": rng.random() < 0.8})
                    recs[-1]["addr"] = rng.choice(V6 if recs[-1]["k"] == "aaaa" else V4)
                elif kind == "srv":
                    recs.append(srv(host, rng.choice([0, 0, 1])))
                elif kind == "osrv":
                    recs.append(srv(other, 1))
                elif kind == "txt":
                    recs.append(txt(rng.choice([0, 1])))
                elif kind == "a":
                    recs.append(addr(host, False))
                elif kind == "a2":
                    recs.append(addr(host, False))
                elif kind == "aaaa":
                    recs.append(addr(host, True))
                elif kind == "xsrv":   # another instance's records must never be taken
                    recs.append(srv(other, 1, name=rng.choice(["other._x._tcp.local.", "Inst2._x._tcp.local."])))
                    recs[-1]["port"] = 99
                elif kind == "xtxt":
                    x = txt(1)
                    x["name"] = "other._x._tcp.local."
                    x["text"] = "03783d39"
                    recs.append(x)
                elif kind == "oa":
                    recs.append(addr(other, rng.random() < 0.3))
                else:
                    g = rng.choice([srv(host), txt(), addr(host, False)])
                    g["ttl"] = 0
                    recs.append(g)
            rng.shuffle(recs)
            ev = {"at": at, "kind": "resp", "recs": recs}
        sc["events"].append(ev)
    if rng.random() < 0.12:
        # history reached by datagrams alone: announcements (possibly flapping between hosts) before the lookup
        sc["warmup"] = 0
        for _ in range(rng.randint(1, 4)):
            recs = [srv(rng.choice(HOSTS), rng.choice([0, 1]))]
            recs[0]["unique"] = True
            recs[0]["ttl"] = rng.choice([120, 120, 4500, 2])
            if rng.random() < 0.6:
                recs.append(addr(rng.choice(HOSTS), rng.random() < 0.3))
            if rng.random() < 0.3:
                recs.append(txt(0))
            sc.setdefault("preevents", []).append({"before": rng.choice([9500, 8000, 6000, 4000, 2500, 1500, 999, 500, 1]), "kind": "resp", "recs": recs})
    if rng.random() < 0.15:
        sc["prehist"].append({"name": rng.choice([NAME, host]), "type": rng.choice([33, 16, 1, 28]), "age": rng.choice([0, 1, 500, 998, 999, 1000]), "known": []})
    v6_scope(rng, sc)
    return sc


def v6_scope(rng, sc):
    """15 % of the scenarios are received on an IPv6 socket: datagrams come from a 4-tuple source with a scope id, and every link-local
    AAAA record -- cached before (it was received the same way) or arriving -- carries that one scope id, so that an address object
    is still determined by its packed bytes (the model's view)"""
    if rng.random() < 0.15:
        sc["v6scope"] = rng.choice([1, 3, 12])
        for spec in sc["pre"]:
            if spec["k"] == "aaaa":
                spec["scope"] = sc["v6scope"]


def gen_responder_scenario(rng, idx):
    """a responder owns the instance; the cache holds old copies of *its* records (same rdata) in chosen states --
    stale or expired-but-unpurged SRV/TXT with no fresh copy in particular; nothing else arrives"""
    host = pick_host(rng)
    rsp = {"host": host, "port": rng.choice([80, 8080]), "prio": 0, "weight": 0, "text": rng.choice(["03613d30", "", "03613d31"]),
           "a": rng.sample(V4, rng.randint(0, 2)), "aaaa": [], "ttl": rng.choice([120, 120, 4500, 10]), "delay": rng.choice([0, 1, 7, 20, 50]),
           "extra": rng.choice([None, None, "srv-first", "addr-first"])}
    if not rsp["a"] or rng.random() < 0.3:
        rsp["aaaa"] = rng.sample(V6, rng.randint(1, 2))
    timeout = rng.choice([1000, 1500, 3000, 10000, rng.randint(1000, 10000)])
    sc = {"timeout": timeout, "forced": rng.choice([0, 0, 0, 1, 2]), "draws": [rng.choice([20, 120, rng.randint(20, 120)]) for _ in range(12)],
          "simseed": rng.randint(0, 10**6), "maxdelay": rng.choice([0, 0, 3]), "warmup": rng.choice([0, 0, 137, 9000]),
          "pre": [], "events": [], "prehist": [], "responder": rsp, "liveness": True,
          "via": rng.choice(["get_service_info", "aio_get_service_info"]) if rng.random() < 0.2 else None}

    def age_state(ttl, states):
        st = rng.choice(states)
        full, half = ttl * 1000, ttl * 500
        if st == "fresh":
            return rng.choice([1, 1000, max(1, half - 1)])
        if st == "stale":
            return rng.choice([half, half + 1, max(half, full - 1), rng.randint(half, max(half, full - 1))])
        return rng.choice([full, full + 1, full + 4000, full + rng.randint(0, 9000)])    # expired, unpurged

    def spell(h):
        return rng.choice(HOST_SPELLINGS[h])

    # SRV / TXT: none, or one or two old copies; mostly without a fresh one
    for kind in ("srv", "txt"):
        states = rng.choice([[], ["stale"], ["expired"], ["expired"], ["stale", "expired"], ["expired", "expired"], ["fresh"], ["expired", "fresh"]])
        for j, st in enumerate(states):
            if j > 0 and st != "expired":
                continue      # a second copy is an older version of the record (other rdata, else it would be the same cache entry): expired only
            ttl = rng.choice([120, 10, 4500])
            if kind == "srv":
                r = {"k": "srv", "name": rng.choice(NAME_SPELLINGS), "ttl": ttl, "server": spell(host), "port": rsp["port"] + j, "prio": 0, "weight": 0, "unique": True}
            else:
                r = {"k": "txt", "name": rng.choice(NAME_SPELLINGS), "ttl": ttl, "text": rsp["text"] if j == 0 else "03783d39", "unique": True}
            r["age"] = age_state(ttl, [st])
            sc["pre"].append(r)
    for a in rsp["a"]:
        if rng.random() < 0.5:
            ttl = rng.choice([120, 10])
            sc["pre"].append({"k": "a", "name": spell(host), "ttl": ttl, "addr": a, "unique": True, "age": age_state(ttl, ["fresh", "stale", "expired", "expired"])})
    for a in rsp["aaaa"]:
        if rng.random() < 0.5:
            ttl = rng.choice([120, 10])
            sc["pre"].append({"k": "aaaa", "name": spell(host), "ttl": ttl, "addr": a, "unique": True, "age": age_state(ttl, ["fresh", "stale", "expired", "expired"])})
    rng.shuffle(sc["pre"])
    v6_scope(rng, sc)
    return sc


def gen_history_scenario(rng, idx):
    """The cache is built by the real receive path alone (response datagrams through `datagram_received`), with histories in which the
    SAME record is received more than once: re-announced with another TTL, flushed and re-announced, or repeated byte-identically in a
    steady stream.  `truth` is what RFC 6762 section 10 says the cache holds when the lookup starts -- a record's life starts at its
    last sighting, with that sighting's TTL -- written down by the generator, independent of what the cache claims."""
    host = pick_host(rng)
    sc = {"timeout": rng.choice([300, 500, 1000]), "forced": 0, "draws": [rng.choice([20, 120]) for _ in range(12)], "simseed": rng.randint(0, 10**6),
          "maxdelay": 0, "warmup": 0, "pre": [], "events": [], "prehist": [], "preevents": [], "via": None}
    fam = rng.choice(["ttl-change", "ttl-change", "flush-reannounce", "stream", "stream"])
    sc["family"] = fam
    srv = {"k": "srv", "name": NAME, "server": host, "port": 80, "prio": 0, "weight": 0, "unique": True}
    txt = {"k": "txt", "name": NAME, "text": "03613d31", "unique": True}
    a1 = {"k": "a", "name": host, "addr": V4[0], "unique": True}
    a2 = {"k": "a", "name": host, "addr": V4[1], "unique": True}

    def recs(specs, ttl):
        return [dict(x, ttl=ttl) for x in specs]

    if fam == "ttl-change":
        # announced with TTL t1, re-announced (equal records) with TTL t2: the second announcement decides
        t1, t2 = rng.choice([(120, 2), (120, 2), (4500, 3), (2, 120), (3, 4500), (120, 10)])
        gap = rng.choice([1000, 1500]) if t1 <= 3 else rng.choice([1500, 4000, 30000])    # the second arrives while the first is still cached
        b2 = rng.choice([500, 1000 * t2 - 1, 1000 * t2, 1000 * t2 + 1, 5000, 1500])
        sc["preevents"] = [{"before": b2 + gap, "kind": "resp", "recs": recs([srv, txt, a1], t1)}, {"before": b2, "kind": "resp", "recs": recs([srv, txt, a1], t2)}]
        sc["truth"] = [dict(x, before=b2) for x in recs([srv, txt, a1], t2)]
    elif fam == "flush-reannounce":
        # A1 cached for more than a second; A2 announced alone with the flush bit (A1 is set to expire in one second); A1 announced again
        # less than a second after A2 (so A2 is not flushed in turn): both addresses live on with their own TTLs
        b3 = rng.choice([2000, 3000, 5000])
        d23 = rng.choice([300, 500, 900])
        b1 = b3 + d23 + rng.choice([1500, 5000])
        sc["preevents"] = [{"before": b1, "kind": "resp", "recs": recs([srv, txt, a1], 120)},
                           {"before": b3 + d23, "kind": "resp", "recs": recs([a2], 120)},
                           {"before": b3, "kind": "resp", "recs": recs([a1], 120)}]
        sc["truth"] = [dict(x, before=b1) for x in recs([srv, txt], 120)] + [dict(a2, ttl=120, before=b3 + d23), dict(a1, ttl=120, before=b3)]
    else:
        # a responder repeats one and the same response (byte-identical) every `d` ms, d < 1 s, for longer than the records' TTL: the
        # duplicate-packet guard may drop a copy that follows a PROCESSED copy by less than a second, so at least every second copy
        # is processed and the records never run out
        ttl = rng.choice([2, 3])
        d = rng.choice([300, 500, 800, 900])
        tail = rng.choice([1, d // 2, d - 1])
        n = (ttl * 1000 + 3000) // d + 2
        sc["preevents"] = [{"before": tail + j * d, "kind": "resp", "recs": recs([srv, txt, a1], ttl)} for j in range(n)]
        # worst case: the last copy was dropped as a duplicate, the one before it was processed
        sc["truth"] = [dict(x, before=tail + d) for x in recs([srv, txt, a1], ttl)]
    return sc


def truth_cache(sc, t0):
    """the generator's statement of what the cache holds at the start of the lookup, in the format of `Watch.snap`"""
    out = []
    for spec in sc["truth"]:
        r = mk_record(spec, created=t0 - spec["before"])
        out.append({"name": r.name, "type": r.type, "cls": r.class_, "ttl": int(r.ttl), "created": int(r.created), "kind": type(r).__name__,
                    "addr": getattr(r, "address", b"").hex() if type(r).__name__ == "DNSAddress" else None,
                    "srv": (r.server, r.port, r.priority, r.weight) if type(r).__name__ == "DNSService" else None,
                    "text": r.text.hex() if type(r).__name__ == "DNSText" else None})
    return out


def oracle_by_datagrams(sc, obs):
    """the cache clauses of the property measured against the datagrams the instance received instead of against the cache's own
    bookkeeping: 'unexpired' = unexpired by the last sighting of the record"""
    out = []
    name = sc.get("name", NAME)
    blocks, fin = obs["blocks"], obs["final"]
    s0 = blocks[0]
    tc = truth_cache(sc, obs["t0"])
    at_once = s0["ret"] is True and not s0["sent"] and obs["t_ret"] == obs["t0"]
    if cache_suffices(tc, name, s0["now"]) and not at_once:
        out.append(("C18:cachefirst", "by the datagrams received (%s) the cache holds an unexpired SRV and an unexpired address of its host, yet the lookup %s"
                    % (sc["family"], "transmitted a query" if any(b["sent"] for b in blocks) else "did not answer at once")))
    if at_once:
        srv = (fin["server"], fin["port"], fin["priority"], fin["weight"])
        if not any(r["kind"] == "DNSService" and r["name"].lower() == name.lower() and not expired(r, s0["now"]) and r["srv"] == srv for r in tc):
            out.append(("C18:stale-srv", "answered from the cache with host/port %r, but by the datagrams received (%s) no SRV of the instance carrying them is unexpired: "
                        "a record's life starts at its last sighting, with that sighting's TTL" % (srv, sc["family"])))
        for a in fin["v4"] + fin["v6"]:
            if not any(r["kind"] == "DNSAddress" and r["name"].lower() == (fin["server_key"] or "") and not expired(r, s0["now"]) and r["addr"] == a for r in tc):
                out.append(("C18:stale-address", "answered from the cache with address %s, which by the datagrams received (%s) had expired" % (a, sc["family"])))
        for r in tc:
            if valid_addr(r) and r["name"].lower() == (fin["server_key"] or "") and not expired(r, s0["now"]) and r["addr"] not in fin["v4"] + fin["v6"]:
                out.append(("C18:cache-load-incomplete", "answered from the cache without address %s of %s, which by the datagrams received (%s) is unexpired"
                            % (r["addr"], fin["server_key"], sc["family"])))
    return out


def nontriv_key(sc, obs):
    b0 = obs["blocks"][0]
    kinds = tuple(sorted({(r["type"], "E" if expired(r, b0["now"]) else ("S" if stale(r, b0["now"]) else "F")) for r in b0["cache"]}))
    shape = "".join(b["k"] + ("q" if b["sent"] else "") for b in obs["blocks"])
    return "%s|%s|%s|%s" % (kinds, shape, obs["result"], sc.get("forced", 0))


# ------------------------------------------------------------------------------------------


def check_cases(cases, res, ctx, label):
    """run scenarios on the implementation, diff with the model, evaluate the oracle"""
    runs = []
    bad = 0
    for sc in cases:
        try:
            obs = run_scenario(sc)
        except Exception as ex:  # the simulator / harness failing is not a verdict about the code
            raise RuntimeError("scenario crashed: %r on %s" % (ex, json.dumps(sc)[:400]))
        runs.append((sc, obs))
        if obs.get("spinning") or obs["never_returned"]:
            bad += 1
            if bad >= 20:      # a tree on which lookups do not return: enough evidence, do not spin through the whole budget
                break
    model = None
    if ctx["driver_ok"]:
        try:
            model = C.run_driver(["ping" if obs.get("spinning") else model_line(sc, obs) for sc, obs in runs])
        except C.DriverUnavailable as ex:
            res.notes.append("driver unavailable: %s" % ex)
    for i, (sc, obs) in enumerate(runs):
        res.evaluations += 1
        res.nontriv(nontriv_key(sc, obs))
        res.count("%s:result=%s" % (label, obs["result"]))
        res.count("blocks", len(obs["blocks"]))
        res.count("queries", sum(1 for b in obs["blocks"] if b["sent"]))
        if i < 2:
            res.sample({"scenario": {k: sc[k] for k in ("timeout", "forced")}, "blocks": [impl_line(b) for b in obs["blocks"]][:6]})
        for sig, what in oracle(sc, obs) + (oracle_by_datagrams(sc, obs) if sc.get("truth") else []):
            res.count("oracle:" + sig)
            if res.dist["oracle:" + sig] <= 5:    # a few cases per signature: a frequent (known) one must not crowd out a rare one
                res.violate(sig, what, sc)
        if model is not None and not obs.get("spinning"):
            impl = [impl_line(b) for b in obs["blocks"]]
            mod = model[i].split(" | ")
            if impl != mod:
                k = next((j for j in range(max(len(impl), len(mod))) if j >= len(impl) or j >= len(mod) or impl[j] != mod[j]), 0)
                res.disagree("c18-blocks", sc, {"block": k, "obs": impl[k] if k < len(impl) else None, "kind": obs["blocks"][k]["k"] if k < len(impl) else None},
                             {"block": k, "obs": mod[k] if k < len(mod) else None})
    return runs


def run(ctx):
    res = C.Result("C18")
    rng = C.rng_for(ctx["seed"], "c18")
    n = C.Budget(ctx["tier"], 6000, 150000).n
    if ctx["widened"]:
        n *= 4
    corpus = [body.get("case", body) for _, body in C.load_corpus("C18")]
    check_cases(corpus, res, ctx, "corpus")
    cases = [gen_responder_scenario(rng, i) if i % 5 == 4 else (gen_history_scenario(rng, i) if i % 20 == 7 else gen_scenario(rng, i)) for i in range(n)]
    check_cases(cases, res, ctx, "gen")
    res.rule = ("one lookup per scenario on a simulated host: cache pre-filled with 0-2 SRV, 0-2 TXT, 0-3 A, 0-2 AAAA per host "
                "(fresh / stale / expired-unpurged / on the boundary / expiring during the lookup; TTL 1 s-4500 s; names in several spellings), "
                "0-4 response or foreign-query datagrams at times around each query instant and the deadline, timeouts 200 ms-10 s, "
                "every fifth scenario: a responder owning the instance answers exactly the questions asked while the cache holds old copies of its records "
                "(stale / expired-unpurged SRV/TXT without a fresh copy), "
                "question type unforced/QU/QM, jitter draws on {20,120,random}; non-trivial = distinct (cache kinds x state, block shape, result, forced)")
    return res


def replay(body):
    if "case" in body:
        sc = body["case"]
    elif body.get("disagreements"):      # a stage-C replay file: re-run the first disagreeing scenario
        sc = body["disagreements"][0]["case"]
    elif "timeout" in body:
        sc = body
    else:
        return {"violates": None, "note": "no scenario in this replay file (stage %s: %s)" % (body.get("stage"), body.get("broken"))}
    obs = run_scenario(sc)
    v = oracle(sc, obs) + (oracle_by_datagrams(sc, obs) if sc.get("truth") else [])
    out = {"violates": bool(v), "violations": [{"sig": s, "what": w} for s, w in v], "result": obs["result"],
           "returned_after_ms": obs["t_ret"] - obs["t0"], "blocks": [b["k"] + " t=%d " % (b["now"] - obs["t0"]) + impl_line(b) for b in obs["blocks"]]}
    try:
        m = C.run_driver([model_line(sc, obs)])[0].split(" | ")
        out["model_agrees"] = m == [impl_line(b) for b in obs["blocks"]]
    except Exception as ex:
        out["model_agrees"] = "driver unavailable: %s" % ex
    return out
