"""C08 -- withdrawn services stay withdrawn: complete goodbyes, no resurrection.

Trace acceptance: a real `Zeroconf` instance runs under the virtual-time simulator with services registered,
queries arriving (answered at once, aggregated up to 500 ms, or flood-delayed by 1 s) and services being
unregistered / updated / the instance closed at offsets around those queries.  The atomic blocks (registry
operations, broadcast-task steps, queue adds, queue timer firings, immediate answers, close) are logged by
class-level wrappers and replayed through the Lean model `Zc.Goodbye.Host.step` (driver command `c08run`), which
must find every block enabled and predict every datagram (stage C).  The property's own sentence -- three
complete goodbyes (on every interface), and afterwards never one of those records with a non-zero TTL -- is evaluated on
the wire-level log by an independent oracle (stage O).  Every simulated instance ends in `AsyncZeroconf.async_close`, and
the close is judged like an unregister of everything that is still registered.
"""
from __future__ import annotations

import asyncio

from . import c09
from . import common as C
from . import vsim

TRACE = True
TRUSTED = [
    "virtual-time simulator harness/vsim.py; DNSIncoming as decoder of observed datagrams; record identity (== of decoded records) as proved in C20",
    "which records answer a query and by which route (now / aggregated / delayed / unicast) is an input of the model, constrained to records of "
    "currently registered services (C03, C11, C12); queue timer instants are inputs (C12); type-enumeration queries are not generated",
]
ASSUMPTIONS = ["asyncio runs callbacks to completion (atomic blocks); a due task step is executed (loop axiom); "
               "'never again' ends, record by record, when a service defining that very record is registered again"]

GOODBYE = 125  # ms between goodbyes      (English statement)
T0 = 10_000

HOSTS = [("hosta.local.", ["0a000001"], []), ("hostb.local.", ["0a000002"], ["fe80000000000000000000000000000b"]),
         ("HostA.Local.", ["0a000001"], []), ("hostd.local.", [], ["fe80000000000000000000000000000d"])]
TYPES = ["_http._tcp.local.", "_x._udp.local."]
OFFS = [-200, -1, 0, 1, 5, 19, 20, 21, 60, 119, 120, 121, 250, 375, 499, 500, 501, 620, 800, 999, 1000, 1001, 1119, 1120, 1121, 1200, 1300]


def gen_overlap(rng, idx):
    """two services on one host name whose address sets overlap only partly: a withdrawn address can sit in the queue as an
    *additional* of an answer that is not withdrawn"""
    v6 = ["fe80000000000000000000000000000c"]
    svcs = [{"inst": "svc%d" % i, "type": rng.choice(TYPES), "server": "hostc.local.", "v4": ["0a00000%d" % (3 + i)], "v6": v6, "port": 80 + i,
             "text": "", "host_ttl": 120, "other_ttl": 4500} for i in range(2)]
    q = rng.choice([900, 1100, 1300, 1700]) + rng.randint(0, 30)
    first = rng.randrange(2)
    ops = [{"op": "register", "svc": 0, "at": 0}, {"op": "register", "svc": 1, "at": 0},
           {"op": "query", "at": q, "svc": first, "kind": rng.choice(["a", "a", "ptr+a"]), "delay": 0},
           {"op": "unregister", "svc": first, "at": q + rng.choice([2, 5, 40])},
           {"op": "unregister", "svc": 1 - first, "at": q + rng.choice([6, 50, 200])}]
    return {"idx": idx, "svcs": svcs, "ops": ops, "seed": rng.randrange(1 << 30), "delays": [0] * 60, "draws": [rng.choice([20, 60, 120]) for _ in range(6)]}


def gen_nsec(rng, idx):
    """a host with one address family whose name is not shared: a multi-question A/AAAA query is answered by the NSEC record as
    an aggregated *answer*; it is still queued (second group holds the queue until +500 ms, or flood-delayed by 1 s) when the
    service is unregistered"""
    h = rng.choice([HOSTS[0], HOSTS[3]])
    svcs = [{"inst": "svc0", "type": rng.choice(TYPES), "server": h[0], "v4": list(h[1]), "v6": list(h[2]), "port": 80, "text": "",
             "host_ttl": 120, "other_ttl": 4500}]
    if rng.random() < 0.3:
        svcs.append({"inst": "svc1", "type": rng.choice(TYPES), "server": "hostb.local.", "v4": ["0a000002"], "v6": [], "port": 81, "text": "",
                     "host_ttl": 120, "other_ttl": 4500})
    q = rng.choice([850, 1100, 1500, 2000, 2500]) + rng.randint(0, 30)
    ops = [{"op": "register", "svc": i, "at": 0} for i in range(len(svcs))]
    ops.append({"op": "query", "at": q, "svc": 0, "kind": rng.choice(["resolve", "resolve", "a+aaaa", "ptr+aaaa"]), "delay": 0})
    if rng.random() < 0.7:
        ops.append({"op": "query", "at": q + rng.choice([5, 10, 30]), "svc": 0, "kind": rng.choice(["ptr", "ptr+txt", "txt+srv"]), "delay": 0})
    ops.append({"op": rng.choice(["unregister", "unregister", "unregister_all"]), "svc": 0, "at": q + rng.choice([1, 20, 50, 100, 240])})
    return {"idx": idx, "svcs": svcs, "ops": ops, "seed": rng.randrange(1 << 30), "delays": [0] * 60,
            "draws": [rng.choice([20, 21, 60]), rng.choice([60, 119, 120])] + [rng.choice([20, 60, 120]) for _ in range(6)]}


def gen_superseded(rng, idx):
    """a record of the service is queued, then update_service replaces it by one with other rdata, then the service is withdrawn:
    the superseded record is covered by nobody (known finding D20)"""
    h = rng.choice([HOSTS[0], HOSTS[1]])
    svcs = [{"inst": "svc0", "type": rng.choice(TYPES), "server": h[0], "v4": list(h[1]), "v6": list(h[2]), "port": 80, "text": "03613d31",
             "host_ttl": 120, "other_ttl": 4500, "weight": rng.choice([0, 5]), "priority": rng.choice([0, 3])}]
    q = rng.choice([900, 1100, 1500]) + rng.randint(0, 30)
    ops = [{"op": "register", "svc": 0, "at": 0},
           {"op": "query", "at": q, "svc": 0, "kind": rng.choice(["srv", "txt+srv", "resolve", "any"]), "delay": 0},
           {"op": "update", "svc": 0, "at": q + rng.choice([5, 10, 100]), "via": "copy",
            "change": rng.choice([{"port": 81}, {"text": "03623d32"}, {"port": 81, "text": "03623d32"}, {"weight": 11, "priority": 13}])},
           {"op": rng.choice(["unregister", "unregister", "unregister_all"]), "svc": 0, "at": q + rng.choice([110, 200, 400]), "via": rng.choice(["same", "copy"])}]
    return {"idx": idx, "svcs": svcs, "ops": ops, "seed": rng.randrange(1 << 30), "delays": [0] * 60, "draws": [rng.choice([20, 60, 120]) for _ in range(6)]}


BIG_TXT = (b"\xfa" + b"k=" + b"v" * 248) * 6  # 1506 bytes of TXT rdata: the record needs a datagram of its own (> 1460 bytes)


def gen_reuse(rng, idx):
    """the same ServiceInfo object is unregistered and handed to async_register_service again at once, the goodbye task not
    awaited (the host's own announcement of the name is still in its cache: with renaming allowed the object is renamed before the
    goodbye task's first step -- D27, repaired)"""
    h = rng.choice([HOSTS[0], HOSTS[1]])
    svcs = [{"inst": "svc0", "type": rng.choice(TYPES), "server": h[0], "v4": list(h[1]), "v6": list(h[2]), "port": 80, "text": "",
             "host_ttl": 120, "other_ttl": 4500}]
    if rng.random() < 0.4:
        svcs.append({"inst": "svc1", "type": rng.choice(TYPES), "server": rng.choice([h[0], "hostb.local."]), "v4": ["0a000002"], "v6": [], "port": 81, "text": "",
                     "host_ttl": 120, "other_ttl": 4500})
    at = rng.choice([900, 1500, 3000]) + rng.randint(0, 30)
    ops = [{"op": "register", "svc": i, "at": 0} for i in range(len(svcs))]
    if rng.random() < 0.5:
        ops.append({"op": "query", "at": at - rng.choice([5, 40, 300]), "svc": 0, "kind": rng.choice(["ptr", "srv", "resolve"]), "delay": 0})
    ops.append({"op": "reregister", "svc": 0, "at": at, "allow": rng.random() < 0.8, "gap": rng.choice([0, 0, 0, 100, 300])})
    return {"idx": idx, "svcs": svcs, "ops": ops, "seed": rng.randrange(1 << 30), "delays": [0] * 60, "draws": [rng.choice([20, 60, 120]) for _ in range(6)]}


BAD_SERVER = "%s.local." % ("h" * 64)  # a 64-byte label: cannot be put on the wire (ServiceInfo does not validate host names)


def gen_refused_update(rng, idx):
    """an update whose records cannot be encoded (64-byte label in `server`) is attempted and refused (NamePartTooLongException, the
    D28 repair); later the instance is closed / unregister-all is called while other services are registered: the refused info must not
    have reached the registry (C08-w5-seed2: the goodbye of *every* service would raise in `packets()`)"""
    svcs = [{"inst": "svc%d" % i, "type": rng.choice(TYPES), "server": ["hosta.local.", "hostb.local."][i], "v4": ["0a00000%d" % (1 + i)], "v6": [], "port": 80 + i,
             "text": "", "host_ttl": 120, "other_ttl": 4500} for i in range(2)]
    at = rng.choice([900, 1500, 2500]) + rng.randint(0, 30)
    ops = [{"op": "register", "svc": 0, "at": 0}, {"op": "register", "svc": 1, "at": 0},
           {"op": "update", "svc": 0, "at": at, "via": rng.choice(["copy", "copy", "same"]), "change": {"server": BAD_SERVER}, "refused": True}]
    if rng.random() < 0.5:
        ops.append({"op": "query", "at": at + rng.choice([5, 300]), "svc": 1, "kind": rng.choice(["ptr", "srv", "a"]), "delay": 0})
    ops.append({"op": rng.choice(["close", "unregister_all", "unregister"]), "svc": rng.choice([0, 1]), "at": at + rng.choice([10, 400, 1500]), "via": "same"})
    return {"idx": idx, "svcs": svcs, "ops": ops, "seed": rng.randrange(1 << 30), "delays": [0] * 60, "draws": [rng.choice([20, 60, 120]) for _ in range(6)]}


def gen_scenario(rng, idx):
    sc = gen_scenario0(rng, idx)
    # a host with two interfaces (two sender transports): every broadcast leaves on both
    if rng.random() < 0.15:
        sc["ifaces"] = 2
    # through the public asyncio wrapper (AsyncZeroconf.async_register_service / ..., closed by `async with`)
    if rng.random() < 0.3:
        sc["api"] = "aio"
    # legacy server=None: set_server_if_missing makes the instance name the host name (at register, update AND unregister: a fresh
    # copy handed to unregister has no server yet)
    for sv in sc["svcs"]:
        if rng.random() < 0.08 and len(sv["text"]) < 100:
            sv["server_none"] = True
            sv["server"] = "%s.%s" % (sv["inst"], sv["type"])
    return sc


def gen_scenario0(rng, idx):
    r = rng.random()
    if r > 0.95:
        return gen_superseded(rng, idx)
    if r < 0.08:
        return gen_overlap(rng, idx)
    if r < 0.16:
        return gen_nsec(rng, idx)
    if r < 0.20:
        return gen_reuse(rng, idx)
    if r < 0.23:
        return gen_refused_update(rng, idx)
    nsvc = rng.choice([1, 1, 2, 2, 3])
    svcs = []
    for i in range(nsvc):
        h = rng.choice([HOSTS[0], HOSTS[1], HOSTS[3]]) if rng.random() < 0.8 else HOSTS[2]
        svcs.append({"inst": "svc%d" % i, "type": rng.choice(TYPES), "server": h[0], "v4": list(h[1]), "v6": list(h[2]) if rng.random() < 0.8 else [],
                     "port": 80 + i, "text": rng.choice(["", "03613d31", "", "03613d31", BIG_TXT.hex()]), "host_ttl": rng.choice([120, 120, 10, 4500]), "other_ttl": rng.choice([4500, 4500, 1125, 60]),
                     "weight": rng.choice([0, 5, 7]), "priority": rng.choice([0, 3, 9])})
    ops = []
    # registrations: at the start (announcements complete by 800 ms) or late
    for i in range(nsvc):
        op = {"op": "register", "svc": i, "at": rng.choice([0, 0, 0, 400, 1500])}
        if rng.random() < 0.15:
            op["ttl"] = rng.choice([60, 120, 4500])  # the legacy `ttl=` argument of register_service
        ops.append(op)
    horizon = 4000
    nq = rng.choice([0, 1, 2, 3, 4, 6])
    qtimes = []
    for _ in range(nq):
        at = rng.choice([360, 500, 700, 801, 900, 1100, 1500, 1790, 1801, 2500, 3000]) + rng.randint(0, 40)
        tgt = rng.randrange(nsvc)
        # "resolve" = what ServiceInfo.request() sends (SRV+TXT+A+AAAA); on a host without one address family the A/AAAA
        # question of a multi-question query is answered by the NSEC record as an aggregated *answer*
        kind = rng.choice(["ptr", "ptr", "ptr", "ptr+txt", "ptr+a", "qu", "srv", "a", "any", "txt+srv", "legacy",
                           "resolve", "resolve", "a+aaaa", "ptr+aaaa", "aaaa"])
        ops.append({"op": "query", "at": at, "svc": tgt, "kind": kind, "delay": rng.choice([0, 0, 5, 50])})
        qtimes.append((at, tgt))
    # withdrawals
    nw = rng.choice([1, 1, 1, 2, 2, 3])
    for _ in range(nw):
        mode = rng.choices(["unregister", "unregister_after_register", "close", "unregister_all", "update"], [55, 12, 15, 8, 10])[0]
        if mode == "unregister_after_register":
            # withdraw while the three announcements (0 / 225 / 450 ms after the registration) are still going out
            op = {"op": mode, "svc": rng.randrange(nsvc), "gap": rng.choice([0, 0, 50, 224, 226, 300, 449])}
            if rng.random() < 0.4:
                op["ttl"] = rng.choice([60, 120])
            ops.append(op)
            continue
        if qtimes and rng.random() < 0.8:
            qa, tgt = rng.choice(qtimes)
            at = max(0, qa + rng.choice(OFFS))
            svc = tgt if rng.random() < 0.8 else rng.randrange(nsvc)
        else:
            at = rng.choice([0, 1, 349, 350, 351, 500, 575, 576, 700, 800, 801, 1000, 2000]) + rng.choice([0, 0, rng.randint(0, 50)])
            svc = rng.randrange(nsvc)
        op = {"op": mode, "svc": svc, "at": at}
        # which object the API call is given: the registered one, an equal-but-distinct ServiceInfo built from the same
        # arguments, or (after an update through another object) the stale handle from before the update
        if mode == "unregister":
            op["via"] = rng.choice(["same", "same", "same", "copy", "copy", "stale"])
        elif mode == "update":
            op["via"] = rng.choice(["same", "copy", "copy"])
            if op["via"] == "copy" and rng.random() < 0.6:
                # the update changes the service (a new object with other fields, as an application rebuilding its ServiceInfo does)
                op["change"] = rng.choice([{"port": 9000 + svc}, {"text": "03623d32"}, {"port": 9100 + svc, "text": "03623d32"},
                                           {"host_ttl": 60, "other_ttl": 600}, {"weight": 11, "priority": 13}])
        ops.append(op)
    if rng.random() < 0.5:
        ops.append({"op": "close", "svc": 0, "at": horizon + rng.choice([0, 100, 700])})
    return {"idx": idx, "svcs": svcs, "ops": ops, "seed": rng.randrange(1 << 30),
            "delays": [rng.choice([0, 0, 1, 5, 20]) for _ in range(200)], "draws": [rng.choice([20, 21, 60, 119, 120]) for _ in range(12)]}


def build_query(sc, q, n):
    from zeroconf import DNSOutgoing, DNSQuestion, const

    s = sc["svcs"][q["svc"]]
    name = "%s.%s" % (s["inst"], s["type"])
    out = DNSOutgoing(const._FLAGS_QR_QUERY, id_=n if q["kind"] == "legacy" else 0)
    cls = const._CLASS_IN | (const._CLASS_UNIQUE if q["kind"] == "qu" else 0)
    k = q["kind"]
    if k in ("ptr", "qu", "legacy", "ptr+txt", "ptr+a"):
        out.add_question(DNSQuestion(s["type"], const._TYPE_PTR, cls))
    if k in ("ptr+txt", "txt+srv"):
        out.add_question(DNSQuestion(name, const._TYPE_TXT, cls))
    if k in ("srv", "txt+srv"):
        out.add_question(DNSQuestion(name, const._TYPE_SRV, cls))
    if k == "resolve":
        out.add_question(DNSQuestion(name, const._TYPE_SRV, cls))
        out.add_question(DNSQuestion(name, const._TYPE_TXT, cls))
    if k in ("a", "ptr+a", "resolve", "a+aaaa"):
        out.add_question(DNSQuestion(s["server"], const._TYPE_A, cls))
    if k in ("aaaa", "ptr+aaaa", "resolve", "a+aaaa"):
        out.add_question(DNSQuestion(s["server"], const._TYPE_AAAA, cls))
    if k == "any":
        out.add_question(DNSQuestion(name, const._TYPE_ANY, cls))
    return out.packets()[0]


class Tap:
    def __init__(self, sim):
        self.sim = sim
        self.ev = []
        self.tags = {}
        self.keep = []
        self.saved = []
        self.ctx = {}
        self.bcount = {}
        self.cur_tr = 0  # index of the transport (interface) the datagram being sent leaves on
        self.in_close = {}  # id(zc) -> number of public close calls (AsyncZeroconf.async_close) in progress

    def install(self):
        import zeroconf._core as core
        from zeroconf._handlers.multicast_outgoing_queue import MulticastOutgoingQueue as MQ
        from zeroconf._services.registry import ServiceRegistry

        tap, sim = self, self.sim
        Z = core.Zeroconf
        o_send, o_gen, o_all, o_unreg, o_close = Z.async_send, Z.generate_service_broadcast, Z.generate_unregister_all_services, Z.async_unregister_service, Z._close
        o_qadd, o_qready = MQ.async_add, MQ.async_ready
        o_bc = Z._async_broadcast_service

        async def bc(self_, info, interval, ttl, broadcast_addresses=True):
            try:
                return await o_bc(self_, info, interval, ttl, broadcast_addresses)
            finally:
                # the coroutine returned: after its third broadcast, or silently because the info is no longer registered
                n = tap.bcount.pop(id(asyncio.current_task()), 0)
                tap.ev.append(("bdone", sim.now(), id(self_), id(info), ttl, broadcast_addresses, n))

        o_radd, o_rupd = ServiceRegistry.async_add, ServiceRegistry.async_update
        o_chk = Z.async_check_service

        async def chk(self_, info, allow_name_change, cooperating_responders=False, strict=True):
            # async_register_service was handed this object (it may rename it)
            tap.keep.append(info)
            tap.ev.append(("chk", sim.now(), id(self_), id(info), info.name))
            return await o_chk(self_, info, allow_name_change, cooperating_responders, strict)

        o_sendto = vsim.FakeTransport.sendto

        def sendto(self_, data, addr=None):
            tap.cur_tr = self_.host.transports.index(self_) if self_ in self_.host.transports else 0
            return o_sendto(self_, data, addr)

        def send(self_, out, addr=None, port=5353, v6_flow_scope=(), transport=None):
            tag = tap.tags.get(id(out)) or tap.ctx.get(id(self_)) or ("ans",)
            tap.ev.append(("asend", sim.now(), id(self_), tag, addr is not None, id(out)))
            return o_send(self_, out, addr, port, v6_flow_scope, transport)

        def gen(self_, info, ttl, broadcast_addresses=True):
            out = o_gen(self_, info, ttl, broadcast_addresses)
            tid = id(asyncio.current_task())
            tap.bcount[tid] = tap.bcount.get(tid, 0) + 1
            tap.keep.append(out)
            # the fields the object has *now*: a broadcast task reads the object at each of its steps (D27)
            tap.tags[id(out)] = ("bcast", id(info), ttl, broadcast_addresses, c08_fields(info))
            # which packet object this is: since the D27 repair one unregister call builds one goodbye packet and sends it three times
            # (the name too: since the R3-C03-a repair the goodbye is built from the REGISTERED object, which need not be the one the call was handed)
            tap.ev.append(("gbgen", sim.now(), id(self_), id(out), id(info), ttl, str(getattr(info, "name", ""))))
            return out

        def gall(self_):
            out = o_all(self_)
            tap.ev.append(("allgen", sim.now(), id(self_), out is not None, id(out), bool(tap.in_close.get(id(self_)))))
            if out is not None:
                tap.keep.append(out)
                tap.tags[id(out)] = ("all", id(out))
            return out

        async def unreg(self_, info):
            tap.keep.append(info)
            tap.ev.append(("unreg", sim.now(), id(self_), id(info), c08_fields(info)))
            return await o_unreg(self_, info)

        def close(self_):
            if not self_.done:
                tap.ev.append(("close", sim.now(), id(self_), bool(tap.in_close.get(id(self_)))))
            return o_close(self_)

        import zeroconf.asyncio as zasync

        o_aclose = zasync.AsyncZeroconf.async_close

        async def aclose(self_):
            # the public close call: everything between "aclose enter" and "aclose exit" with the in-close flag belongs to it
            z = id(self_.zeroconf)
            tap.ev.append(("aclose", sim.now(), z, "enter"))
            tap.in_close[z] = tap.in_close.get(z, 0) + 1
            try:
                return await o_aclose(self_)
            finally:
                tap.in_close[z] -= 1
                tap.ev.append(("aclose", sim.now(), z, "exit"))

        def qadd(self_, now, answers):
            n0 = len(sim.draws)
            snap = [(C.rec_line(k, created=0), [C.rec_line(a, created=0) for a in v]) for k, v in answers.items()]
            r = o_qadd(self_, now, answers)
            draw = sim.draws[n0][3] if len(sim.draws) > n0 else 0
            tap.ev.append(("enq", sim.now(), id(self_.zc), self_ is self_.zc.out_delay_queue, int(now) - vsim.T0, draw, snap))
            return r

        def qready(self_):
            tap.ev.append(("rdy", sim.now(), id(self_.zc), self_ is self_.zc.out_delay_queue))
            tap.ctx[id(self_.zc)] = ("rdy",)
            try:
                return o_qready(self_)
            finally:
                tap.ctx.pop(id(self_.zc), None)
                tap.ev.append(("rdy-end", sim.now(), id(self_.zc)))

        def radd(self_, info):
            r = o_radd(self_, info)
            tap.keep.append(info)
            tap.ev.append(("reg", sim.now(), id(self_), id(info), c08_fields(info)))
            return r

        def rupd(self_, info):
            # async_update = _remove + _add (does not go through async_add)
            r = o_rupd(self_, info)
            tap.keep.append(info)
            tap.ev.append(("upd", sim.now(), id(self_), id(info), c08_fields(info)))
            return r

        Z.async_send, Z.generate_service_broadcast, Z.generate_unregister_all_services, Z.async_unregister_service, Z._close = send, gen, gall, unreg, close
        MQ.async_add, MQ.async_ready = qadd, qready
        Z._async_broadcast_service = bc
        Z.async_check_service = chk
        vsim.FakeTransport.sendto = sendto
        zasync.AsyncZeroconf.async_close = aclose
        ServiceRegistry.async_add, ServiceRegistry.async_update = radd, rupd
        self.saved = [(zasync.AsyncZeroconf, "async_close", o_aclose), (Z, "async_check_service", o_chk), (vsim.FakeTransport, "sendto", o_sendto), (Z, "_async_broadcast_service", o_bc), (Z, "async_send", o_send), (Z, "generate_service_broadcast", o_gen), (Z, "generate_unregister_all_services", o_all),
                      (Z, "async_unregister_service", o_unreg), (Z, "_close", o_close), (MQ, "async_add", o_qadd), (MQ, "async_ready", o_qready),
                      (ServiceRegistry, "async_add", o_radd), (ServiceRegistry, "async_update", o_rupd)]
        sim.net.on_send = lambda t, src, data, addr: tap.ev.append(("send", t, id(src.zc), data, addr, tap.cur_tr))

    def remove(self):
        for cls, name, orig in self.saved:
            setattr(cls, name, orig)


Host2 = c09.Host2
make_host = c09.make_host


def c08_fields(info):
    return {"type": info.type, "name": info.name, "server": info.server or info.name, "port": info.port, "weight": info.weight, "priority": info.priority,
            "text": info.text.hex(), "v4": [a.packed.hex() for a in info._ipv4_addresses], "v6": [a.packed.hex() for a in info._ipv6_addresses],
            "host_ttl": info.host_ttl, "other_ttl": info.other_ttl}


def run_scenario(sc):
    sim = vsim.Sim(sc["seed"], maxdelay=20)
    sim.net_rng = c09.ScriptRng(sc["delays"], sc["seed"])
    sim.forced_draws = iter(sc["draws"])
    obs = {}

    async def scenario_main(sim):
        tap = Tap(sim)
        tap.install()
        try:
            return await body(sim, tap)
        finally:
            tap.remove()

    async def body(sim, tap):
        a = make_host(sim, sc.get("ifaces", 1))
        za = a.zc
        await za.async_wait_for_start()
        # which public API the scenario goes through: `Zeroconf`'s async methods, or the `AsyncZeroconf` wrapper (same method names and
        # arguments; closed by leaving its `async with` block)
        api = za
        if sc.get("api") == "aio":
            from zeroconf.asyncio import AsyncZeroconf

            api = AsyncZeroconf(zc=za)

        async def close_instance():
            if sc.get("api") == "aio":
                await api.__aexit__(None, None, None)
            else:
                await vsim.close_host(a)
        infos = []
        first = []  # the handle each service was first registered with (stale once an update went through another object)

        cur = [dict(s) for s in sc["svcs"]]  # the fields each service currently has (an update may change them)
        changed = [False] * len(cur)

        def build(i):
            s = cur[i]
            return c09.make_info({"type": s["type"], "inst": s["inst"], "port": s["port"], "text": s["text"], "server": None if s.get("server_none") else s["server"],
                                  "host_ttl": s["host_ttl"], "other_ttl": s["other_ttl"], "v4": s["v4"], "v6": s["v6"],
                                  "weight": s.get("weight", 0), "priority": s.get("priority", 0)})

        def handle(i, via):
            if via == "copy":
                return build(i)
            if via == "stale":
                # the handle from before an update through another object; only while it still describes the service
                # (unregistering through an object with outdated fields is the caller's error, not generated)
                return first[i] if (first[i] is not infos[i] and not changed[i]) else build(i)
            return infos[i]
        for s in sc["svcs"]:
            infos.append(c09.make_info({"type": s["type"], "inst": s["inst"], "port": s["port"], "text": s["text"], "server": None if s.get("server_none") else s["server"],
                                        "host_ttl": s["host_ttl"], "other_ttl": s["other_ttl"], "v4": s["v4"], "v6": s["v6"],
                                        "weight": s.get("weight", 0), "priority": s.get("priority", 0)}))
        first.extend(infos)
        errors = []
        nq = [0]
        closed = [False]
        handed = set()  # objects the instance has been given (the legacy `ttl=` argument rewrites the object's TTLs: only for fresh objects)

        def ttl_for(op, info):
            return op.get("ttl") if id(info) not in handed else None

        async def scenario_op(op):
            try:
                k = op["op"]
                if k == "unregister_after_register":
                    # D6: withdraw as soon as async_register_service returns (or `gap` ms later, between the announcements)
                    ttl = ttl_for(op, infos[op["svc"]])
                    handed.add(id(infos[op["svc"]]))
                    await api.async_register_service(infos[op["svc"]], ttl=ttl)
                    if op.get("gap"):
                        await sim.sleep_ms(op["gap"])
                    await api.async_unregister_service(infos[op["svc"]])
                    return
                await sim.sleep_until(T0 + op["at"])
                if closed[0] and k != "query":
                    return
                if k == "register":
                    ttl = ttl_for(op, infos[op["svc"]])
                    handed.add(id(infos[op["svc"]]))
                    await api.async_register_service(infos[op["svc"]], ttl=ttl)
                elif k == "reregister":
                    # the same object: unregistered, then registered again without awaiting the goodbye task
                    await api.async_unregister_service(infos[op["svc"]])
                    if op.get("gap"):
                        await sim.sleep_ms(op["gap"])
                    await api.async_register_service(infos[op["svc"]], allow_name_change=op.get("allow", True))
                elif k == "query":
                    nq[0] += 1
                    data = build_query(sc, op, nq[0])
                    if op["delay"]:
                        await sim.sleep_ms(op["delay"])
                    a.inject(data, "10.0.0.9", 40000 if op["kind"] == "legacy" else 5353)
                elif k == "unregister":
                    await api.async_unregister_service(handle(op["svc"], op.get("via", "same")))
                elif k == "update":
                    if op.get("refused"):
                        # an update the library must refuse (its records cannot be encoded): nothing of it may stay behind
                        before = dict(cur[op["svc"]])
                        cur[op["svc"]].update(op["change"])
                        cur[op["svc"]]["server_none"] = False
                        h = build(op["svc"])
                        cur[op["svc"]] = before
                        try:
                            await api.async_update_service(h)
                            errors.append((op["op"], "refused-update-accepted"))
                        except Exception as ex:  # noqa: BLE001
                            if type(ex).__name__ != "NamePartTooLongException":
                                raise
                        return
                    if op.get("change") and op.get("via") == "copy":
                        cur[op["svc"]].update(op["change"])
                        changed[op["svc"]] = True
                    h = handle(op["svc"], op.get("via", "same"))
                    handed.add(id(h))
                    await api.async_update_service(h)
                    infos[op["svc"]] = h
                elif k == "unregister_all":
                    await api.async_unregister_all_services()
                elif k == "close":
                    closed[0] = True
                    await close_instance()
            except Exception as ex:  # noqa: BLE001
                errors.append((op["op"], type(ex).__name__))

        late = [op for op in sc["ops"] if op["op"] == "unregister_after_register"]
        tasks = [asyncio.ensure_future(scenario_op(op)) for op in sc["ops"] if op["op"] != "unregister_after_register"]
        await sim.sleep_until(T0)
        for op in late:
            tasks.append(asyncio.ensure_future(scenario_op(op)))
        await asyncio.gather(*tasks)
        await sim.sleep_until(T0 + 9000)
        obs["zc"] = id(za)
        obs["registry_id"] = id(za.registry)
        obs["api_errors"] = errors
        obs["ev"] = tap.ev
        if not closed[0]:
            try:
                await close_instance()
            except Exception as ex:  # noqa: BLE001  (a close that raises is judged by the oracle, it must not stop the harness)
                errors.append(("close", type(ex).__name__))

    sim.run(scenario_main)
    obs["errors"] = [repr(e.get("exception")) + " " + str(e.get("message")) for e in sim.errors]
    return obs


# ------------------------------------------------------------------------------------------
# trace -> model ops


def svc_tokens(f):
    return "%s %s %s %d %d %d %s %d %s %d %s %d %d" % (
        C.hs(f["type"]), C.hs(f["name"]), C.hs(f["server"]), f["port"], f["weight"], f["priority"], C.hx(bytes.fromhex(f["text"])),
        len(f["v4"]), " ".join(f["v4"]), len(f["v6"]), " ".join(f["v6"]), f["host_ttl"], f["other_ttl"])


def all_recs(data):
    m, an, au, ad = c09.decode(data)
    return an + au + ad


def msg_canon(dgs):
    """canonical form of the message one `async_send` call put on one interface: a message that needs several datagrams
    (a TXT record above 1460 bytes travels alone) is compared as a whole -- how it is cut into datagrams is C14's subject"""
    if len(dgs) <= 1:
        return ";".join(c09.pkt_canon(d) for d in dgs)
    ms = [c09.decode(d) for d in dgs]
    if any(m[0].is_query() for m in ms) or len({m[0].flags for m in ms}) != 1:
        return ";".join(c09.pkt_canon(d) for d in dgs)
    return "%d##%s#%s#%s" % (ms[0][0].flags, "|".join(sorted(c09.rec_canon(r) for m in ms for r in m[1])),
                             "|".join(sorted(c09.rec_canon(r) for m in ms for r in m[2])), "|".join(sorted(c09.rec_canon(r) for m in ms for r in m[3])))


def obs_done(ev, i):
    """was `_close` logged before event i?"""
    return any(e[0] == "close" for e in ev[:i])


def close_shape(ev, i):
    """what the public close call that contains event i did, as the model names its blocks: all / alls / close, in order"""
    lo = i
    while lo > 0 and not (ev[lo][0] == "aclose" and ev[lo][3] == "enter"):
        lo -= 1
    shape = []
    nsend = {}
    for x in ev[lo:]:
        if x[0] == "aclose" and x[3] == "exit":
            break
        if x[0] == "allgen" and x[5]:
            shape.append("all")
            if x[3]:
                nsend[x[4]] = 0
        elif x[0] == "asend" and x[3][0] == "all" and x[3][1] in nsend:
            nsend[x[3][1]] += 1
            if nsend[x[3][1]] > 1:  # the first send belongs to the `all` block
                shape.append("alls")
        elif x[0] == "close" and x[3]:
            shape.append("close")
    return ",".join(shape)


def trace_ops(obs):
    """[(op line, expected output token, time)] for host A"""
    zc, rid = obs["zc"], obs["registry_id"]
    oids = {}
    known = {}  # object id -> the fields the model believes the object has
    registered = {}  # lower-cased instance name -> id of the ServiceInfo the registry holds under it

    def oid(i):
        return oids.setdefault(i, len(oids) + 1)

    ops = []
    ev = [e for e in obs["ev"] if e[2] in (zc, rid)]
    i = 0
    seen_all = set()
    close_announced = False
    while i < len(ev):
        e = ev[i]
        k, t = e[0], e[1]
        # datagrams that follow an async_send, as they left on the first interface (the oracle compares the interfaces)
        def sends_after(j):
            out = []
            j += 1
            while j < len(ev) and ev[j][0] == "send":
                if ev[j][5] == 0:
                    out.append(ev[j][3])
                j += 1
            return out, j

        def closecall():
            # the public close call as a program of blocks, predicted by the model from the translated call order
            return ("closecall a %d" % t, close_shape(ev, i), t)

        if k == "reg":
            ops.append(("flush %d" % t, "ok", t))
            ops.append(("reg %d %d %s" % (oid(e[3]), t, svc_tokens(e[4])), "-", t))
            known[e[3]] = e[4]
            registered[e[4]["name"].lower()] = e[3]
        elif k == "upd":
            ops.append(("flush %d" % t, "ok", t))
            ops.append(("upd %d %d %s" % (oid(e[3]), t, svc_tokens(e[4])), "-", t))
            known[e[3]] = e[4]
            registered[e[4]["name"].lower()] = e[3]
        elif k == "unreg":
            # R3-C03-a (repaired b99f12a): async_unregister_service works on the object REGISTERED under the name, whatever object
            # it is handed; the model's `unreg` names the object whose records are withdrawn and whose goodbye task runs
            tgt = registered.pop(e[4]["name"].lower(), e[3])
            ops.append(("flush %d" % t, "ok", t))
            if tgt == e[3]:
                known[tgt] = e[4]  # the object handed in is the one worked on: its fields as they are now
            ops.append(("unreg %d %d %s" % (oid(tgt), t, svc_tokens(known.get(tgt, e[4]))), "-", t))
            known.setdefault(tgt, e[4])
        elif k == "close":
            ops.append(("flush %d" % t, "ok", t))
            if e[3] and not close_announced:
                ops.append(closecall())
                close_announced = True
            ops.append(("close", "-", t))
        elif k == "bdone" and e[6] < 3:
            # the coroutine returned before its third broadcast: it stopped silently (the info is no longer the registered one)
            ops.append(("stop %d %s %s %d" % (oid(e[3]), "-" if e[4] is None else str(e[4]), C.b01(e[5]), t), "ok", t))
        elif k == "allgen":
            registered.clear()  # generate_unregister_all_services empties the registry
            if e[5] and not close_announced:
                ops.append(("flush %d" % t, "ok", t))
                ops.append(closecall())
                close_announced = True
            if not e[3]:
                ops.append(("flush %d" % t, "ok", t))
                ops.append(("all %d" % t, "-", t))
        elif k == "enq":
            ops.append(("flush %d" % t, "ok", t))
            ents = " ".join("%s %d %s" % (kk, len(v), " ".join(v)) for kk, v in e[6])
            ops.append((("enq %s %d %d %d %s" % (C.b01(e[3]), e[4], e[5], len(e[6]), ents)).strip(), "-", t))
        elif k == "rdy":
            # everything up to rdy-end
            j = i + 1
            dgs = []
            while ev[j][0] != "rdy-end":
                if ev[j][0] == "send" and ev[j][5] == 0:
                    dgs.append(ev[j][3])
                j += 1
            ops.append(("flush %d" % t, "ok", t))
            ops.append(("rdy %s %d" % (C.b01(e[3]), t), msg_canon(dgs) or "-", t))
            i = j
        elif k == "asend":
            tag = e[3]
            dgs, j = sends_after(i)
            exp = msg_canon(dgs) or "-"
            if tag[0] == "bcast":
                ops.append(("flush %d" % t, "ok", t))
                if tag[1] in known and tag[4] != known[tag[1]]:
                    # the object was mutated since the model last saw it (a re-registration renamed it): the running tasks read the object
                    ops.append(("mut %d %s" % (oid(tag[1]), svc_tokens(tag[4])), "ok", t))
                    known[tag[1]] = tag[4]
                ops.append(("task %d %s %s %d" % (oid(tag[1]), "-" if tag[2] is None else str(tag[2]), C.b01(tag[3]), t), exp, t))
            elif tag[0] == "all":
                ops.append(("flush %d" % t, "ok", t))
                ops.append((("alls %d" % t) if tag[1] in seen_all else ("all %d" % t), exp, t))
                seen_all.add(tag[1])
            elif tag[0] == "ans":
                # probes of a registration in progress are queries: not a block of this machine (C09)
                dgs = [d for d in dgs if not c09.decode(d)[0].is_query()]
                if not dgs and not obs_done(ev, i):
                    i = j
                    continue
                recs = [r for d in dgs for r in all_recs(d)]
                ops.append(("flush %d" % t, "ok", t))
                ops.append((("ans %d %s" % (len(recs), " ".join(C.rec_line(r, created=0) for r in recs))).strip(), "*" if dgs else "-", t))
            i = j - 1
        i += 1
    return ops


# ------------------------------------------------------------------------------------------
# stage O


EXPECTED_API_ERRORS = {"ServiceNameAlreadyRegistered", "NonUniqueNameException", "NotRunningException", "BadTypeInNameException"}


def oracle(sc, obs, res, case):
    """the property's two sentences on the wire-level log.

    Clause 1: a service that is unregistered, and every service still registered when the instance is closed, gets TTL-0
    copies of its PTR, SRV, TXT (and of its address / NSEC records unless a still-registered service uses the host name)
    multicast three times -- on every interface of the host.  The sentence gives no spacing: only the count is demanded here
    (the 125 ms are the model's, compared by stage C).
    Clause 2: after the third goodbye none of those records leaves with a non-zero TTL; the obligation for a *record* ends
    when a service defining that very record (same owner, type -- for an address also the address) is registered again,
    not when any other service of the host is."""
    from zeroconf import _dns as d

    zc, rid = obs["zc"], obs["registry_id"]
    ev = [e for e in obs["ev"] if e[2] in (zc, rid)]
    viol = []
    reg = {}  # registry as the events say (independent of the model): name.lower() -> (fields, event index of the registration)
    obligations = []
    n = len(ev)
    used_gb = set()
    ifaces = sc.get("ifaces", 1)
    close_enter = None  # event index at which the public close call in progress began
    close_idx = [j for j, x in enumerate(ev) if x[0] == "close"]
    # the close calls as the scenario's ACTIONS: (event index, instant, was anything registered when the call began?) -- from the
    # oracle's own registry, not from what the implementation then did
    close_calls = []
    names = set()
    for j, x in enumerate(ev):
        if x[0] in ("reg", "upd"):
            names.add(x[4]["name"].lower())
        elif x[0] == "unreg":
            names.discard(x[4]["name"].lower())
        elif x[0] == "allgen":
            names.clear()
        elif x[0] == "aclose" and x[3] == "enter":
            close_calls.append((j, x[1], not names))

    close_spans = []
    for j, x in enumerate(ev):
        if x[0] == "aclose" and x[3] == "enter":
            close_spans.append((j, None))
        elif x[0] == "aclose" and x[3] == "exit" and close_spans:
            close_spans[-1] = (close_spans[-1][0], j)

    def demanded(i, t):
        """how many of the three goodbyes of a sequence started at event i, instant t, the known finding `goodbyes-cut-by-close` lets
        the host drop -- decided from the ACTIONS: the sequence spans t .. t+250; a close call entered at te >= t sets `done` at te when
        nothing is registered then, else after its own sequence (te+250); goodbyes due before `done` must leave.
        Returns (minimum number that must be multicast, the close instant or None)."""
        for (j, te, empty) in close_calls:
            if j > i:
                done_at = te if empty else te + 2 * GOODBYE
                if done_at <= t + 2 * GOODBYE:
                    return len([k for k in range(3) if t + k * GOODBYE < done_at]), te
                return 3, None
        return 3, None

    def recs_of(f, with_host):
        """identity tuples of the records of a service: (kind, lower name, type, rdata...)"""
        name, server = f["name"], f["server"]
        out = [("ptr", f["type"].lower(), name.lower()), ("srv", name.lower()), ("txt", name.lower())]
        if with_host:
            out += [("addr", server.lower(), a) for a in f["v4"] + f["v6"]]
            if not f["v4"] or not f["v6"]:
                out.append(("nsec", name.lower()))
        return out

    def ident(r):
        if isinstance(r, d.DNSPointer):
            return ("ptr", r.name.lower(), r.alias.lower())
        if isinstance(r, d.DNSService):
            return ("srv", r.name.lower())
        if isinstance(r, d.DNSText):
            return ("txt", r.name.lower())
        if isinstance(r, d.DNSAddress):
            return ("addr", r.name.lower(), r.address.hex())
        if isinstance(r, d.DNSNsec):
            return ("nsec", r.name.lower())
        return ("other",)

    def sends_of(j):
        """the datagrams of the async_send logged at event j, per interface; index of the last of them"""
        per = {}
        jj = j + 1
        while jj < n and ev[jj][0] == "send":
            per.setdefault(ev[jj][5], []).append((ev[jj][3], ev[jj][4]))
            jj += 1
        return per, jj - 1

    def judge_goodbye(per, want, what, sigp):
        """one goodbye: complete, TTL 0, multicast, on every interface"""
        if sorted(per) != list(range(ifaces)):
            viol.append((sigp + "-not-on-every-interface", "a goodbye of %s left on interface(s) %r of %d" % (what, sorted(per), ifaces)))
        for tr, dgs in sorted(per.items()):
            got = set()
            for data, addr in dgs:
                if addr[0] != "224.0.0.251" or addr[1] != 5353:
                    viol.append(("C08:goodbye-not-multicast", "a goodbye datagram was sent to %r" % (addr,)))
                for r in all_recs(data):
                    got.add(ident(r))
                    if r.ttl != 0:
                        viol.append(("C08:goodbye-ttl", "a goodbye datagram carries a non-zero TTL"))
            if got != want:
                miss, extra = sorted(want - got), sorted(got - want)
                kind = ("missing-" + miss[0][0]) if miss else ("extra-" + extra[0][0])
                viol.append(((sigp + "-content:" + kind) if sigp == "C08:goodbye" else (sigp + "-content"),
                             "goodbye of %s on interface %d: missing %r extra %r" % (what, tr, miss[:3], extra[:3])))

    # pass 1: goodbyes
    for i, e in enumerate(ev):
        k, t = e[0], e[1]
        if k in ("reg", "upd"):
            f = e[4]
            reg[f["name"].lower()] = (f, i)
            # a service defining some of the withdrawn records is registered (again): the obligation ends for THOSE records
            for r in recs_of(f, True):
                for ob in obligations:
                    if r in ob["records"] and r not in ob["ended"]:
                        ob["ended"][r] = i
        elif k == "aclose":
            close_enter = i if e[3] == "enter" else None
        elif k == "close":
            # the instance is closed (`done` is set: nothing can be sent any more): every service still registered has had no goodbye
            for nm, (f, ri) in sorted(reg.items()):
                if close_enter is not None and ri > close_enter:
                    # registered while the close call was already saying goodbye: C17's finding D15, reported there
                    res.count("registered-during-close (C17 D15)")
                    continue
                viol.append(("C08:closed-without-goodbyes", "the instance was closed at +%d ms while %s was still registered: no goodbye was ever sent for it" % (t - T0, f["name"])))
        elif k == "unreg":
            f = e[4]
            if any(j < i for j in close_idx):
                # an API call on an instance that is already closed: everything registered had its goodbye at the close
                res.count("unregister-after-close")
                reg.pop(f["name"].lower(), None)
                continue
            reg.pop(f["name"].lower(), None)
            shared = any(g["server"].lower() == f["server"].lower() for g, _ in reg.values())
            want = set(recs_of(f, not shared))
            # the goodbye datagrams of this object that follow (each serves one unregister call): the one that fits this call best
            # -- right content, nearest to t, t+125, t+250 -- three times
            gb = []
            # the packet this call built (D27 repair: built at the call, sent three times): its transmissions are this call's goodbyes
            mine = None
            for j in range(i + 1, n):
                x = ev[j]
                if x[0] == "gbgen" and (x[4] == e[3] or (len(x) > 6 and x[6].lower() == f["name"].lower())) and x[5] == 0 and x[1] == t \
                        and ("gb", x[3]) not in used_gb:
                    mine = x[3]
                    used_gb.add(("gb", x[3]))
                    break
                if x[0] in ("unreg", "send", "asend") or x[1] != t:
                    break
            if mine is not None:
                for j in range(i + 1, n):
                    x = ev[j]
                    if x[0] == "asend" and x[3][0] == "bcast" and len(x) > 5 and x[5] == mine:
                        per, last = sends_of(j)
                        used_gb.add(j)
                        gb.append({"t": x[1], "per": per, "last": last, "j": j, "fields": x[3][4]})
            for kth in (range(3) if mine is None else []):
                cands = []
                for j in range(i + 1, n):
                    x = ev[j]
                    if x[0] == "asend" and x[3][0] == "bcast" and (x[3][1] == e[3] or x[3][4]["name"].lower() == f["name"].lower()) \
                            and x[3][2] == 0 and j not in used_gb:
                        per, last = sends_of(j)
                        got = {ident(r) for dgs in per.values() for data, _ in dgs for r in all_recs(data)}
                        cands.append(((got != want, abs(x[1] - (t + kth * GOODBYE)), j), j, x, per, last))
                if cands:
                    _, j, x, per, last = min(cands, key=lambda c: c[0])
                    used_gb.add(j)
                    gb.append({"t": x[1], "per": per, "last": last, "j": j, "fields": x[3][4]})
            gb.sort(key=lambda g: g["j"])
            sent = [g for g in gb if g["per"]]
            # D27 (repaired: the goodbye packet is built when async_unregister_service is called): on a tree without the repair, between
            # the unregister call and a goodbye step the same object was handed to async_register_service and renamed: the goodbyes
            # carry the new name
            reused = [g for g in gb if g["fields"]["name"] != f["name"]
                      and any(x[0] == "chk" and x[3] == e[3] for x in ev[i + 1:g["j"]])]
            if reused:
                viol.append(("C08:reused-info-renamed-before-goodbye",
                             "%s was unregistered and the same ServiceInfo object handed to async_register_service again, which renamed it to %s before "
                             "the goodbye task's %s step: that goodbye carries the new name, the unregistered name is not withdrawn"
                             % (f["name"], reused[0]["fields"]["name"], ["first", "second", "third"][gb.index(reused[0])])))
            elif len(sent) < 3:
                need, te = demanded(i, t)
                if any(cj < i and (xj is None or xj > i) for cj, xj in close_spans):
                    # the unregister was called while a close call was already in progress: the close's own goodbye withdraws what was
                    # registered when it began; this sequence is not judged
                    res.count("unregister-during-close")
                elif len(sent) >= need and need < 3:
                    # KNOWN FINDING (= C07:goodbyes-cut-by-close), the input class decided from the scenario's actions: an explicit
                    # `async_unregister_service` whose task is not awaited, and a close call that sets `done` within the 250 ms of its
                    # sequence (entered < 250 ms later with nothing else registered): the goodbyes due from then on are dropped
                    viol.append(("C08:goodbyes-cut-by-close", "%s unregistered at +%d ms (task not awaited), close called at +%d ms with %s: %d of 3 goodbyes were multicast (%d were due before done)"
                                 % (f["name"], t - T0, te - T0, "nothing else registered" if te is not None else "?", len(sent), need)))
                else:
                    viol.append(("C08:goodbye-count", "%d of 3 goodbyes of %s were multicast after the unregister at +%d ms (at %r); %d were due before any close could set done"
                                 % (len(sent), f["name"], t - T0, [g["t"] - t for g in sent], need)))
            if not reused:
                for g in sent:
                    judge_goodbye(g["per"], want, f["name"], "C08:goodbye")
                    # the rdata of the goodbye copies is the rdata of the service being withdrawn
                    for dgs in g["per"].values():
                        for data, _ in dgs:
                            for r in all_recs(data):
                                if isinstance(r, d.DNSService) and r.name.lower() == f["name"].lower() and \
                                        (r.priority, r.weight, r.port, r.server) != (f["priority"], f["weight"], f["port"], f["server"]):
                                    viol.append(("C08:goodbye-content:wrong-srv", "goodbye SRV of %s is (prio %d, weight %d, port %d, %s), the service has (%d, %d, %d, %s)"
                                                 % (f["name"], r.priority, r.weight, r.port, r.server, f["priority"], f["weight"], f["port"], f["server"])))
                                if isinstance(r, d.DNSText) and r.name.lower() == f["name"].lower() and r.text.hex() != f["text"]:
                                    viol.append(("C08:goodbye-content:wrong-txt", "goodbye TXT of %s differs from the service's" % f["name"]))
            if sent and (len(sent) == 3 or demanded(i, t)[0] == 3):
                # "once that sequence has completed": from the last goodbye that was sent (a sequence that a close cut is followed by silence)
                obligations.append({"records": want, "from": sent[-1]["last"], "ended": {}, "what": f["name"], "t3": sent[-1]["t"], "names": {f["name"].lower()},
                                    "unreg": i, "gb_recs": [r for g in sent for dgs in g["per"].values() for data, _ in dgs for r in all_recs(data)]})
        elif k == "allgen" and e[3]:
            fs = [f for f, _ in reg.values()]
            reg.clear()
            want = set()
            for f in fs:
                want |= set(recs_of(f, True))
            gb = []
            for j in range(i + 1, n):
                x = ev[j]
                if x[0] == "asend" and x[3][0] == "all" and x[3][1] == e[4]:
                    per, last = sends_of(j)
                    gb.append({"t": x[1], "per": per, "last": last, "j": j})
            sent = [g for g in gb if g["per"]]
            what = "all services (%s)" % ", ".join(sorted(f["name"] for f in fs))
            if len(sent) < 3:
                if e[5]:
                    # the close call's own goodbyes: `_close` must come after them
                    viol.append(("C08:close-goodbyes-not-sent", "the close call at +%d ms generated the goodbye of %s but %d of 3 were multicast (done was set at %r)"
                                 % (t - T0, what, len(sent), [ev[j][1] - T0 for j in close_idx])))
                elif len(sent) >= demanded(i, t)[0] and demanded(i, t)[0] < 3:
                    viol.append(("C08:goodbyes-cut-by-close", "async_unregister_all_services at +%d ms, close called at +%d ms (done within the 250 ms of the sequence): %d of 3 were multicast (%d were due before done)"
                                 % (t - T0, demanded(i, t)[1] - T0, len(sent), demanded(i, t)[0])))
                else:
                    viol.append(("C08:goodbye-all-count", "%d of 3 goodbyes of %s were multicast (%d were due before any close could set done)" % (len(sent), what, demanded(i, t)[0])))
            for g in sent:
                judge_goodbye(g["per"], want, what, "C08:goodbye-all")
            if sent and (len(sent) == 3 or (not e[5] and demanded(i, t)[0] == 3)):
                obligations.append({"records": want, "from": sent[-1]["last"], "ended": {}, "what": "all services", "t3": sent[-1]["t"], "names": {f["name"].lower() for f in fs},
                                    "unreg": i, "gb_recs": [r for g in sent for dgs in g["per"].values() for data, _ in dgs for r in all_recs(data)]})
    # pass 2: after the third goodbye none of those records leaves with a non-zero TTL
    for ob in obligations:
        for j in range(ob["from"] + 1, n):
            x = ev[j]
            if x[0] != "send" or c09.decode(x[3])[0].is_query():
                continue
            for r in all_recs(x[3]):
                idr = ident(r)
                if r.ttl > 0 and idr in ob["records"] and not (idr in ob["ended"] and ob["ended"][idr] < j):
                    # what produced the datagram?
                    src = "?"
                    for jj in range(j, -1, -1):
                        if ev[jj][0] == "asend":
                            src = ev[jj][3][0]
                            break
                    sig = {"rdy": "C08:queued-answer-after-goodbye", "bcast": "C08:announcement-after-goodbye", "ans": "C08:answer-after-goodbye"}.get(src, "C08:record-after-goodbye")
                    if src == "rdy" and not any(r == g for g in ob.get("gb_recs", [])) and superseded_version(r, ob, ev, d):
                        # KNOWN FINDING D20: same owner name and type as a withdrawn record but the rdata of a version of the service that an
                        # update_service replaced before the unregister: neither the update nor the unregister purges it
                        sig = "C08:superseded-record-sent-after-goodbye"
                    viol.append((sig, "%s record of %s sent with TTL %d at +%d ms after the third goodbye (%s)" % (idr[0], ob["what"], r.ttl, x[1] - ob["t3"], src)))
                    break
    for op, exc in obs.get("api_errors", []):
        res.count("api-error:%s:%s" % (op, exc))
        if exc == "refused-update-accepted":
            viol.append(("C08:unencodable-update-accepted", "async_update_service accepted an info whose records cannot be encoded (64-byte label in the host name)"))
        elif exc not in EXPECTED_API_ERRORS:
            viol.append(("C08:api-call-raised", "%s raised %s" % (op, exc)))
    seen = set()
    for sig, what in viol:
        if sig not in seen:
            seen.add(sig)
            res.violate(sig, what, case)


def superseded_version(r, ob, ev, d):
    """is `r` (SRV / TXT) the record of a version of a withdrawn service that an `update_service` replaced before the withdrawal --
    and not of the version that was withdrawn?  (the input class of known finding D20)"""
    nm = r.name.lower()
    if nm not in ob["names"]:
        return False
    # versions the registry held before the withdrawal, in order; the last of them is the one withdrawn
    before = [(x[0], x[4]) for x in ev[:ob["unreg"]] if x[0] in ("reg", "upd") and x[4]["name"].lower() == nm]
    if len(before) < 2 or not any(k == "upd" for k, _ in before[1:]):
        return False
    cur = before[-1][1]
    old = [f for _, f in before[:-1]]

    def srv(f):
        return (f["priority"], f["weight"], f["port"], f["server"].lower())

    if isinstance(r, d.DNSService):
        me = (r.priority, r.weight, r.port, r.server.lower())
        return me != srv(cur) and any(me == srv(f) for f in old)
    if isinstance(r, d.DNSText):
        return r.text.hex() != cur["text"] and any(r.text.hex() == f["text"] for f in old)
    return False


# ------------------------------------------------------------------------------------------


def evaluate(sc, res, lines, pending):
    obs = run_scenario(sc)
    case = {"scenario": sc}
    res.evaluations += 1
    ops = trace_ops(obs)
    kinds = [o[0].split(" ")[0] for o in ops if not o[0].startswith("flush")]
    for k in set(kinds):
        res.count("block:" + k, kinds.count(k))
    for o in sc["ops"]:
        res.count("op:" + o["op"])
    if obs["errors"]:
        res.count("loop-errors")
        # an exception that escapes a background task / timer callback into the loop's handler (a goodbye or announcement task that dies
        # half-way looks like a short sequence otherwise): never on the unchanged tree
        res.violate("C08:exception-in-event-loop", "an exception reached the event loop's handler: %s" % obs["errors"][0][:300], case)
    # non-trivial: a withdrawal while something was queued or a task was running
    sig = []
    pend_q = 0
    for o in ops:
        k = o[0].split(" ")[0]
        if k == "enq":
            pend_q += 1
        elif k == "rdy" and o[1] != "-":
            pend_q = 0
        elif k in ("unreg", "all", "close"):
            sig.append((k, min(pend_q, 2)))
    if any(s[1] for s in sig) or any(o["op"] in ("unregister_after_register", "update") for o in sc["ops"]):
        res.nontriv((tuple(sig), tuple(sorted(set(kinds))), len(ops)))
    lines.append(("c08run %d " % len(ops)) + " ".join(o[0] for o in ops))
    pending.append((sc, obs, ops))
    oracle(sc, obs, res, case)
    if len(res.samples) < 3:
        res.sample({"ops": sc["ops"], "blocks": [o[0][:40] for o in ops if not o[0].startswith("flush")][:40]})
    return obs


def compare(res, pending, model):
    for (sc, obs, ops), line in zip(pending, model):
        case = {"scenario": sc}
        toks = line.split(" ")
        if toks == ["bad-op"] or len(toks) != len(ops):
            res.disagree("c08run", case, "%d ops" % len(ops), line[:300])
            continue
        for (op, exp, t), got in zip(ops, toks):
            ok = (got == exp) or (exp == "*" and got not in ("rej", "-") and not got.startswith("due:"))
            if not ok:
                res.disagree("c08run", dict(case, at=t - T0), {"op": op[:400], "impl": exp[:1500]}, got[:1500])
                break


# ------------------------------------------------------------------------------------------
# the synchronous API on real threads (the simulator cannot host them): `unregister_service(info)` then `close()`

SYNC_FAST = 40  # ms standing for the 125 ms between goodbyes (all protocol timers of _core shortened alike)
SYNC_GAPS = [0, 50, 124, 126, 260]  # ms (unscaled) between the return of unregister_service and the call of close


def sync_case(gap_ms, n_services, shared, unregister_first=True):
    """thread-backed instance (no running loop in the calling thread), recording transports on the real loop
    (harness/c17_threads.Rig).  Returns the observation: how many goodbye datagrams (TTL-0 PTR, SRV, TXT of the service,
    + addresses unless the host is shared) were multicast for the unregistered service, and for every service that was still
    registered when `close()` was called.  `unregister_first=False`: `close()` alone, everything still registered."""
    import socket
    import time

    from . import c17_threads as T
    from zeroconf import DNSIncoming, ServiceInfo, Zeroconf

    typ = "_sync._tcp.local."
    obs = {}
    with T.Rig(fast=SYNC_FAST) as rig:
        zc = Zeroconf(interfaces=["10.0.0.1"])
        try:
            infos = [ServiceInfo(typ, "s%d.%s" % (i, typ), 80 + i, addresses=[socket.inet_aton("10.0.0.1")],
                                 server="hs.local." if (shared or i == 0) else "hs%d.local." % i) for i in range(n_services)]
            for info in infos:
                zc.register_service(info, cooperating_responders=True)
            n0 = len(rig.log)
            t_call = time.monotonic()
            if unregister_first:
                zc.unregister_service(infos[0])
            t_ret = time.monotonic()
            gap = gap_ms * SYNC_FAST / 125.0 / 1000.0
            if gap:
                time.sleep(gap)
            t_close = time.monotonic()
            zc.close()
            t_closed = time.monotonic()
            time.sleep(4 * SYNC_FAST / 1000.0)
            by_service = {}
            late_positive = []
            for info in infos:
                name = info.name
                goodbyes = by_service.setdefault(name, [])
                for (t, kind, data, addr) in rig.log[n0:]:
                    if kind != "sent":
                        continue
                    m = DNSIncoming(data)
                    if not m.valid or m.is_query():
                        continue
                    recs = list(m.answers())
                    mine = [r for r in recs if r.name == name or getattr(r, "alias", None) == name]
                    if mine and all(int(r.ttl) == 0 for r in mine):
                        kinds = sorted({type(r).__name__ for r in mine})
                        goodbyes.append([round((t - t_call) * 1000), kinds, addr[0] if addr else None])
                    elif mine and goodbyes and info is infos[0] and unregister_first:
                        late_positive.append(round((t - t_call) * 1000))
            obs = {"unregister_returned_ms": round((t_ret - t_call) * 1000), "close_called_ms": round((t_close - t_call) * 1000),
                   "close_returned_ms": round((t_closed - t_call) * 1000), "goodbyes": by_service[infos[0].name], "positive_after_goodbye": late_positive,
                   "registered_at_close": {info.name: by_service[info.name] for info in (infos[1:] if unregister_first else infos)}}
        finally:
            if not zc.done:
                try:
                    zc.close()
                except Exception:  # noqa: BLE001
                    pass
    return obs


def full_goodbyes(gb):
    return [g for g in gb if {"DNSPointer", "DNSService", "DNSText"} <= set(g[1]) and g[2] == "224.0.0.251"]


def sync_oracle(case, obs, res):
    """the English sentence on the synchronous API: the goodbye copies are multicast three times, whenever close() follows;
    and `close()` itself says goodbye three times for everything that is still registered"""
    res.evaluations += 1
    res.count("sync:gap=%d%s" % (case["gap_ms"], "" if case.get("unregister_first", True) else ":close-only"))
    gb = obs["goodbyes"]
    full = full_goodbyes(gb)
    if case.get("unregister_first", True):
        if len(full) < 3:
            res.violate("C08:sync-unregister-returns-before-goodbyes",
                        "unregister_service(info) returned after %d ms (before its goodbye sequence); close() called %d ms later: only %d of the 3 goodbye datagrams "
                        "were multicast (at %r ms; the protocol interval is scaled to %d ms)"
                        % (obs["unregister_returned_ms"], obs["close_called_ms"] - obs["unregister_returned_ms"], len(full), [g[0] for g in gb], SYNC_FAST),
                        dict(case, observed=obs))
        if obs["positive_after_goodbye"]:
            res.violate("C08:sync-record-after-goodbye", "a record of the unregistered service left with a non-zero TTL after a goodbye (sync API)", dict(case, observed=obs))
    ok = len(full) >= 3 or not case.get("unregister_first", True)
    for name, g in sorted(obs.get("registered_at_close", {}).items()):
        if len(full_goodbyes(g)) < 3:
            ok = False
            res.violate("C08:sync-close-without-goodbyes",
                        "close() was called with %s still registered: %d of the 3 goodbye datagrams (TTL-0 PTR, SRV, TXT) were multicast for it"
                        % (name, len(full_goodbyes(g))), dict(case, observed=obs))
    if ok:
        res.nontriv(("sync", case["gap_ms"], case["n_services"], case["shared"], case.get("unregister_first", True)))


def run_sync(res, seed):
    # one service (close() finds the registry empty and sets `done` at once) at every gap; two services (close() spends 250 ms
    # on the other service's goodbyes, during which the first sequence can finish) at two gaps; close() alone with one / two
    # services still registered
    cases = [{"stream": "sync", "gap_ms": gap, "n_services": 1, "shared": False} for gap in SYNC_GAPS]
    cases += [{"stream": "sync", "gap_ms": SYNC_GAPS[(seed + k) % len(SYNC_GAPS)], "n_services": 2, "shared": bool((seed + k) % 2)} for k in range(2)]
    cases += [{"stream": "sync", "gap_ms": 0, "n_services": 1 + (seed + k) % 2, "shared": bool((seed // 2 + k) % 2), "unregister_first": False} for k in range(2)]
    for case in cases:
        try:
            obs = sync_case(case["gap_ms"], case["n_services"], case["shared"], case.get("unregister_first", True))
        except Exception as ex:  # noqa: BLE001
            res.notes.append("sync case %r could not run: %r" % (case, ex))
            continue
        sync_oracle(case, obs, res)


def run(ctx):
    res = C.Result("C08")
    rng = C.rng_for(ctx["seed"], "c08")
    n = C.Budget(ctx["tier"], 3000, 60000).n
    if ctx["widened"]:
        n *= 2
    res.rule = ("scenarios = 1-3 services (shared / unshared host names, v4/v6 mixes, custom TTLs) x queries (single and multi-question, QM/QU/legacy unicast; answered at once, "
                "aggregated up to 500 ms, flood-delayed 1 s) x unregister / unregister right after register / update / unregister-all / close at offsets "
                "{-200..1300 ms} around the queries and the queue deadlines; non-trivial = distinct (withdrawals with answers queued, block kinds, trace length)")
    lines, pending = [], []
    for name, body in C.load_corpus("C08"):
        if body.get("stream") == "sync" or ("case" in body and body["case"].get("stream") == "sync"):
            case = body.get("case", body)
            sync_oracle(case, sync_case(case["gap_ms"], case["n_services"], case["shared"], case.get("unregister_first", True)), res)
        else:
            evaluate(body["scenario"] if "scenario" in body else body, res, lines, pending)
        res.count("corpus")
    run_sync(res, ctx["seed"])
    for i in range(n):
        evaluate(gen_scenario(rng, i), res, lines, pending)
    if ctx["driver_ok"]:
        try:
            model = C.run_driver(lines)
            compare(res, pending, model)
        except C.DriverUnavailable as ex:
            res.notes.append("driver unavailable: %s" % ex)
    return res


def replay(body):
    case = body.get("case", body)
    if case.get("stream") == "sync":
        res = C.Result("C08")
        obs = sync_case(case["gap_ms"], case["n_services"], case["shared"], case.get("unregister_first", True))
        sync_oracle(case, obs, res)
        return {"violates": bool(res.violations), "violations": [(v["sig"], v["what"]) for v in res.violations], "observed": obs}
    sc = body["case"]["scenario"] if "case" in body else body["scenario"]
    res = C.Result("C08")
    lines, pending = [], []
    obs = evaluate(sc, res, lines, pending)
    zc = obs["zc"]
    sends = []
    for e in obs["ev"]:
        if e[0] == "send" and e[2] == zc:
            sends.append([e[1] - T0, sorted({(type(r).__name__, r.name, r.ttl) for r in all_recs(e[3])})])
    out = {"violates": bool(res.violations), "violations": [(v["sig"], v["what"]) for v in res.violations], "sends(ms, records)": sends}
    try:
        model = C.run_driver(lines)
        compare(res, pending, model)
        out["disagreements"] = res.disagreements
    except C.DriverUnavailable as ex:
        out["model"] = "unavailable: %s" % ex
    return out
